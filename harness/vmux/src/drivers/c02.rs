//! C02 — logical streams deliver bytes intact, in order, exactly once, without cross-talk.

use super::common::{Case, Plan, run_cases};
use super::xfer::{self, Oracles, StreamSpec, XferCfg};
use crate::Args;
use crate::apps::{EndPlan, Op};
use crate::report::Report;
use std::time::Duration;

fn split(w: Vec<Op>, r: usize) -> EndPlan {
    let mut w = w;
    w.push(Op::Shutdown);
    EndPlan::Split(w, vec![Op::ReadToEof(r)])
}

pub fn scripts(thorough: bool, maxw: u32) -> Vec<(&'static str, Vec<StreamSpec>)> {
    let burst = maxw as usize + 2;
    let mut v = vec![
        (
            "1 stream, plain+vectored",
            vec![StreamSpec {
                tag: 1,
                opener: 0,
                opener_plan: split(vec![Op::W(3), Op::WV(vec![2, 0, 1]), Op::W(1)], 64),
                acceptor_plan: split(vec![Op::W(1)], 2),
            }],
        ),
        (
            "1 stream, burst longer than the window both ways",
            vec![StreamSpec {
                tag: 1,
                opener: 0,
                opener_plan: split(vec![Op::Burst(burst, 1)], 64),
                acceptor_plan: split(vec![Op::Burst(3, 2)], 1),
            }],
        ),
        (
            "2 streams",
            vec![
                StreamSpec { tag: 1, opener: 0, opener_plan: split(vec![Op::W(3), Op::W(1)], 1), acceptor_plan: split(vec![Op::W(2)], 64) },
                StreamSpec { tag: 2, opener: 0, opener_plan: split(vec![Op::WV(vec![2, 0, 1])], 64), acceptor_plan: split(vec![Op::W(1), Op::W(3)], 1) },
            ],
        ),
    ];
    // penguin's real data path: the stream is bridged to a local byte stream on both ends
    v.push((
        "1 stream, both ends bridged to local pipes (CopyBidirectional on both sides)",
        vec![StreamSpec {
            tag: 1,
            opener: 0,
            opener_plan: EndPlan::Bridged(4, vec![Op::W(3), Op::W(2), Op::Shutdown, Op::ReadToEof(2)]),
            acceptor_plan: EndPlan::Bridged(2, vec![Op::ReadN(2, 1), Op::W(3), Op::ReadToEof(8), Op::W(1), Op::Shutdown]),
        }],
    ));
    v.push((
        "2 streams, one end bridged each, bursts",
        vec![
            StreamSpec { tag: 1, opener: 0, opener_plan: EndPlan::Bridged(3, vec![Op::Burst(burst, 1), Op::Shutdown, Op::ReadToEof(4)]), acceptor_plan: split(vec![Op::W(2)], 1) },
            StreamSpec { tag: 2, opener: 0, opener_plan: split(vec![Op::W(1), Op::W(2)], 64), acceptor_plan: EndPlan::Bridged(8, vec![Op::ReadToEof(2), Op::Burst(3, 2), Op::Shutdown]) },
        ],
    ));
    if thorough {
        v.push((
            "3 streams, one opened by the server at the same time",
            vec![
                StreamSpec { tag: 1, opener: 0, opener_plan: split(vec![Op::Burst(burst, 2)], 2), acceptor_plan: split(vec![Op::W(2)], 64) },
                StreamSpec { tag: 2, opener: 0, opener_plan: split(vec![Op::WV(vec![0, 2, 1])], 64), acceptor_plan: split(vec![Op::W(1)], 1) },
                StreamSpec { tag: 3, opener: 1, opener_plan: split(vec![Op::W(3), Op::W(3)], 2), acceptor_plan: split(vec![Op::Burst(burst, 1)], 64) },
            ],
        ));
        v.push((
            "1 stream, sequential ends (write all, then read)",
            vec![StreamSpec {
                tag: 1,
                opener: 0,
                opener_plan: EndPlan::Seq(vec![Op::W(2), Op::W(2), Op::Shutdown, Op::ReadToEof(3)]),
                acceptor_plan: EndPlan::Seq(vec![Op::ReadN(2, 1), Op::W(3), Op::ReadToEof(64), Op::WV(vec![1, 1]), Op::Shutdown]),
            }],
        ));
    }
    v
}

pub fn configs(thorough: bool) -> Vec<((u32, u32), (u32, u32))> {
    if thorough {
        let one = [(1, 1), (2, 1), (2, 2), (3, 1), (3, 2), (3, 3), (1, 3), (2, 3), (1, 2)];
        let mut v = Vec::new();
        for a in one {
            for b in one {
                v.push((a, b));
            }
        }
        v
    } else {
        vec![
            ((1, 1), (1, 1)),
            ((2, 2), (2, 2)),
            ((3, 3), (3, 3)),
            ((1, 1), (3, 3)),
            ((3, 3), (1, 1)),
            ((2, 1), (3, 2)),
            ((3, 2), (2, 1)),
            ((1, 3), (3, 1)),
            ((3, 1), (1, 3)),
        ]
    }
}

pub const WITNESS_NAMES: &[(&str, u64)] = &[
    ("writer_ran_out_of_credit", xfer::W_CREDIT_ZERO),
    ("acknowledge_sent", xfer::W_ACK_SENT),
    ("reset_seen", xfer::W_RESET),
    ("some_execution_completed_all_futures", xfer::W_ALL_DONE),
    ("pushes_of_two_streams_adjacent_on_wire", xfer::W_TWO_STREAMS_INTERLEAVED),
    ("multiplexor_dropped_with_streams_alive", xfer::W_MUX_DROPPED),
];

pub fn run(args: &Args) -> Report {
    let mut rep = Report::new("C02", &args.tier, "psim", "model_checking");
    let thorough = args.thorough();
    let or = Oracles { integrity: true, credit: false, progress: false, allow_pending_prefixes: &[] };
    let mut cases = Vec::new();
    for (a, b) in configs(thorough) {
        for cap in [0usize, 1] {
            for (name, streams) in scripts(thorough, a.0.max(b.0)) {
                let cfg = XferCfg { a, b, cap, streams, stream_buffer: 4, one_byte_frames: false, dgram_pingpong: 0, dgram_buffer: 4, drop_mux_when_writers_done: None, extra: xfer::XferExtra::NONE, horizon: 4000 };
                let label = format!("{name} | {}", cfg.describe());
                // with an unbounded link the steps of the two endpoints commute: the complete tree modulo that
                // commutation is attempted after the bounded levels (sleep sets), for the one-stream scripts
                let por = false; // too large even modulo commutation (stateless search); see the tiny cases below
                let _ = name;
                cases.push(Case { try_unbounded: por, max_k: u32::MAX, label, exec: Box::new(move |r| xfer::exec(&cfg, &or, r)) });
            }
        }
    }
    // the application drops its Multiplexor handle once its writers are done (the streams live on):
    // whatever was accepted and cleanly shut down must still arrive, also under link back-pressure
    for (a, b, cap) in [((2u32, 1u32), (2u32, 1u32), 1usize), ((3, 2), (1, 1), 1), ((2, 2), (3, 1), 0)] {
        let streams = vec![StreamSpec {
            tag: 1,
            opener: 0,
            opener_plan: EndPlan::Split(vec![Op::W(2), Op::W(2), Op::W(1), Op::Shutdown], vec![Op::ReadToEof(4)]),
            acceptor_plan: EndPlan::Split(vec![Op::W(1), Op::Shutdown], vec![Op::ReadToEof(1)]),
        }];
        let cfg = XferCfg { a, b, cap, streams, stream_buffer: 4, one_byte_frames: false, dgram_pingpong: 0, dgram_buffer: 4, drop_mux_when_writers_done: Some(0), extra: xfer::XferExtra::NONE, horizon: 4000 };
        let label = format!("writer done, then Multiplexor A dropped at any point | {}", cfg.describe());
        cases.push(Case { try_unbounded: false, max_k: u32::MAX, label, exec: Box::new(move |r| xfer::exec(&cfg, &or, r)) });
    }
    // penguin's real data path with far more than one frame's worth (512 KiB) ready on the local side at once, read
    // through a caller-supplied buffer whose size does not divide the frame limit (so that the pieces the bridge
    // coalesces do not add up to the limit exactly)
    for (a, b) in [((4u32, 2u32), (4u32, 2u32)), ((1, 1), (2, 1))] {
        let streams = vec![StreamSpec {
            tag: 1,
            opener: 0,
            opener_plan: EndPlan::Bridged(1_500_000, vec![Op::W(100), Op::W(1_400_000), Op::Shutdown, Op::ReadToEof(4096)]),
            acceptor_plan: EndPlan::Seq(vec![Op::ReadToEof(65_536), Op::W(2), Op::Shutdown]),
        }];
        let cfg = XferCfg { a, b, cap: 0, streams, stream_buffer: 4, one_byte_frames: false, dgram_pingpong: 0, dgram_buffer: 4, drop_mux_when_writers_done: None, extra: xfer::XferExtra::NONE, horizon: 8000 };
        let label = format!("bridged end with 1.4 MB ready at once, read through a buffer of 12 345 octets | {}", cfg.describe());
        cases.push(Case { try_unbounded: false, max_k: 1, label, exec: Box::new(move |r| xfer::exec(&cfg, &or, r)) });
    }
    // single writes, plain and vectored, longer than one frame may carry (512 KiB): whatever count the call reports is
    // what the peer gets to read (a short count is fine, a count beyond what was queued is not)
    for (a, b) in [((4u32, 2u32), (4u32, 2u32)), ((1, 1), (2, 1))] {
        let streams = vec![StreamSpec {
            tag: 1,
            opener: 0,
            opener_plan: EndPlan::Split(vec![Op::WV(vec![300_000, 300_000, 300_000]), Op::W(700_000), Op::WV(vec![0, 524_288, 1]), Op::WV(vec![524_287, 0, 2, 5]), Op::WV(vec![4; 1500]), Op::Shutdown], vec![Op::ReadToEof(65_536)]),
            acceptor_plan: EndPlan::Split(vec![Op::WV(vec![600_000, 10]), Op::W(524_289), Op::WV(vec![1; 5000]), Op::Shutdown], vec![Op::ReadToEof(65_536)]),
        }];
        let cfg = XferCfg { a, b, cap: 0, streams, stream_buffer: 4, one_byte_frames: false, dgram_pingpong: 0, dgram_buffer: 4, drop_mux_when_writers_done: None, extra: xfer::XferExtra::NONE, horizon: 8000 };
        let label = format!("single plain and vectored writes longer than a frame, or of thousands of slices | {}", cfg.describe());
        cases.push(Case { try_unbounded: false, max_k: 1, label, exec: Box::new(move |r| xfer::exec(&cfg, &or, r)) });
    }
    // the flow-id generator proposes ids that are taken (the id of the live first stream, 0, the id the other side is
    // using): the streams still must not touch each other
    for (rng_a, rng_b) in [(&[5u32, 5, 6][..], &[][..]), (&[5, 0, 5, 7], &[]), (&[5, 6], &[5, 5, 6, 8]), (&[9, 9, 9, 4], &[9, 4, 4, 3])] {
        let streams = vec![
            StreamSpec { tag: 1, opener: 0, opener_plan: split(vec![Op::W(3), Op::W(1)], 1), acceptor_plan: split(vec![Op::W(2)], 64) },
            StreamSpec { tag: 2, opener: 0, opener_plan: split(vec![Op::WV(vec![2, 0, 1])], 64), acceptor_plan: split(vec![Op::W(1), Op::W(3)], 1) },
            StreamSpec { tag: 3, opener: 1, opener_plan: split(vec![Op::W(2), Op::W(2)], 2), acceptor_plan: split(vec![Op::W(1)], 64) },
        ];
        let cfg = XferCfg { a: (2, 1), b: (2, 2), cap: 0, streams, stream_buffer: 4, one_byte_frames: false, dgram_pingpong: 0, dgram_buffer: 4, drop_mux_when_writers_done: None, extra: xfer::XferExtra { dgram_flood: 0, rng_a, rng_b }, horizon: 4000 };
        let label = format!("3 streams, colliding flow-id draws | {}", cfg.describe());
        cases.push(Case { try_unbounded: false, max_k: 1, label, exec: Box::new(move |r| xfer::exec(&cfg, &or, r)) });
    }
    // the smallest drivers: EVERY interleaving (modulo commutation of steps of different endpoints: sleep sets)
    for (a, b) in [((1u32, 1u32), (1u32, 1u32)), ((2, 1), (1, 1)), ((1, 1), (2, 2))] {
        let streams = vec![StreamSpec {
            tag: 1,
            opener: 0,
            opener_plan: EndPlan::Seq(vec![Op::W(2), Op::W(1), Op::Shutdown, Op::ReadToEof(4)]),
            acceptor_plan: EndPlan::Seq(vec![Op::ReadToEof(2), Op::W(1), Op::Shutdown]),
        }];
        let cfg = XferCfg { a, b, cap: 0, streams, stream_buffer: 4, one_byte_frames: false, dgram_pingpong: 0, dgram_buffer: 4, drop_mux_when_writers_done: None, extra: xfer::XferExtra::NONE, horizon: 4000 };
        let label = format!("tiny, all interleavings | {}", cfg.describe());
        cases.push(Case { try_unbounded: true, max_k: 2, label, exec: Box::new(move |r| xfer::exec(&cfg, &or, r)) });
    }
    // micro cases: small enough for the UNREDUCED tree too (used to cross-check the sleep-set reduction)
    for (name, oa, ob) in [("micro-1", vec![Op::W(1)], vec![Op::ReadOnce(1)]), ("micro-2", vec![Op::W(1), Op::Shutdown], vec![Op::ReadToEof(2)])] {
        let streams = vec![StreamSpec { tag: 1, opener: 0, opener_plan: EndPlan::Seq(oa), acceptor_plan: EndPlan::Seq(ob) }];
        let cfg = XferCfg { a: (1, 1), b: (1, 1), cap: 0, streams, stream_buffer: 4, one_byte_frames: false, dgram_pingpong: 0, dgram_buffer: 4, drop_mux_when_writers_done: None, extra: xfer::XferExtra::NONE, horizon: 4000 };
        let label = format!("{name}, all interleavings | {}", cfg.describe());
        cases.push(Case { try_unbounded: true, max_k: 1, label, exec: Box::new(move |r| xfer::exec(&cfg, &or, r)) });
    }
    let plan = Plan {
        ks: if thorough { vec![0, 1, 2, 3, 4] } else { vec![0, 1, 2] },
        env: 0,
        fault: 1,
        total_wall: Duration::from_secs(if thorough { 900 } else { 100 }),
        max_execs_per_case: if thorough { 3_000_000 } else { 200_000 },
        required_witnesses: xfer::W_CREDIT_ZERO | xfer::W_ACK_SENT | xfer::W_ALL_DONE | xfer::W_TWO_STREAMS_INTERLEAVED,
        adaptive: thorough,
        witness_names: WITNESS_NAMES,
    };
    rep.rule = "psim: two real Multiplexor endpoints + their real task futures + application tasks over an in-memory WebSocket; every schedule (task polls, message deliveries) with at most k scheduling deviations from the canonical order is executed, per (rwnd,threshold) pair x link capacity x write/read script; an execution is distinct when its application-visible event log differs; states = distinct fingerprints of (ledger, link queues, flow tables)".into();
    rep.assumptions = vec![
        "one poll of a task is one atomic step (current-thread granularity); sub-poll interleavings of the atomics are C12's subject".into(),
        "payload bytes are position/stream tags; the multiplexor never inspects payload bytes".into(),
        "tokio channels and parking_lot locks are trusted".into(),
    ];
    run_cases(args, &mut rep, cases, &plan);
    if thorough && args.replay.is_none() && rep.machinery_error.is_none() {
        por_selfcheck(args, &mut rep, &or);
    }
    rep
}

/// Cross-check of the sleep-set reduction: on a micro case the UNREDUCED interleaving tree (tens of millions of
/// executions) and the reduced one must visit exactly the same set of states.
fn por_selfcheck(args: &Args, rep: &mut Report, or: &Oracles) {
    use crate::explore::{Budget, Limits, explore, explore_por};
    let streams = vec![StreamSpec { tag: 1, opener: 0, opener_plan: EndPlan::Seq(vec![Op::W(1), Op::Shutdown]), acceptor_plan: EndPlan::Seq(vec![Op::ReadToEof(2)]) }];
    let cfg = XferCfg { a: (1, 1), b: (1, 1), cap: 0, streams, stream_buffer: 4, one_byte_frames: false, dgram_pingpong: 0, dgram_buffer: 4, drop_mux_when_writers_done: None, extra: xfer::XferExtra::NONE, horizon: 4000 };
    let lim = Limits { max_execs: u64::MAX, deadline: std::time::Instant::now() + Duration::from_secs(600), threads: args.threads.max(1), stop_after_violation_kinds: 0 };
    let (red, pruned) = explore_por(lim, "por-selfcheck", || xfer::exec(&cfg, or, false));
    let full = explore(Budget::new(Budget::UNBOUNDED, 0, 0), lim, "por-selfcheck-full", || xfer::exec(&cfg, or, false));
    let same = red.states == full.states;
    rep.extra.insert(
        "sleep_set_selfcheck".into(),
        serde_json::json!({"case": cfg.describe(), "unreduced_executions": full.executions, "reduced_executions": red.executions, "pruned_paths": pruned,
            "states_unreduced": full.states.len(), "states_reduced": red.states.len(), "state_sets_equal": same, "completed": full.capped.is_none() && red.capped.is_none()}),
    );
    rep.evaluations += full.executions + red.executions;
    if full.capped.is_none() && red.capped.is_none() && !same {
        rep.machinery_error = Some(format!("sleep-set self-check failed: reduced search visits {} states, unreduced {} (sets differ)", red.states.len(), full.states.len()));
    }
}
