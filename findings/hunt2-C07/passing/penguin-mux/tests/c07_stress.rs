//! Randomised stress of the stream-opening handshake with a tiny flow-id space.
#![allow(clippy::all, clippy::pedantic, clippy::nursery, clippy::unwrap_used, missing_docs)]

use bytes::Bytes;
use penguin_mux::config::Options;
use penguin_mux::ws::{Message, WebSocket};
use penguin_mux::{Datagram, Error, Multiplexor, MuxStream};
use std::collections::HashMap;
use std::sync::{Arc, Mutex};
use std::task::{Context, Poll};
use std::time::Duration;
use tokio::io::{AsyncReadExt, AsyncWriteExt};
use tokio::sync::mpsc;

#[derive(Clone, Debug)]
struct WireRec {
    from: u8,
    op: u8,
    id: u32,
    rest: Vec<u8>,
}

type Log = Arc<Mutex<Vec<WireRec>>>;

struct MemWs {
    me: u8,
    tx: Option<mpsc::UnboundedSender<Message>>,
    rx: mpsc::UnboundedReceiver<Message>,
    log: Log,
    jitter: u64,
}

impl MemWs {
    fn next_jitter(&mut self) -> u64 {
        self.jitter ^= self.jitter << 13;
        self.jitter ^= self.jitter >> 7;
        self.jitter ^= self.jitter << 17;
        self.jitter
    }
}

impl WebSocket for MemWs {
    fn poll_ready_unpin(&mut self, _cx: &mut Context<'_>) -> Poll<Result<(), Error>> {
        if self.tx.is_none() {
            Poll::Ready(Err(Error::Closed))
        } else {
            Poll::Ready(Ok(()))
        }
    }
    fn start_send_unpin(&mut self, item: Message) -> Result<(), Error> {
        if let Message::Binary(b) = &item {
            self.log.lock().unwrap().push(WireRec {
                from: self.me,
                op: b[0] & 0x0f,
                id: u32::from_be_bytes([b[1], b[2], b[3], b[4]]),
                rest: b[5..].to_vec(),
            });
        }
        let Some(tx) = &self.tx else {
            return Err(Error::Closed);
        };
        tx.send(item).or(Err(Error::Closed))
    }
    fn poll_flush_unpin(&mut self, _cx: &mut Context<'_>) -> Poll<Result<(), Error>> {
        Poll::Ready(Ok(()))
    }
    fn poll_close_unpin(&mut self, _cx: &mut Context<'_>) -> Poll<Result<(), Error>> {
        self.tx.take();
        Poll::Ready(Ok(()))
    }
    fn poll_next_unpin(&mut self, cx: &mut Context<'_>) -> Poll<Option<Result<Message, Error>>> {
        if self.next_jitter() % 4 == 0 {
            cx.waker().wake_by_ref();
            return Poll::Pending;
        }
        self.rx.poll_recv(cx).map(|x| x.map(Ok))
    }
}

fn pair(log: &Log, seed: u64) -> (MemWs, MemWs) {
    let (tx1, rx1) = mpsc::unbounded_channel();
    let (tx2, rx2) = mpsc::unbounded_channel();
    (
        MemWs {
            me: 0,
            tx: Some(tx1),
            rx: rx2,
            log: log.clone(),
            jitter: seed | 1,
        },
        MemWs {
            me: 1,
            tx: Some(tx2),
            rx: rx1,
            log: log.clone(),
            jitter: (seed.rotate_left(17)) | 1,
        },
    )
}

/// Flow ids from a tiny space (0..16), zero included
struct TinyRng(u64);
impl rand::TryRng for TinyRng {
    type Error = core::convert::Infallible;
    fn try_next_u32(&mut self) -> Result<u32, Self::Error> {
        self.0 ^= self.0 << 13;
        self.0 ^= self.0 >> 7;
        self.0 ^= self.0 << 17;
        Ok(((self.0 >> 20) & 0xf) as u32)
    }
    fn try_next_u64(&mut self) -> Result<u64, Self::Error> {
        Ok(u64::from(self.try_next_u32()?))
    }
    fn try_fill_bytes(&mut self, dst: &mut [u8]) -> Result<(), Self::Error> {
        for b in dst {
            *b = self.try_next_u32()? as u8;
        }
        Ok(())
    }
}

struct Xs(u64);
impl Xs {
    fn next(&mut self) -> u64 {
        self.0 ^= self.0 << 13;
        self.0 ^= self.0 >> 7;
        self.0 ^= self.0 << 17;
        self.0
    }
}

async fn sentinel(from: &Multiplexor<TinyRng>, to: &Multiplexor<TinyRng>, n: u32) {
    from.send_datagram(Datagram {
        flow_id: n,
        target_host: Bytes::from_static(b"sentinel"),
        target_port: 1,
        data: Bytes::new(),
    })
    .await
    .unwrap();
    let d = tokio::time::timeout(Duration::from_secs(5), to.get_datagram())
        .await
        .expect("sentinel lost")
        .unwrap();
    assert_eq!(d.flow_id, n);
}

async fn quiesce(a: &Multiplexor<TinyRng>, b: &Multiplexor<TinyRng>) {
    for i in 0..3 {
        tokio::time::sleep(Duration::from_millis(3)).await;
        sentinel(a, b, i).await;
        sentinel(b, a, i).await;
    }
}

/// How many one-byte writes go through without the peer reading anything
async fn measure_credit(s: &mut MuxStream, token: &[u8]) -> u32 {
    let mut n = 0;
    loop {
        let r = tokio::time::timeout(Duration::from_millis(30), s.write(token)).await;
        match r {
            Ok(Ok(_)) => n += 1,
            Ok(Err(e)) => panic!("write failed after {n}: {e}"),
            Err(_) => return n,
        }
        assert!(n < 100);
    }
}

async fn one_case(seed: u64) {
    let mut xs = Xs(seed.wrapping_mul(0x9E37_79B9_7F4A_7C15) | 1);
    let log: Log = Arc::new(Mutex::new(Vec::new()));
    let (wa, wb) = pair(&log, xs.next());
    let rw = [(1 + xs.next() % 4) as u32, (1 + xs.next() % 4) as u32];
    let retries = [(1 + xs.next() % 3) as usize, (1 + xs.next() % 3) as usize];
    let oa = Options::new()
        .rwnd(rw[0])
        .max_flow_id_retries(retries[0])
        .bind_buffer_size(4);
    let ob = Options::new()
        .rwnd(rw[1])
        .max_flow_id_retries(retries[1])
        .bind_buffer_size(4);
    let (ma, ta) = Multiplexor::new_detailed::<_, std::time::Instant>(wa, oa, TinyRng(xs.next() | 1));
    let (mb, tb) = Multiplexor::new_detailed::<_, std::time::Instant>(wb, ob, TinyRng(xs.next() | 1));
    let ja = tokio::spawn(ta.into_task());
    let jb = tokio::spawn(tb.into_task());
    let muxes = [Arc::new(ma), Arc::new(mb)];

    let rounds = 3;
    for round in 0..rounds {
        // Requests of this round
        let mut req_handles = Vec::new();
        let mut bind_handles = Vec::new();
        let mut tokens: [Vec<(Vec<u8>, u16)>; 2] = [Vec::new(), Vec::new()];
        for side in 0..2usize {
            let k = xs.next() % 4;
            for i in 0..k {
                let mut host = vec![side as u8, round as u8, i as u8];
                let extra = xs.next() % 5;
                for _ in 0..extra {
                    host.push(xs.next() as u8);
                }
                let port = xs.next() as u16;
                tokens[side].push((host.clone(), port));
                let m = muxes[side].clone();
                let delay = xs.next() % 3;
                req_handles.push((
                    side,
                    host.clone(),
                    port,
                    tokio::spawn(async move {
                        for _ in 0..delay {
                            tokio::task::yield_now().await;
                        }
                        m.new_stream_channel(&host, port).await
                    }),
                ));
            }
            let nb = xs.next() % 3;
            for i in 0..nb {
                let m = muxes[side].clone();
                let accept = xs.next() % 2 == 0;
                let port = (i as u16) * 2 + u16::from(accept);
                bind_handles.push((
                    side,
                    accept,
                    tokio::spawn(async move {
                        m.request_bind(b"bind", port, penguin_mux::frame::BindType::Stream)
                            .await
                    }),
                ));
            }
        }
        // Bind responders
        let mut responders = Vec::new();
        for side in 0..2usize {
            let m = muxes[side].clone();
            responders.push(tokio::spawn(async move {
                loop {
                    let Ok(Ok(r)) =
                        tokio::time::timeout(Duration::from_millis(200), m.next_bind_request()).await
                    else {
                        break;
                    };
                    r.reply(r.port() % 2 == 1).unwrap();
                }
            }));
        }
        // Acceptors
        let mut acceptors = Vec::new();
        let (stop_tx, _) = tokio::sync::broadcast::channel::<()>(1);
        for side in 0..2usize {
            let m = muxes[side].clone();
            let mut stop = stop_tx.subscribe();
            acceptors.push(tokio::spawn(async move {
                let mut got = Vec::new();
                loop {
                    tokio::select! {
                        biased;
                        r = m.accept_stream_channel() => got.push(r.unwrap()),
                        _ = stop.recv() => break,
                    }
                }
                // drain what is left
                while let Ok(r) =
                    tokio::time::timeout(Duration::from_millis(5), m.accept_stream_channel()).await
                {
                    got.push(r.unwrap());
                }
                got
            }));
        }
        let mut ok: [Vec<(Vec<u8>, u16, MuxStream)>; 2] = [Vec::new(), Vec::new()];
        let mut rejected: [Vec<(Vec<u8>, u16)>; 2] = [Vec::new(), Vec::new()];
        for (side, host, port, h) in req_handles {
            let r = tokio::time::timeout(Duration::from_secs(5), h)
                .await
                .unwrap_or_else(|_| panic!("seed {seed}: request never resolved"))
                .unwrap();
            match r {
                Ok(s) => ok[side].push((host, port, s)),
                Err(Error::FlowIdRejected) => rejected[side].push((host, port)),
                Err(e) => panic!("seed {seed}: unexpected error {e}"),
            }
        }
        for (side, accept, h) in bind_handles {
            let r = tokio::time::timeout(Duration::from_secs(5), h)
                .await
                .unwrap_or_else(|_| panic!("seed {seed}: bind never resolved"))
                .unwrap()
                .unwrap();
            assert_eq!(r, accept, "seed {seed}: bind result on side {side}");
        }
        quiesce(&muxes[0], &muxes[1]).await;
        stop_tx.send(()).unwrap();
        let mut accepted: [Vec<MuxStream>; 2] = [Vec::new(), Vec::new()];
        for (side, h) in acceptors.into_iter().enumerate() {
            accepted[side] = h.await.unwrap();
        }
        for r in responders {
            r.await.unwrap();
        }
        // Each successful request of `side` has exactly one accepted stream on the other side
        for side in 0..2usize {
            let other = 1 - side;
            let mut acc: HashMap<(Vec<u8>, u16), Vec<MuxStream>> = HashMap::new();
            for s in accepted[other].drain(..) {
                acc.entry((s.dest_host.to_vec(), s.dest_port))
                    .or_default()
                    .push(s);
            }
            let ok_side = std::mem::take(&mut ok[side]);
            assert_eq!(
                ok_side.len(),
                acc.values().map(Vec::len).sum::<usize>(),
                "seed {seed} round {round}: side {side} got {} streams, peer accepted {:?}; wire {:#?}",
                ok_side.len(),
                acc.keys().collect::<Vec<_>>(),
                log.lock().unwrap()
            );
            for (host, port, mut s) in ok_side {
                let mut v = acc
                    .remove(&(host.clone(), port))
                    .unwrap_or_else(|| panic!("seed {seed}: no accepted stream for {host:?}:{port}"));
                assert_eq!(v.len(), 1, "seed {seed}: duplicate accepted stream");
                let mut p = v.pop().unwrap();
                assert!(s.dest_host.is_empty() && s.dest_port == 0);
                // credit
                let c1 = measure_credit(&mut s, &host).await;
                assert_eq!(c1, rw[other], "seed {seed}: requester credit");
                let c2 = measure_credit(&mut p, &host).await;
                assert_eq!(c2, rw[side], "seed {seed}: acceptor credit");
                // pairing
                let mut buf = vec![0u8; host.len() * c1 as usize];
                tokio::time::timeout(Duration::from_secs(5), p.read_exact(&mut buf))
                    .await
                    .expect("seed: pairing read timed out")
                    .unwrap();
                assert_eq!(buf, host.repeat(c1 as usize));
                let mut buf = vec![0u8; host.len() * c2 as usize];
                tokio::time::timeout(Duration::from_secs(5), s.read_exact(&mut buf))
                    .await
                    .expect("seed: pairing read timed out")
                    .unwrap();
                assert_eq!(buf, host.repeat(c2 as usize));
                drop(s);
                drop(p);
            }
            assert!(acc.is_empty());
            // attempts
            let wire = log.lock().unwrap().clone();
            for (host, port) in &tokens[side] {
                let connects: Vec<&WireRec> = wire
                    .iter()
                    .filter(|r| {
                        r.from == side as u8
                            && r.op == 0
                            && r.rest.len() >= 6
                            && r.rest[4..6] == port.to_be_bytes()
                            && r.rest[6..] == host[..]
                    })
                    .collect();
                assert!(connects.iter().all(|c| c.id != 0), "seed {seed}: id 0 proposed");
                assert!(
                    connects.len() <= retries[side] && !connects.is_empty(),
                    "seed {seed}: {} attempts, max {}",
                    connects.len(),
                    retries[side]
                );
                STAT_REQ.fetch_add(1, std::sync::atomic::Ordering::Relaxed);
                STAT_CON.fetch_add(connects.len(), std::sync::atomic::Ordering::Relaxed);
                if rejected[side].iter().any(|(h, p)| h == host && p == port) {
                    STAT_REJ.fetch_add(1, std::sync::atomic::Ordering::Relaxed);
                    assert_eq!(connects.len(), retries[side], "seed {seed}: gave up early");
                }
            }
        }
        quiesce(&muxes[0], &muxes[1]).await;
    }
    assert!(!ja.is_finished(), "seed {seed}: task A ended");
    assert!(!jb.is_finished(), "seed {seed}: task B ended");
    let [a, b] = muxes;
    drop(a);
    drop(b);
    let _ = tokio::time::timeout(Duration::from_secs(5), ja).await;
    let _ = tokio::time::timeout(Duration::from_secs(5), jb).await;
}

static STAT_REQ: std::sync::atomic::AtomicUsize = std::sync::atomic::AtomicUsize::new(0);
static STAT_CON: std::sync::atomic::AtomicUsize = std::sync::atomic::AtomicUsize::new(0);
static STAT_REJ: std::sync::atomic::AtomicUsize = std::sync::atomic::AtomicUsize::new(0);

#[test]
fn stress() {
    let n: u64 = std::env::var("C07_SEEDS")
        .ok()
        .and_then(|s| s.parse().ok())
        .unwrap_or(200);
    let start: u64 = std::env::var("C07_START")
        .ok()
        .and_then(|s| s.parse().ok())
        .unwrap_or(1);
    let rt = tokio::runtime::Builder::new_multi_thread()
        .worker_threads(4)
        .enable_all()
        .build()
        .unwrap();
    rt.block_on(async {
        for seed in start..start + n {
            one_case(seed).await;
        }
    });
    eprintln!(
        "requests {} connects {} rejected {}",
        STAT_REQ.load(std::sync::atomic::Ordering::Relaxed),
        STAT_CON.load(std::sync::atomic::Ordering::Relaxed),
        STAT_REJ.load(std::sync::atomic::Ordering::Relaxed)
    );
}
