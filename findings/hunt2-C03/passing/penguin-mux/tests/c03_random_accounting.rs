//! C03 search harness (passes on the unmodified tree): two conforming endpoints over an
//! in-memory WebSocket whose deliveries can be withheld, random (rwnd, threshold) per side,
//! several flows opened from both sides, random non-blocking read / write / vectored write /
//! shutdown / drop schedules per stream end, and a wire observer that keeps per-flow,
//! per-direction accounts and checks on every frame:
//!   I1  pushes sent - credit returned <= window advertised by the receiver in the handshake
//!   I2  credit returned by an endpoint <= Push frames that were sent to it before
//!   I3  no Reset is ever emitted by an endpoint whose queue overflowed (seen as: a Reset from the
//!       receiver while the sender's account is within the window is fine, an overrun is I1)
//! Flow ids are random (no re-use), so each id is one flow.
//
// SPDX-License-Identifier: Apache-2.0 OR GPL-3.0-or-later

use bytes::Bytes;
use futures_util::FutureExt;
use penguin_mux::config::Options;
use penguin_mux::ws::{Message, WebSocket};
use penguin_mux::{Error, Multiplexor, MuxStream};
use rand::rngs::SmallRng;
use rand::{RngExt, SeedableRng};
use std::collections::{HashMap, VecDeque};
use std::sync::atomic::{AtomicBool, Ordering};
use std::sync::{Arc, Mutex};
use std::task::{Context, Poll, Waker};
use tokio::io::{AsyncReadExt, AsyncWriteExt};

#[derive(Default)]
struct Pipe {
    q: Mutex<(VecDeque<Message>, Option<Waker>)>,
    held: AtomicBool,
}
impl Pipe {
    fn release(&self) {
        self.held.store(false, Ordering::SeqCst);
        if let Some(w) = self.q.lock().unwrap().1.take() {
            w.wake();
        }
    }
}

#[derive(Default, Debug)]
struct Account {
    /// window advertised by side s (limits Push frames sent TO s)
    win: [Option<u32>; 2],
    opener: usize,
    pushes: [u64; 2],
    /// credit returned BY side s (to the other side)
    acked_by: [u64; 2],
    closed: bool,
}

#[derive(Default)]
struct Observer {
    flows: HashMap<u32, Account>,
    violations: Vec<String>,
    frames: u64,
    pushes: u64,
    acks: u64,
    max_outstanding_ratio_hit: u64,
}

impl Observer {
    fn on_frame(&mut self, from: usize, b: &Bytes) {
        self.frames += 1;
        let to = 1 - from;
        let op = b[0] & 0x0f;
        let id = u32::from_be_bytes([b[1], b[2], b[3], b[4]]);
        let arg = || u32::from_be_bytes([b[5], b[6], b[7], b[8]]);
        match op {
            0 => {
                let mut a = Account::default();
                a.opener = from;
                a.win[from] = Some(arg());
                if self.flows.insert(id, a).is_some() {
                    // random 32-bit ids: not expected
                    self.violations.push(format!("flow id {id:08x} drawn twice"));
                }
            }
            1 => {
                let Some(a) = self.flows.get_mut(&id) else {
                    return;
                };
                if a.closed {
                    return;
                }
                if a.win[from].is_none() {
                    if from == a.opener {
                        self.violations
                            .push(format!("{id:08x}: opener acknowledged before the handshake"));
                    }
                    a.win[from] = Some(arg());
                    return;
                }
                self.acks += 1;
                a.acked_by[from] += u64::from(arg());
                if a.acked_by[from] > a.pushes[to] {
                    self.violations.push(format!(
                        "I2 {id:08x}: side {from} returned {} units of credit, only {} Push frames \
                         were ever sent to it",
                        a.acked_by[from], a.pushes[to]
                    ));
                }
            }
            2 => {
                if let Some(a) = self.flows.get_mut(&id) {
                    a.closed = true;
                }
            }
            4 => {
                let Some(a) = self.flows.get_mut(&id) else {
                    self.violations.push(format!("Push on unknown flow {id:08x}"));
                    return;
                };
                if a.closed {
                    return;
                }
                self.pushes += 1;
                a.pushes[from] += 1;
                let Some(win) = a.win[to] else {
                    self.violations
                        .push(format!("{id:08x}: Push before the handshake completed"));
                    return;
                };
                let outstanding = a.pushes[from].saturating_sub(a.acked_by[to]);
                if outstanding == u64::from(win) {
                    self.max_outstanding_ratio_hit += 1;
                }
                if outstanding > u64::from(win) {
                    self.violations.push(format!(
                        "I1 {id:08x}: side {from} has {outstanding} unacknowledged Push frames on \
                         the wire, window advertised by side {to} is {win}"
                    ));
                }
                if b.len() == 5 {
                    self.violations.push(format!("{id:08x}: empty Push"));
                }
            }
            _ => {}
        }
    }
}

struct MemWs {
    side: usize,
    tx: Arc<Pipe>,
    rx: Arc<Pipe>,
    obs: Arc<Mutex<Observer>>,
    eof: bool,
}

impl WebSocket for MemWs {
    fn poll_ready_unpin(&mut self, _cx: &mut Context<'_>) -> Poll<Result<(), Error>> {
        Poll::Ready(Ok(()))
    }
    fn start_send_unpin(&mut self, item: Message) -> Result<(), Error> {
        if let Message::Binary(b) = &item {
            self.obs.lock().unwrap().on_frame(self.side, b);
        }
        let mut g = self.tx.q.lock().unwrap();
        g.0.push_back(item);
        if !self.tx.held.load(Ordering::SeqCst) {
            if let Some(w) = g.1.take() {
                w.wake();
            }
        }
        Ok(())
    }
    fn poll_flush_unpin(&mut self, _cx: &mut Context<'_>) -> Poll<Result<(), Error>> {
        Poll::Ready(Ok(()))
    }
    fn poll_close_unpin(&mut self, _cx: &mut Context<'_>) -> Poll<Result<(), Error>> {
        let mut g = self.tx.q.lock().unwrap();
        g.0.push_back(Message::Close);
        if let Some(w) = g.1.take() {
            w.wake();
        }
        Poll::Ready(Ok(()))
    }
    fn poll_next_unpin(&mut self, cx: &mut Context<'_>) -> Poll<Option<Result<Message, Error>>> {
        if self.eof {
            return Poll::Ready(None);
        }
        let mut g = self.rx.q.lock().unwrap();
        if self.rx.held.load(Ordering::SeqCst) {
            g.1 = Some(cx.waker().clone());
            return Poll::Pending;
        }
        match g.0.pop_front() {
            Some(Message::Close) => {
                self.eof = true;
                Poll::Ready(Some(Ok(Message::Close)))
            }
            Some(m) => Poll::Ready(Some(Ok(m))),
            None => {
                g.1 = Some(cx.waker().clone());
                Poll::Pending
            }
        }
    }
}

/// One end of one stream, driven by random non-blocking operations
async fn actor(mut s: MuxStream, seed: u64, steps: usize) {
    let mut rng = SmallRng::seed_from_u64(seed);
    let mut did_shutdown = false;
    for _ in 0..steps {
        match rng.random_range(0..100u32) {
            0..=39 => {
                if !did_shutdown {
                    let n = rng.random_range(0..4usize);
                    let buf = [0x55u8; 4];
                    let _ = s.write(&buf[..n]).now_or_never();
                }
            }
            40..=47 => {
                if !did_shutdown {
                    let a = [1u8; 2];
                    let b = [2u8; 3];
                    let bufs = [std::io::IoSlice::new(&a), std::io::IoSlice::new(&b)];
                    let _ = s.write_vectored(&bufs).now_or_never();
                }
            }
            48..=84 => {
                let mut buf = [0u8; 8];
                let n = rng.random_range(0..=8usize);
                let _ = s.read(&mut buf[..n]).now_or_never();
            }
            85..=89 => {
                let _ = s.shutdown().now_or_never();
                did_shutdown = true;
            }
            90..=91 => {
                drop(s);
                return;
            }
            _ => {}
        }
        for _ in 0..rng.random_range(0..3u32) {
            tokio::task::yield_now().await;
        }
    }
    // Read what is left for a while, then let go
    for _ in 0..steps {
        let mut buf = [0u8; 16];
        let _ = s.read(&mut buf).now_or_never();
        tokio::task::yield_now().await;
    }
}

async fn one_case(seed: u64) -> (Vec<String>, u64, u64, u64, u64) {
    let mut rng = SmallRng::seed_from_u64(seed);
    let obs: Arc<Mutex<Observer>> = Arc::default();
    let ab = Arc::new(Pipe::default());
    let ba = Arc::new(Pipe::default());
    let ws = [
        MemWs {
            side: 0,
            tx: ab.clone(),
            rx: ba.clone(),
            obs: obs.clone(),
            eof: false,
        },
        MemWs {
            side: 1,
            tx: ba.clone(),
            rx: ab.clone(),
            obs: obs.clone(),
            eof: false,
        },
    ];
    let mut muxes = Vec::new();
    let mut tasks = Vec::new();
    for w in ws {
        let rwnd = rng.random_range(1..=6u32);
        // thresholds above the window are legal as well
        let thr = rng.random_range(1..=8u32);
        let opt = Options::new().rwnd(rwnd).default_rwnd_threshold(thr);
        let (m, t) = Multiplexor::new_detailed::<_, std::time::Instant>(
            w,
            opt,
            SmallRng::seed_from_u64(rng.random()),
        );
        tasks.push(tokio::spawn(t.into_task()));
        muxes.push(Arc::new(m));
    }
    // A chaos task withholds and releases deliveries in both directions
    let stop = Arc::new(AtomicBool::new(false));
    let chaos = {
        let (ab, ba, stop) = (ab.clone(), ba.clone(), stop.clone());
        let mut rng = SmallRng::seed_from_u64(rng.random());
        tokio::spawn(async move {
            while !stop.load(Ordering::SeqCst) {
                for p in [&ab, &ba] {
                    if rng.random_range(0..4u32) == 0 {
                        p.held.store(true, Ordering::SeqCst);
                    } else {
                        p.release();
                    }
                }
                tokio::task::yield_now().await;
            }
            ab.release();
            ba.release();
        })
    };
    let n_flows = rng.random_range(1..=3usize);
    let steps = rng.random_range(10..=120usize);
    let mut actors = Vec::new();
    for _ in 0..n_flows {
        let opener = rng.random_range(0..2usize);
        let (o, a) = (muxes[opener].clone(), muxes[1 - opener].clone());
        let (s1, s2) = (rng.random(), rng.random());
        actors.push(tokio::spawn(async move {
            let (x, y) = tokio::join!(o.new_stream_channel(b"h", 1), a.accept_stream_channel());
            let (x, y) = (x.unwrap(), y.unwrap());
            tokio::join!(actor(x, s1, steps), actor(y, s2, steps));
        }));
    }
    for a in actors {
        tokio::time::timeout(std::time::Duration::from_secs(20), a)
            .await
            .expect("actors are non-blocking")
            .unwrap();
    }
    stop.store(true, Ordering::SeqCst);
    chaos.await.unwrap();
    for _ in 0..20 {
        tokio::task::yield_now().await;
    }
    drop(muxes);
    for t in tasks {
        let _ = tokio::time::timeout(std::time::Duration::from_secs(5), t).await;
    }
    let o = obs.lock().unwrap();
    (
        o.violations.clone(),
        o.frames,
        o.pushes,
        o.acks,
        o.max_outstanding_ratio_hit,
    )
}

fn run(cases: u64, base: u64, rt: tokio::runtime::Runtime) {
    let (mut frames, mut pushes, mut acks, mut full) = (0, 0, 0, 0);
    for seed in base..base + cases {
        let (v, f, p, a, m) = rt.block_on(one_case(seed));
        frames += f;
        pushes += p;
        acks += a;
        full += m;
        assert!(v.is_empty(), "seed {seed}: {v:#?}");
    }
    eprintln!(
        "{cases} cases: {frames} frames, {pushes} Push, {acks} flow-control Acknowledge, window \
         completely used {full} times, no violation"
    );
}

fn cases() -> u64 {
    std::env::var("C03_CASES")
        .ok()
        .and_then(|s| s.parse().ok())
        .unwrap_or(300)
}

#[test]
fn random_accounting_current_thread() {
    run(
        cases(),
        1,
        tokio::runtime::Builder::new_current_thread()
            .enable_all()
            .build()
            .unwrap(),
    );
}

#[test]
fn random_accounting_multi_thread() {
    run(
        cases(),
        1_000_000,
        tokio::runtime::Builder::new_multi_thread()
            .worker_threads(4)
            .enable_all()
            .build()
            .unwrap(),
    );
}
