//! Supplementary loom model for hunt C12 (NOT the demo): writer polls racing with
//! `acknowledge` / `disallow_write` / `do_shutdown` performed by another thread.
//!
//! To run: copy this file to `penguin-mux/src/hunt_loom.rs`, add
//! `#[cfg(all(test, loom))] mod hunt_loom;` to `penguin-mux/src/lib.rs`, then
//! `RUSTFLAGS="--cfg loom" cargo test -p penguin-mux --lib --release --offline \
//!     --no-default-features --features std,tokio hunt_loom`
//!
//! Unmodified tree: the four in-scope models (one writer vs acknowledge / close / both,
//! two writers of one task vs acknowledge incl. credit accounting) PASS;
//! `two_writers_two_tasks_vs_acknowledge` and `one_writer_vs_shutdown` FAIL (findings 2, 3).
use crate::loom::{Arc, AtomicBool, AtomicU32, AtomicWaker, Ordering};
use crate::{EstablishedStreamData, MuxStream};
use alloc::vec::Vec;
use bytes::Bytes;
use core::task::{Context, Poll, Waker};
use std::sync::atomic::AtomicUsize;
use std::task::Wake;
use tokio::sync::mpsc;

struct Count(AtomicUsize);
impl Wake for Count {
    fn wake(self: std::sync::Arc<Self>) {
        self.0.fetch_add(1, std::sync::atomic::Ordering::SeqCst);
    }
}

fn pair(credit: u32) -> (MuxStream, EstablishedStreamData) {
    let (_tx, rx_frame_rx) = mpsc::channel(1);
    let (tx_msg_tx, rx) = mpsc::unbounded_channel();
    core::mem::forget(rx);
    let (dropped_flows_tx, rx2) = mpsc::unbounded_channel();
    core::mem::forget(rx2);
    let finish_sent = Arc::new(AtomicBool::new(false));
    let psh_send_remaining = Arc::new(AtomicU32::new(credit));
    let writer_waker = Arc::new(AtomicWaker::new());
    let data = EstablishedStreamData {
        sender: None,
        finish_sent: finish_sent.clone(),
        psh_send_remaining: psh_send_remaining.clone(),
        writer_waker: writer_waker.clone(),
    };
    let stream = MuxStream {
        rx_frame_rx,
        flow_id: 1,
        dest_host: Bytes::new(),
        dest_port: 0,
        finish_sent,
        psh_send_remaining,
        psh_recvd_since: 0,
        writer_waker,
        buf: Bytes::new(),
        tx_msg_tx,
        dropped_flows_tx,
        rwnd_threshold: 1,
    };
    (stream, data)
}

fn counting() -> (std::sync::Arc<Count>, Waker) {
    let c = std::sync::Arc::new(Count(AtomicUsize::new(0)));
    (c.clone(), Waker::from(c))
}

fn wakes(c: &Count) -> usize {
    c.0.load(std::sync::atomic::Ordering::SeqCst)
}

#[test]
fn one_writer_vs_acknowledge() {
    loom::model(|| {
        let (stream, data) = pair(0);
        let (count, waker) = counting();
        let t = loom::thread::spawn(move || data.acknowledge(1));
        let r = stream.poll_obtain_write_permission(&Context::from_waker(&waker));
        t.join().unwrap();
        match r {
            Poll::Ready(Some(())) => {
                assert_eq!(stream.psh_send_remaining.load(Ordering::Acquire), 0);
            }
            Poll::Ready(None) => panic!("not closed"),
            Poll::Pending => {
                assert!(wakes(&count) >= 1, "lost wake-up (acknowledge)");
                assert_eq!(stream.psh_send_remaining.load(Ordering::Acquire), 1);
            }
        }
    });
}

#[test]
fn one_writer_vs_close() {
    loom::model(|| {
        let (stream, data) = pair(0);
        let (count, waker) = counting();
        let t = loom::thread::spawn(move || {
            data.disallow_write();
        });
        let r = stream.poll_obtain_write_permission(&Context::from_waker(&waker));
        t.join().unwrap();
        match r {
            Poll::Ready(Some(())) => panic!("sent without credit"),
            Poll::Ready(None) => {}
            Poll::Pending => assert!(wakes(&count) >= 1, "lost wake-up (close)"),
        }
    });
}

#[test]
fn one_writer_vs_acknowledge_and_close() {
    loom::model(|| {
        let (stream, data) = pair(0);
        let (count, waker) = counting();
        let data = std::sync::Arc::new(data);
        let d2 = data.clone();
        let t1 = loom::thread::spawn(move || data.acknowledge(1));
        let t2 = loom::thread::spawn(move || {
            d2.disallow_write();
        });
        let r = stream.poll_obtain_write_permission(&Context::from_waker(&waker));
        t1.join().unwrap();
        t2.join().unwrap();
        if r.is_pending() {
            assert!(wakes(&count) >= 1, "lost wake-up (ack+close)");
        }
        // second poll after everything: must fail
        let r2 = stream.poll_obtain_write_permission(&Context::from_waker(&waker));
        assert!(matches!(r2, Poll::Ready(None)));
    });
}

#[test]
fn two_writers_same_task_waker_vs_acknowledge() {
    loom::model(|| {
        let (stream, data) = pair(1);
        let stream = std::sync::Arc::new(stream);
        let (count, waker) = counting();
        let mut ts = Vec::new();
        for _ in 0..2 {
            let s = stream.clone();
            let w = waker.clone();
            ts.push(loom::thread::spawn(move || {
                s.poll_obtain_write_permission(&Context::from_waker(&w))
            }));
        }
        data.acknowledge(1);
        let mut sent = 0;
        let mut pending = 0;
        for t in ts {
            match t.join().unwrap() {
                Poll::Ready(Some(())) => sent += 1,
                Poll::Ready(None) => panic!("not closed"),
                Poll::Pending => pending += 1,
            }
        }
        // credit: initial 1 + grant 1 - frames sent
        assert_eq!(stream.psh_send_remaining.load(Ordering::Acquire), 2 - sent);
        if pending > 0 {
            // a writer went to sleep although the grant leaves credit for it
            assert!(wakes(&count) >= 1, "lost wake-up (two writers)");
        }
    });
}

#[test]
fn two_writers_two_tasks_vs_acknowledge() {
    loom::model(|| {
        let (stream, data) = pair(0);
        let stream = std::sync::Arc::new(stream);
        let mut ts = Vec::new();
        for _ in 0..2 {
            let s = stream.clone();
            ts.push(loom::thread::spawn(move || {
                let (count, waker) = counting();
                (
                    s.poll_obtain_write_permission(&Context::from_waker(&waker)),
                    count,
                )
            }));
        }
        data.acknowledge(2);
        let mut sent = 0;
        let mut rs = Vec::new();
        for t in ts {
            let (r, count) = t.join().unwrap();
            if matches!(r, Poll::Ready(Some(()))) {
                sent += 1;
            }
            rs.push((r, count));
        }
        assert_eq!(stream.psh_send_remaining.load(Ordering::Acquire), 2 - sent);
        for (r, count) in rs {
            if r.is_pending() {
                assert!(wakes(&count) >= 1, "lost wake-up (two tasks)");
            }
        }
    });
}

#[test]
fn one_writer_vs_shutdown() {
    loom::model(|| {
        let (stream, _data) = pair(0);
        let stream = std::sync::Arc::new(stream);
        let s = stream.clone();
        let (count, waker) = counting();
        let t = loom::thread::spawn(move || {
            s.do_shutdown();
        });
        let r = stream.poll_obtain_write_permission(&Context::from_waker(&waker));
        t.join().unwrap();
        if r.is_pending() {
            assert!(wakes(&count) >= 1, "lost wake-up (shutdown)");
        }
    });
}
