//! C12, part X: one forced two-thread schedule on REAL threads (no loom): the connection task handles the peer's
//! `Acknowledge` for an established flow whose writer waits for credit, at the very moment at which another thread of
//! the application is inside `new_stream_channel` / `request_bind`, drawing a flow id with the user-supplied generator
//! (which the multiplexor calls with the flow table locked for writing). The grant must reach the writer, and the
//! endpoint must not answer the `Acknowledge` of a flow it knows with a `Reset`.
//!
//! Why this is not a loom model: loom 0.7.2 never lets a `try_read` of its `RwLock` run while the lock is held for
//! writing by a thread that took it first under DPOR's pruning (model m25 explores 510 interleavings without ever
//! seeing the attempt fail), so a table look-up that gives up instead of waiting is invisible there. Here the
//! generator itself holds the other thread inside the critical section (a gate the harness opens 150 ms later), so
//! the schedule is forced, not sampled: ONE interleaving per case, stated as such in the evidence.

use crate::Args;
use crate::apps::opts;
use crate::codec::RFrame;
use crate::link::{Link, UNBOUNDED_CAP};
use crate::raw::{RMsg, Raw};
use crate::report::Report;
use penguin_mux::Multiplexor;
use serde_json::json;
use std::convert::Infallible;
use std::future::Future;
use std::pin::Pin;
use std::sync::atomic::{AtomicBool, AtomicUsize, Ordering};
use std::sync::{Arc, Condvar, Mutex};
use std::task::{Context, Poll, Wake, Waker};
use std::time::{Duration, Instant};
use tokio::io::AsyncWrite;

#[derive(Default)]
struct GateState {
    armed: bool,
    inside: bool,
    open: bool,
}

#[derive(Clone)]
struct Gate(Arc<(Mutex<GateState>, Condvar)>);

/// Draws 0x51, 0x52, ...; when the gate is armed, the draw reports "inside" and waits until the gate is opened.
struct GateRng {
    next: u32,
    gate: Gate,
}

impl GateRng {
    fn draw(&mut self) -> u32 {
        let (m, cv) = &*self.gate.0;
        let mut g = m.lock().unwrap();
        if g.armed {
            g.inside = true;
            cv.notify_all();
            while !g.open {
                g = cv.wait(g).unwrap();
            }
            g.armed = false;
        }
        self.next += 1;
        self.next
    }
}

impl rand::TryRng for GateRng {
    type Error = Infallible;
    fn try_next_u32(&mut self) -> Result<u32, Infallible> {
        Ok(self.draw())
    }
    fn try_next_u64(&mut self) -> Result<u64, Infallible> {
        Ok(u64::from(self.draw()))
    }
    fn try_fill_bytes(&mut self, dst: &mut [u8]) -> Result<(), Infallible> {
        for c in dst.chunks_mut(4) {
            let v = self.draw().to_le_bytes();
            c.copy_from_slice(&v[..c.len()]);
        }
        Ok(())
    }
}

struct Flag(AtomicBool, AtomicUsize);
impl Wake for Flag {
    fn wake(self: Arc<Self>) {
        self.wake_by_ref();
    }
    fn wake_by_ref(self: &Arc<Self>) {
        self.0.store(true, Ordering::SeqCst);
        self.1.fetch_add(1, Ordering::SeqCst);
    }
}

fn flag() -> (Arc<Flag>, Waker) {
    let f = Arc::new(Flag(AtomicBool::new(true), AtomicUsize::new(0)));
    (f.clone(), Waker::from(f))
}

/// Poll `fut` while its flag is set; returns its result if it completed.
fn drive<F: Future + ?Sized>(fut: &mut Pin<Box<F>>, f: &Arc<Flag>, w: &Waker) -> Option<F::Output> {
    let mut cx = Context::from_waker(w);
    while f.0.swap(false, Ordering::SeqCst) {
        if let Poll::Ready(r) = fut.as_mut().poll(&mut cx) {
            return Some(r);
        }
    }
    None
}

/// One case. `second_is_bind`: the other thread issues a bind request instead of a stream request.
fn exec(second_is_bind: bool) -> (Vec<(String, String)>, serde_json::Value) {
    let mut viol: Vec<(String, String)> = Vec::new();
    let link = Link::new(UNBOUNDED_CAP);
    let mut raw = Raw::new(1, link.clone());
    let gate = Gate(Arc::new((Mutex::new(GateState::default()), Condvar::new())));
    let (mux, taskdata) = Multiplexor::new_detailed::<_, Instant>(link.endpoint(0), opts(4, 1), GateRng { next: 0x50, gate: gate.clone() });
    let mux = Arc::new(mux);
    let mut task: Pin<Box<dyn Future<Output = penguin_mux::Result<()>> + Send>> = Box::pin(taskdata.into_task());
    let (tf, tw) = flag();
    // run the endpoint's task and the link until nothing moves; the raw peer's inbox is pumped
    let mut settle = |task: &mut Pin<Box<dyn Future<Output = penguin_mux::Result<()>> + Send>>, raw: &mut Raw| -> Vec<RMsg> {
        let mut new = Vec::new();
        for _ in 0..200 {
            let mut moved = false;
            if tf.0.load(Ordering::SeqCst) {
                moved = true;
                if drive(task, &tf, &tw).is_some() {
                    break;
                }
            }
            for d in 0..2 {
                while link.deliver(d).is_some() {
                    moved = true;
                }
            }
            let got = raw.pump();
            moved |= !got.is_empty();
            new.extend(got);
            if !moved {
                break;
            }
        }
        new
    };
    // 1. stream A comes up with a window of ONE
    let m2 = mux.clone();
    let mut open_a: Pin<Box<dyn Future<Output = penguin_mux::Result<penguin_mux::MuxStream>> + Send>> = Box::pin(async move { m2.new_stream_channel(b"a", 1).await });
    let (of, ow) = flag();
    let _ = drive(&mut open_a, &of, &ow);
    let got = settle(&mut task, &mut raw);
    let Some(id_a) = got.iter().find_map(|m| if let RMsg::Frame(RFrame::Connect { id, .. }) = m { Some(*id) } else { None }) else {
        return (vec![("x.setup".into(), format!("no Connect for stream A: {got:?}"))], json!({}));
    };
    raw.send(&RFrame::Acknowledge { id: id_a, n: 1 });
    settle(&mut task, &mut raw);
    of.0.store(true, Ordering::SeqCst);
    let Some(Ok(mut a)) = drive(&mut open_a, &of, &ow) else {
        return (vec![("x.setup".into(), "stream A did not come up".into())], json!({}));
    };
    // 2. its writer spends the unit and then waits for credit
    let (wf, ww) = flag();
    let mut cx = Context::from_waker(&ww);
    let first = Pin::new(&mut a).poll_write(&mut cx, b"1");
    let second = Pin::new(&mut a).poll_write(&mut cx, b"2");
    if !matches!(first, Poll::Ready(Ok(1))) || !second.is_pending() {
        return (vec![("x.setup".into(), format!("window of one: first write {first:?}, second write {second:?}"))], json!({}));
    }
    wf.0.store(false, Ordering::SeqCst);
    let wakes_before = wf.1.load(Ordering::SeqCst);
    settle(&mut task, &mut raw);
    // 3. another thread of the application asks for a second flow; its id draw is held inside the critical section
    gate.0.0.lock().unwrap().armed = true;
    let m3 = mux.clone();
    let other = std::thread::spawn(move || {
        let (f, w) = flag();
        if second_is_bind {
            let mut fut: Pin<Box<dyn Future<Output = penguin_mux::Result<bool>> + Send>> = Box::pin(async move { m3.request_bind(b"h", 9, penguin_mux::frame::BindType::Stream).await });
            let _ = drive(&mut fut, &f, &w);
            drop(fut);
        } else {
            let mut fut: Pin<Box<dyn Future<Output = penguin_mux::Result<penguin_mux::MuxStream>> + Send>> = Box::pin(async move { m3.new_stream_channel(b"b", 2).await });
            let _ = drive(&mut fut, &f, &w);
            drop(fut);
        }
    });
    {
        let (m, cv) = &*gate.0;
        let mut g = m.lock().unwrap();
        let t0 = Instant::now();
        while !g.inside {
            let (g2, _) = cv.wait_timeout(g, Duration::from_millis(200)).unwrap();
            g = g2;
            if t0.elapsed() > Duration::from_secs(60) {
                return (vec![("x.setup".into(), "the other thread never reached the flow-id draw".into())], json!({}));
            }
        }
    }
    // the gate opens by itself a little later (the task may have to wait for the table until then)
    let g2 = gate.clone();
    let opener = std::thread::spawn(move || {
        std::thread::sleep(Duration::from_millis(150));
        let (m, cv) = &*g2.0;
        m.lock().unwrap().open = true;
        cv.notify_all();
    });
    // 4. meanwhile the peer's grant for stream A arrives and the task handles it
    raw.send(&RFrame::Acknowledge { id: id_a, n: 1 });
    let t0 = Instant::now();
    let mut got = settle(&mut task, &mut raw);
    let handled_in = t0.elapsed();
    opener.join().expect("gate opener");
    other.join().expect("second requester");
    got.extend(settle(&mut task, &mut raw));
    // 5. verdict
    let case = if second_is_bind { "bind-request" } else { "stream-request" };
    let resets: Vec<&RMsg> = got.iter().filter(|m| matches!(m, RMsg::Frame(RFrame::Reset { id }) if *id == id_a)).collect();
    if !resets.is_empty() {
        viol.push((format!("grant.answered-with-reset.{case}"), format!("the peer's Acknowledge(1) for the established flow {id_a:#x} arrived while another thread was drawing a flow id (flow table locked for writing): the endpoint answered it with a Reset; the raw peer received {got:?}")));
    }
    let woken = wf.1.load(Ordering::SeqCst) > wakes_before;
    let mut cx = Context::from_waker(&ww);
    let retry = Pin::new(&mut a).poll_write(&mut cx, b"2");
    if !woken || !matches!(retry, Poll::Ready(Ok(1))) {
        viol.push((format!("grant.lost.{case}"), format!("the peer granted one unit to flow {id_a:#x} while another thread was drawing a flow id: writer woken = {woken}, its write afterwards = {retry:?} (the grant must reach the waiting writer)")));
    }
    let sample = json!({"case": format!("grant for an established flow handled while another thread is inside the flow-id draw of a {case}"), "flow": id_a, "task_handled_the_grant_in_ms": handled_in.as_millis() as u64, "writer_woken": woken, "frames_seen_by_the_peer_afterwards": format!("{got:?}")});
    drop(a);
    drop(task);
    (viol, sample)
}

pub fn run(args: &Args) -> Report {
    let mut rep = Report::new("C12", &args.tier, "threads", "model_checking");
    rep.rule = "two REAL threads, one forced interleaving per case (not an enumeration): case = kind of the request the other thread issues {stream request, bind request}; the harness's flow-id generator holds that thread inside the multiplexor's critical section (flow table write-locked) while the connection task takes the peer's Acknowledge(1) for an established flow whose writer waits for credit; the gate opens 150 ms later. Oracle: the writer is woken and its write then succeeds; no Reset for that flow reaches the peer".into();
    rep.assumptions = vec!["this part adds one interleaving loom cannot produce (a table look-up that gives up instead of waiting: loom 0.7.2 never lets try_read meet a held write lock); it is a directed schedule, the exhaustive part of C12 are the loom models".into()];
    let reps = if args.thorough() { 20 } else { 3 };
    for bind in [false, true] {
        for _ in 0..reps {
            let (v, s) = exec(bind);
            rep.evaluations += 1;
            if rep.samples.len() < 2 {
                rep.sample(s);
            }
            for (k, d) in v {
                rep.violation(k, d, json!({"kind": "c12x", "bind": bind}));
            }
        }
    }
    rep.distinct_nontrivial = 2;
    rep.exhaustive = false;
    rep
}
