//! exploration: skip-verify under the Chromium-like provider
use rusty_penguin_lib::tls::{init_crypto_provider, make_tls_identity, tls_connect};
use tokio::io::{AsyncReadExt, AsyncWriteExt};

#[tokio::test]
async fn skip_verify_ed25519_chromium() {
    unsafe { std::env::set_var("PENGUIN_TLS_CHROMIUM_LIKE", "1") };
    init_crypto_provider();
    let tmp = tempfile::tempdir().unwrap();
    for alg in [&rcgen::PKCS_ECDSA_P256_SHA256, &rcgen::PKCS_ECDSA_P384_SHA384, &rcgen::PKCS_ED25519, &rcgen::PKCS_ECDSA_P521_SHA512] {
        let params = rcgen::CertificateParams::new(vec!["server.test".to_string()]).unwrap();
        let key = rcgen::KeyPair::generate_for(alg).unwrap();
        let cert = params.self_signed(&key).unwrap();
        let cp = tmp.path().join("c.pem");
        let kp = tmp.path().join("k.pem");
        std::fs::write(&cp, cert.pem()).unwrap();
        std::fs::write(&kp, key.serialize_pem()).unwrap();
        let id = make_tls_identity(cp.to_str().unwrap(), kp.to_str().unwrap(), None).await.unwrap();
        let (a, b) = tokio::io::duplex(65536);
        let acc = tokio_rustls::TlsAcceptor::from(id.load_full());
        let srv = tokio::spawn(async move {
            let mut s = acc.accept(b).await?;
            let mut x = [0u8; 1];
            s.read_exact(&mut x).await?;
            Ok::<_, std::io::Error>(())
        });
        let cli = async {
            let mut c = tls_connect(a, "anything.test", None, None, None, true).await.map_err(|e| e.to_string())?;
            c.write_all(b"x").await.map_err(|e| e.to_string())?;
            c.flush().await.map_err(|e| e.to_string())?;
            Ok::<_, String>(())
        };
        let r = cli.await;
        let s = srv.await.unwrap();
        eprintln!("{alg:?}: client {r:?} server {s:?}");
    }
}
