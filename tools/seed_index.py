#!/usr/bin/env python3
"""Write seeded/INDEX.md from the per-seed meta.json / confirm.json / detect.json files."""
import json, os, glob
rows = []
for d in sorted(glob.glob('/verif/seeded/[!_]*/')):
    n = os.path.basename(d.rstrip('/'))
    def load(f):
        try:
            return json.load(open(os.path.join(d, f)))
        except Exception:
            return {}
    meta, conf, det, man = load('meta.json'), load('confirm.json'), load('detect.json'), load('confirm_manual.json')
    prop = meta.get('property') or n.split('-')[0]
    summ = (meta.get('summary') or '').replace('\n', ' ').replace('|', '/')[:220]
    needs = (meta.get('needs_to_manifest') or '').replace('\n', ' ').replace('|', '/')[:200]
    if conf.get('confirmed'):
        c = f"yes (suite {conf.get('suite_passed')}/2 known failures, demo fails with / passes without; HEAD {conf.get('repo_head')})"
    elif man:
        c = "yes (by hand, see confirm_manual.json)"
    elif conf:
        c = f"NO: {json.dumps({k: conf.get(k) for k in ('patch_applies','compiles','suite_ok','demo_with_patch','demo_without_patch')})}"
    else:
        c = "pending"
    caught = ', '.join(f"{k}: {', '.join(v['keys'][:3])}" for k, v in det.get('detail', {}).items() if v.get('violations')) or ('(not run)' if not det else 'NOT CAUGHT')
    missed = ', '.join(det.get('not_caught_by', []))
    rows.append((n, prop, summ, needs, c, caught, missed))
with open('/verif/seeded/INDEX.md', 'w') as f:
    f.write("# Seeded breaking changes\n\nEach directory holds patch.diff (the change), the demonstration (demo.diff or demo/), meta.json (from the sub-agent that wrote it),\nconfirm.json (my re-run: tools/confirm_seed.sh) and detect.json (which checks report it: tools/seed_matrix.sh).\nNone of these patches is ever applied to /repo.\n\n")
    f.write("| seed | property | change | needs | confirmed | caught by (first keys) | checks run that stay silent |\n|---|---|---|---|---|---|---|\n")
    for r in rows:
        f.write("| " + " | ".join(r) + " |\n")
print(len(rows), "seeds")
