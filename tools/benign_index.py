#!/usr/bin/env python3
"""Regenerate benign/INDEX.md from benign/<ID>/meta.json and falsealarm.json."""
import json, glob, os
rows = []
KNOWN = set(l.split('key=')[1].split()[0] for l in open('/verif/known_findings.txt') if l.startswith('finding:') and 'key=' in l)
for d in sorted(glob.glob('/verif/benign/C*/')):
    pid = os.path.basename(d.rstrip('/'))
    try:
        meta = json.load(open(d + 'meta.json'))
    except Exception:
        meta = {}
    try:
        fa = json.load(open(d + 'falsealarm.json'))
    except Exception:
        fa = {}
    pats = {p.get('file', '').replace('.diff', ''): p for p in meta.get('patches', [])}
    for b in sorted(set(list(pats) + list(fa))):
        summ = (pats.get(b, {}).get('summary') or '').replace('\n', ' ').replace('|', '/')[:230]
        res = fa.get(b, {})
        ran = [k for k in res if not k.startswith('_')]
        alarms = {k: [x for x in v['keys'] if x not in KNOWN] for k, v in res.items() if not k.startswith('_') and [x for x in v.get('keys', []) if x not in KNOWN]}
        mach = {k: v['machinery_error'] for k, v in res.items() if not k.startswith('_') and v.get('machinery_error')}
        rows.append(f"| {pid}/{b} | {summ} | {', '.join(ran) or '-'} | {json.dumps(alarms) if alarms else 'none'} | {json.dumps(mach) if mach else ''} |")
open('/verif/benign/INDEX.md', 'w').write(
    "# Property-preserving changes (false-alarm test of the checks)\n\n"
    "Each directory holds b*.diff (changes a sub-agent wrote so that the property STILL holds: different frame batching, earlier/more Acknowledge frames, other error messages, restructured teardown ...), NOTES.md / meta.json (its argument), and falsealarm.json (what the checks said: tools/benign.sh, scratch worktree, never /repo).\n\n"
    "| patch | change | checks run | alarms | machinery |\n|---|---|---|---|---|\n" + "\n".join(rows) + "\n")
print(len(rows), "rows")
