//! C19 (client-loop half) — the client survives connection loss: bounded back-off,
//! retry limit, no lost request.
//!
//! End-to-end engine: the crate's real `client::client_main_inner` (one TCP remote)
//! runs on a real multi-thread tokio runtime against a scripted fake server on
//! loopback (`c19_net.rs`).  Per connection attempt the server plays the next
//! behaviour of a finite script:
//!   reset    accept, then drop the TCP connection before any HTTP (the observable refusal)
//!   stall    accept and never answer (the client's 1 s handshake timeout fires)
//!   http404  answer the upgrade request with `404 Not Found` (non-retryable)
//!   close0 / close300   complete the WebSocket handshake, send an orderly Close after 0 / 300 ms
//!   drop     complete the handshake, then drop the TCP connection
//!   mute     complete the handshake, read everything, never acknowledge a `Connect`
//!            (the client's 1 s channel timeout fires)
//!   healthy  complete the handshake and run a real `penguin_mux::Multiplexor` that echoes
//!   silent   complete the handshake, answer Pings for a short while (2 Pongs or 700 ms), then
//!            neither read nor write any more while the TCP connection stays open; the client
//!            runs with keepalive interval I / timeout T and must treat the silence as a lost
//!            connection (C16: no earlier than T, no later than T + I after the last Pong) --
//!            and must stay connected when keepalive is off (control)
//!   tls-stall  (`wss://` URL, `--tls-skip-verify`) accept and never answer the TLS ClientHello:
//!            the handshake timeout covers TCP connect and the TLS handshake too
//!   garbage  complete the handshake, send one binary message that is not a frame of the protocol
//!            (8 octets 0xff) unprompted, then read until the client ends the connection: the client's
//!            multiplexor ends with `InvalidFrame`, an error that is not retryable
//!   garbage-reply  the same message, but sent in answer to the client's first binary message (the
//!            `Connect` of a local connection that the controller opens): a stream request is pending
//!            on the connection when it dies -- the client must end at once all the same
//!   tls-cut / tls-reset  (`wss://` URL, `--tls-skip-verify`) accept, read the TLS ClientHello, then cut the
//!            connection without a single octet of TLS -- with a FIN (`tls-cut`: the client's TLS handshake ends
//!            with an unexpected end of stream) or with a TCP reset (`tls-reset`, SO_LINGER 0: ECONNRESET): a
//!            restarting server / TLS proxy, i.e. a retryable failure to establish the connection like `reset`
//!   tls-healthy  (`wss://`) complete the TLS handshake (self-signed certificate) and the WebSocket handshake
//!            and run a real `penguin_mux::Multiplexor` that echoes: `healthy` for the scripts over `wss://`
//! plus a family with a port that really refuses (bound, not listening) where the
//! attempts cannot be seen but the result and the total time can.
//!
//! Family L (`L-several-pending-local`) runs the client with TWO TCP remotes (two local ports, both forwarded to
//! the same target) and opens k = 2 (one per remote) or k = 3 (two on the first remote, one on the second) local
//! connections at once while the tunnel is down (during / right after the first attempt, which is `reset` or
//! `stall`), each with its own payload: several stream requests are queued in the client when the next
//! connection comes up, and that connection fails while the first of them is being served (`mute`: the request
//! is never acknowledged; `close0` / `close300` / `drop`: the connection ends right after the handshake), once or
//! twice, before a healthy server appears.  Every one of the k connections must get exactly its own payload back
//! through the healthy connection, and the client must still be running.
//!
//! Family M (`M-local-client-goes-away-while-parked`): the client has ONE local entry of kind e (a TCP remote as
//! everywhere else, or a SOCKS listener `127.0.0.1:<port>:socks`).  While the tunnel is down (first attempt `reset` /
//! `stall`) a local client A connects, says everything at once (SOCKS: greeting `05 01 00` and CONNECT request
//! `05 01 00 01 <target>` in one write, without waiting for the method reply; TCP remote: a few octets) so that its
//! stream request waits in the client, and then GOES AWAY before the tunnel is back: orderly (`fin`), abortively
//! (`rst-linger0`: SO_LINGER 0) or -- SOCKS only, a TCP remote sends nothing that could be left unread -- by closing
//! with the method reply unread (`rst-unread-data`).  Optionally one connection fails while A's request is being
//! served (`mute` / `close0`); then a healthy server.  A is owed nothing, but it is ONE local connection: after the
//! healthy connection is up a NEW local client B on the SAME entry must be served (SOCKS: well-formed success reply,
//! then its bytes echoed) and the client must still be running.  In this family every local connection the
//! controller opens (B, a nudge) speaks the protocol of the entry.
//!
//! The oracle is written from the property statement: a little model of the retry
//! rule (`model`) gives, per script, the expected number of attempts, the delay
//! class before every attempt and the way the client must end.  Lower bounds on gaps
//! hold by causality (they are anchored at timestamps the server took *before* it
//! caused the failure); upper bounds, "no attempt within ..." and deadlines depend on
//! the machine being fast enough.  Because a stall of more than the 1 s handshake
//! timeout on a loaded machine can misalign script and client, *every* finding of the
//! parallel pass is only a suspicion until the same scenario shows it again when it
//! runs alone on the machine.
//!
//! Level: exploration.  The scenario matrix is enumerated completely, one execution
//! per point; interleavings are whatever the runtime and the kernel produce.

use crate::Args;
use crate::report::Report;
use serde_json::{Value, json};
use std::collections::{BTreeMap, HashSet};
use std::sync::Arc;
use std::sync::atomic::{AtomicBool, Ordering};
use std::time::{Duration, Instant};
use tokio::net::{TcpListener, TcpSocket};

#[path = "c19_net.rs"]
mod net;
use net::{AttemptLog, ClientEnd, GoAway, GoerLog, LocalConn, LocalRes, Shared, free_port, open_local, run_goer, serve, spawn_client};

/// tolerance on lower bounds (timer granularity of the runtime is 1 ms)
const TOL_MS: f64 = 2.0;
const BASE_MS: u64 = 200;
const HS_TIMEOUT_MS: u64 = 1000;
const CH_TIMEOUT_MS: u64 = 1000;
/// families E / F: nothing that depends on real time is asserted tighter than this
const WIDE_TOL_LO_MS: f64 = 150.0;
const WIDE_TOL_UP_MS: f64 = 1500.0;
/// ... and an attempt that is this much later than its latest due time is "never"
const HANG_EXTRA_MS: f64 = 4000.0;
/// default keepalive interval / timeout (ms) of family E, handshake timeout of family F
const KA_I_MS: u64 = 300;
const KA_T_MS: u64 = 600;
const TLS_HS_TIMEOUT_MS: u64 = 500;
/// handshake timeout of family K (cut TLS handshakes): never meant to fire
const TLS_CUT_HS_TIMEOUT_MS: u64 = 5000;
/// generous deadline for things that take milliseconds
const LONG_WAIT_MS: u64 = 20_000;
/// how long "no new attempt although nothing local is pending" is watched before the
/// client is nudged with a local connection (parallel phase / alone on the machine)
const QUIET_PAR_MS: u64 = 3000;
const QUIET_ISO_MS: u64 = 8000;
/// family H: how long a client that reconnects after a non-retryable `InvalidFrame` is watched at most
/// (until it has come back min(max_retry_count, 3) + 2 times or has ended)
const GARBAGE_WATCH_MS: u64 = 2500;
/// family K: how long the client is watched after the last cut of an open-ended script (it must still be running)
const OPEN_END_WATCH_MS: u64 = 500;

// ---------------------------------------------------------------------------------------
// scenarios
// ---------------------------------------------------------------------------------------

#[derive(Clone, Copy, Debug, PartialEq, Eq, Hash)]
pub enum Beh {
    Reset,
    Stall,
    Http404,
    Close0,
    Close300,
    Drop,
    Mute,
    Healthy,
    Silent,
    TlsStall,
    /// orderly WebSocket close (as `close0`), after which the server reads the client's answer and then keeps the TCP
    /// connection open and silent (frozen host, partition right behind the Close, balancer leaving the TCP close to
    /// the client as RFC 6455 7.1.1 allows)
    CloseHold,
    /// a binary message that does not parse as a frame, sent unprompted right after the WebSocket handshake
    /// (`penguin_mux::Error::InvalidFrame`: not retryable); the server then reads until the client ends the connection
    Garbage,
    /// the same message in answer to the client's first binary message, i.e. while a stream request is pending
    GarbageReply,
    /// (`wss://`) the server reads the TLS ClientHello and closes the connection (FIN) without answering
    TlsCut,
    /// (`wss://`) the same, but the connection is reset (SO_LINGER 0)
    TlsReset,
    /// (`wss://`) TLS handshake, WebSocket handshake, echoing multiplexor
    TlsHealthy,
}

impl Beh {
    fn name(self) -> &'static str {
        match self {
            Beh::Reset => "reset",
            Beh::Stall => "stall",
            Beh::Http404 => "http404",
            Beh::Close0 => "close0",
            Beh::Close300 => "close300",
            Beh::Drop => "drop",
            Beh::Mute => "mute",
            Beh::Healthy => "healthy",
            Beh::Silent => "silent",
            Beh::TlsStall => "tls-stall",
            Beh::CloseHold => "close-hold",
            Beh::Garbage => "garbage",
            Beh::GarbageReply => "garbage-reply",
            Beh::TlsCut => "tls-cut",
            Beh::TlsReset => "tls-reset",
            Beh::TlsHealthy => "tls-healthy",
        }
    }
    fn parse(s: &str) -> Option<Self> {
        [Beh::Reset, Beh::Stall, Beh::Http404, Beh::Close0, Beh::Close300, Beh::Drop, Beh::Mute, Beh::Healthy, Beh::Silent, Beh::TlsStall, Beh::CloseHold, Beh::Garbage, Beh::GarbageReply, Beh::TlsCut, Beh::TlsReset, Beh::TlsHealthy].into_iter().find(|b| b.name() == s)
    }
    /// the WebSocket handshake completes: the client "had a successful connection"
    fn connects(self) -> bool {
        matches!(self, Beh::Close0 | Beh::Close300 | Beh::CloseHold | Beh::Drop | Beh::Mute | Beh::Healthy | Beh::TlsHealthy | Beh::Silent | Beh::Garbage | Beh::GarbageReply)
    }
    fn terminal(self) -> bool {
        matches!(self, Beh::Healthy | Beh::TlsHealthy | Beh::Http404 | Beh::Garbage | Beh::GarbageReply)
    }
    /// the server runs an echoing multiplexor on this connection: the client stays connected
    fn healthy(self) -> bool {
        matches!(self, Beh::Healthy | Beh::TlsHealthy)
    }
    /// the server's answer is a frame that does not parse: the connection ends with a non-retryable error
    fn garbage(self) -> bool {
        matches!(self, Beh::Garbage | Beh::GarbageReply)
    }
    /// class used in violation keys
    fn class(self) -> &'static str {
        match self {
            Beh::Close0 | Beh::Close300 | Beh::CloseHold => "orderly-close",
            Beh::Drop => "tcp-drop",
            Beh::Mute => "stream-request-timeout",
            Beh::Reset => "refused",
            Beh::Stall => "handshake-timeout",
            Beh::Http404 => "http404",
            Beh::Healthy => "healthy",
            Beh::Silent => "silence",
            Beh::TlsStall => "tls-stall",
            Beh::Garbage => "invalid-frame-unprompted",
            // the case the family is about: the frame that does not parse answers a pending stream request
            Beh::GarbageReply => "invalid-frame",
            Beh::TlsCut => "tls-cut",
            Beh::TlsReset => "tls-reset",
            Beh::TlsHealthy => "healthy",
        }
    }
}

#[derive(Clone, Copy, Debug, PartialEq, Eq, Hash)]
enum Kind {
    Script,
    RefuseExhaust,
    Outage,
}

#[derive(Clone, Debug, PartialEq, Eq, Hash)]
struct Scenario {
    kind: Kind,
    family: &'static str,
    script: Vec<Beh>,
    /// max_retry_count
    n: u32,
    /// max_retry_interval (ms)
    cap_ms: u64,
    /// open a local connection right after the failure of this attempt
    down_at: Option<usize>,
    outage_ms: u64,
    /// keepalive interval / timeout (ms) the client runs with (None: keepalive off)
    ka: Option<(u64, u64)>,
    /// `wss://` server URL (with `--tls-skip-verify`) instead of `ws://`
    wss: bool,
    /// handshake timeout (ms)
    hs_ms: u64,
    /// the script ends while the client must still be retrying: it is only observed that far
    open_end: bool,
    /// the `drop` steps reset the TCP connection (SO_LINGER 0) instead of closing it with a FIN
    abortive: bool,
    /// the client also has a UDP remote, and this many datagrams are sent to it right after the first attempt has
    /// failed, i.e. while the tunnel is down and nothing drains the client's datagram queue (0: no UDP remote)
    udp_flood: usize,
    /// family L: the client has a second TCP remote, and this many local connections (2: one per remote; 3: two on the
    /// first remote, one on the second) are opened at once, each sending its own payload, while the first attempt of
    /// the script is failing / has just failed, i.e. while the tunnel is down (0: one TCP remote, nothing of the kind)
    several: usize,
    /// family M: the (only) local entry is a SOCKS listener instead of a TCP remote; every local connection of the
    /// scenario then speaks SOCKS5 (CONNECT to the target the TCP remote would forward to)
    socks: bool,
    /// family M: a local client connects while the first attempt of the script is failing / has just failed, says
    /// everything at once (its stream request then waits in the client) and goes away like this before the tunnel is back
    goes_away: Option<GoAway>,
}

impl Scenario {
    /// everything the scenarios of families A-D have in common
    fn plain() -> Self {
        Self { kind: Kind::Script, family: "", script: Vec::new(), n: 0, cap_ms: 300, down_at: None, outage_ms: 0, ka: None, wss: false, hs_ms: HS_TIMEOUT_MS, open_end: false, abortive: false, udp_flood: 0, several: 0, socks: false, goes_away: None }
    }
    /// family M: the kind of the local entry, for keys
    fn entry(&self) -> &'static str {
        if self.socks { "socks" } else { "tcp-remote" }
    }
    fn steps(&self) -> Option<Vec<Step>> {
        model_x(&self.script, self.n, self.cap_ms, self.ka.is_some(), self.open_end)
    }
    /// the keepalive pair whose reconnect window is watched at a `silent` server (the
    /// default pair when the client runs without keepalive: the control case), timeout clamped
    fn ka_ref(&self) -> (u64, u64) {
        let (i, t) = self.ka.unwrap_or((KA_I_MS, KA_T_MS));
        (i, t.max(i))
    }
    fn client_cfg(&self, sport: u16, lport: u16, udp_lport: Option<u16>) -> net::ClientCfg {
        net::ClientCfg { sport, lport, max_retry_count: self.n, max_retry_interval_ms: self.cap_ms, keepalive_ms: self.ka, wss: self.wss, handshake_timeout_ms: self.hs_ms, channel_timeout_ms: CH_TIMEOUT_MS, udp_lport, lport2: None, socks: self.socks }
    }
    fn to_json(&self) -> Value {
        json!({
            "kind": match self.kind { Kind::Script => "script", Kind::RefuseExhaust => "refuse-exhaust", Kind::Outage => "outage" },
            "family": self.family,
            "script": self.script.iter().map(|b| b.name()).collect::<Vec<_>>(),
            "max_retry_count": self.n,
            "max_retry_interval_ms": self.cap_ms,
            "local_connection_after_attempt": self.down_at,
            "outage_ms": self.outage_ms,
            "handshake_timeout_ms": self.hs_ms,
            "channel_timeout_s": CH_TIMEOUT_MS / 1000,
            "keepalive_ms": self.ka.map(|(i, t)| json!({"interval": i, "timeout": t})),
            "server_url_scheme": if self.wss { "wss" } else { "ws" },
            "observed_until_end_of_script_only": self.open_end,
            "drop_is_tcp_reset": self.abortive,
            "udp_datagrams_during_first_outage": self.udp_flood,
            "local_connections_at_once_during_first_outage_on_two_tcp_remotes": self.several,
            "local_entry": self.entry(),
            "local_client_goes_away_during_first_outage_while_its_request_waits": self.goes_away.map(GoAway::name),
        })
    }
    fn from_json(v: &Value) -> Result<Self, String> {
        let kind = match v["kind"].as_str().ok_or("kind")? {
            "script" => Kind::Script,
            "refuse-exhaust" => Kind::RefuseExhaust,
            "outage" => Kind::Outage,
            o => return Err(format!("unknown kind {o}")),
        };
        let script = v["script"].as_array().ok_or("script")?.iter().map(|b| b.as_str().and_then(Beh::parse).ok_or_else(|| format!("bad behaviour {b}"))).collect::<Result<Vec<_>, _>>()?;
        Ok(Self {
            kind,
            family: "replay",
            script,
            n: u32::try_from(v["max_retry_count"].as_u64().ok_or("max_retry_count")?).map_err(|e| e.to_string())?,
            cap_ms: v["max_retry_interval_ms"].as_u64().ok_or("max_retry_interval_ms")?,
            down_at: v["local_connection_after_attempt"].as_u64().map(|x| x as usize),
            outage_ms: v["outage_ms"].as_u64().unwrap_or(0),
            ka: match &v["keepalive_ms"] {
                Value::Null => None,
                k => Some((k["interval"].as_u64().ok_or("keepalive_ms.interval")?, k["timeout"].as_u64().ok_or("keepalive_ms.timeout")?)),
            },
            wss: v["server_url_scheme"].as_str() == Some("wss"),
            hs_ms: v["handshake_timeout_ms"].as_u64().unwrap_or(HS_TIMEOUT_MS),
            open_end: v["observed_until_end_of_script_only"].as_bool().unwrap_or(false),
            abortive: v["drop_is_tcp_reset"].as_bool().unwrap_or(false),
            udp_flood: v["udp_datagrams_during_first_outage"].as_u64().unwrap_or(0) as usize,
            several: match v["local_connections_at_once_during_first_outage_on_two_tcp_remotes"].as_u64().unwrap_or(0) {
                k @ (0 | 2 | 3) => k as usize,
                k => return Err(format!("local_connections_at_once_during_first_outage_on_two_tcp_remotes: {k} (0, 2 or 3)")),
            },
            // (absent in replay files written before family M: a TCP remote, nobody goes away)
            socks: match v["local_entry"].as_str() {
                None | Some("tcp-remote") => false,
                Some("socks") => true,
                Some(o) => return Err(format!("local_entry: {o} (tcp-remote or socks)")),
            },
            goes_away: match &v["local_client_goes_away_during_first_outage_while_its_request_waits"] {
                Value::Null => None,
                g => Some(g.as_str().and_then(GoAway::parse).ok_or_else(|| format!("local_client_goes_away_during_first_outage_while_its_request_waits: {g}"))?),
            },
        })
    }
    fn ident(&self) -> String {
        let mut v = self.to_json();
        v.as_object_mut().expect("object").remove("family");
        v.to_string()
    }
    fn short(&self) -> String {
        let mut s = format!(
            "{:?}[{}] max_retry_count={} max_retry_interval={}ms local={}",
            self.kind,
            self.script.iter().map(|b| b.name()).collect::<Vec<_>>().join(","),
            self.n,
            self.cap_ms,
            self.down_at.map_or("none".to_string(), |p| format!("after-attempt-{p}"))
        );
        if let Some((i, t)) = self.ka {
            s += &format!(" keepalive={i}ms keepalive_timeout={t}ms");
        } else if self.script.contains(&Beh::Silent) {
            s += " keepalive=off";
        }
        if self.wss {
            s += " wss://";
        }
        if self.abortive {
            s += " drop=tcp-reset";
        }
        if self.udp_flood > 0 {
            s += &format!(" udp-remote+{}-datagrams-during-the-first-outage", self.udp_flood);
        }
        if self.several > 0 {
            s += &format!(" two-tcp-remotes+{}-local-connections-at-once-during-the-first-outage", self.several);
        }
        if self.socks {
            s += " local-entry=socks";
        }
        if let Some(g) = self.goes_away {
            s += &format!(" local-client-goes-away-during-the-first-outage={}", g.name());
        }
        if self.wss || self.hs_ms != HS_TIMEOUT_MS {
            s += &format!(" handshake_timeout={}ms", self.hs_ms);
        }
        if self.open_end {
            s += " (observed until the end of the script)";
        }
        s
    }
    /// rough duration estimate (ms), used only to start long scenarios first
    fn estimate_ms(&self) -> u64 {
        match self.kind {
            Kind::RefuseExhaust => (0..self.n).map(|k| delay_ms(k, self.cap_ms)).sum(),
            Kind::Outage => self.outage_ms + 500,
            Kind::Script => {
                let Some(steps) = self.steps() else { return 0 };
                let (ka_i, ka_t) = self.ka_ref();
                let mut t = 0;
                for (b, s) in self.script.iter().zip(&steps) {
                    t += s.delay_ms.unwrap_or(0);
                    t += match b {
                        Beh::Mute => CH_TIMEOUT_MS,
                        Beh::Stall | Beh::TlsStall => self.hs_ms,
                        Beh::Silent if self.ka.is_some() => ka_i + ka_t + ka_i,
                        Beh::Silent => 700 + ka_t + ka_i + BASE_MS + WIDE_TOL_UP_MS as u64,
                        Beh::Close300 => 300 + QUIET_PAR_MS,
                        Beh::Close0 | Beh::CloseHold => QUIET_PAR_MS,
                        _ => 0,
                    };
                }
                t
            }
        }
    }
}

// ---------------------------------------------------------------------------------------
// the reference: the retry rule of the property statement
// ---------------------------------------------------------------------------------------

/// min(200 ms x 2^k, max_retry_interval)
fn delay_ms(k: u32, cap_ms: u64) -> u64 {
    BASE_MS.saturating_mul(1u64.checked_shl(k).unwrap_or(u64::MAX)).min(cap_ms)
}

#[derive(Clone, Copy, Debug, PartialEq, Eq)]
enum End {
    /// connected to the healthy server: the client keeps running
    Stays,
    /// a non-retryable error ends the client at once
    NonRetryable,
    /// max_retry_count consecutive retries have failed
    GiveUp,
    /// the script ends here, the client goes on retrying (open-ended scenarios)
    Open,
}

#[derive(Clone, Copy, Debug)]
struct Step {
    /// index of this failure among the consecutive failures (after the reset, if it connected)
    k: u32,
    /// the same index had a successful connection not restarted the sequence
    k_unreset: u32,
    /// delay before the next attempt (None: there is no next attempt)
    delay_ms: Option<u64>,
    end: Option<End>,
}

/// "reconnects after delays of min(200 ms x 2^k, max_retry_interval) for the k-th
/// consecutive failure, starts again from the shortest delay after any successful
/// connection, and gives up with MaxRetryCountReached once max_retry_count consecutive
/// retries have failed (never, if that is 0); a non-retryable error ends the client at once."
/// `None`: the script is not a complete history under this rule (it goes on after
/// the client must have ended, or stops while the client must still be retrying).
fn model(script: &[Beh], n: u32, cap_ms: u64) -> Option<Vec<Step>> {
    model_x(script, n, cap_ms, true, false)
}

/// `keepalive`: the client runs with a keepalive timeout, so a peer that has gone silent
/// is a lost connection (C16); without one, nothing tells the client and it stays connected.
/// `open_end`: the script may stop while the client must still be retrying.
fn model_x(script: &[Beh], n: u32, cap_ms: u64, keepalive: bool, open_end: bool) -> Option<Vec<Step>> {
    let mut k = 0u32;
    let mut ku = 0u32;
    let mut out = Vec::new();
    for (j, b) in script.iter().enumerate() {
        let last = j + 1 == script.len();
        let step = match b {
            Beh::Healthy | Beh::TlsHealthy => Step { k, k_unreset: ku, delay_ms: None, end: Some(End::Stays) },
            Beh::Http404 => Step { k, k_unreset: ku, delay_ms: None, end: Some(End::NonRetryable) },
            // the handshake completed (a successful connection), then the connection ended with an error that is
            // not retryable -- whether or not a stream request was pending on it
            Beh::Garbage | Beh::GarbageReply => {
                k = 0;
                Step { k, k_unreset: ku, delay_ms: None, end: Some(End::NonRetryable) }
            }
            Beh::Silent if !keepalive => Step { k: 0, k_unreset: ku, delay_ms: None, end: Some(End::Stays) },
            _ => {
                if b.connects() {
                    k = 0;
                }
                // k retries have been made since the first failure of this run
                if n != 0 && k >= n {
                    Step { k, k_unreset: ku, delay_ms: None, end: Some(End::GiveUp) }
                } else {
                    let s = Step { k, k_unreset: ku, delay_ms: Some(delay_ms(k, cap_ms)), end: (last && open_end).then_some(End::Open) };
                    k += 1;
                    ku += 1;
                    s
                }
            }
        };
        if step.end.is_some() != last {
            return None;
        }
        out.push(step);
    }
    if out.is_empty() { None } else { Some(out) }
}

/// every sequence over `alpha` of length 1..=max_len in which a terminal behaviour is last
fn sequences(alpha: &[Beh], max_len: usize) -> Vec<Vec<Beh>> {
    let mut out = Vec::new();
    let mut frontier: Vec<Vec<Beh>> = vec![vec![]];
    for _ in 0..max_len {
        let mut next = Vec::new();
        for p in &frontier {
            for &b in alpha {
                let mut q = p.clone();
                q.push(b);
                out.push(q.clone());
                if !b.terminal() {
                    next.push(q);
                }
            }
        }
        frontier = next;
    }
    out
}

struct Bounds {
    /// max script length (give-up scripts of pre-connect failures only may be one longer)
    len: usize,
    counts: Vec<u32>,
    caps: Vec<u64>,
}

fn build_matrix(thorough: bool) -> (Vec<Scenario>, Bounds) {
    let b = if thorough { Bounds { len: 3, counts: vec![0, 1, 2, 3], caps: vec![300, 300_000] } } else { Bounds { len: 2, counts: vec![0, 1, 2], caps: vec![300, 300_000] } };
    let mut v: Vec<Scenario> = Vec::new();
    // A: counts, delays, result -- no local traffic before the healthy connection
    let alpha_a = [Beh::Reset, Beh::Stall, Beh::Close0, Beh::Close300, Beh::Drop, Beh::Http404, Beh::Healthy];
    for &n in &b.counts {
        for &cap in &b.caps {
            for s in sequences(&alpha_a, b.len + 1) {
                let Some(steps) = model(&s, n, cap) else { continue };
                let give_up = steps.last().is_some_and(|x| x.end == Some(End::GiveUp));
                // give-up scripts made of pre-connect failures only may be one longer, so that
                // the largest max_retry_count can be exhausted at all
                if s.len() <= b.len || (give_up && s.len() <= b.len + 1 && !s.iter().any(|x| x.connects())) {
                    v.push(Scenario { kind: Kind::Script, family: "A-counts-delays", script: s, n, cap_ms: cap, down_at: None, outage_ms: 0, ..Scenario::plain() });
                }
            }
        }
    }
    // B: the fate of a local connection that is pending across reconnects
    let alpha_b = [Beh::Reset, Beh::Stall, Beh::Close0, Beh::Close300, Beh::Drop, Beh::Mute, Beh::Healthy];
    for s in sequences(&alpha_b, b.len + 1) {
        let has_mute = s.contains(&Beh::Mute);
        if s.len() >= 2 && s.len() <= b.len && model(&s, 0, 300).is_some() && s.last() == Some(&Beh::Healthy) {
            if has_mute {
                v.push(Scenario { kind: Kind::Script, family: "B-pending-local", script: s.clone(), n: 0, cap_ms: 300, down_at: None, outage_ms: 0, ..Scenario::plain() });
            }
            for pos in 0..s.len() - 1 {
                if s[pos] != Beh::Mute {
                    v.push(Scenario { kind: Kind::Script, family: "B-pending-local", script: s.clone(), n: 0, cap_ms: 300, down_at: Some(pos), outage_ms: 0, ..Scenario::plain() });
                }
            }
        }
        // the stream-request-timeout path also counts as a lost connection in give-up scripts
        if has_mute {
            for n in [1u32, 2] {
                if s.len() <= b.len && model(&s, n, 300).is_some_and(|st| st.last().is_some_and(|x| x.end == Some(End::GiveUp))) {
                    v.push(Scenario { kind: Kind::Script, family: "B-pending-local", script: s.clone(), n, cap_ms: 300, down_at: None, outage_ms: 0, ..Scenario::plain() });
                }
            }
        }
    }
    // C: the back-off starts again after a successful connection (un-reset delay >= 4 x 200 ms)
    let fails: &[Beh] = if thorough { &[Beh::Reset, Beh::Stall] } else { &[Beh::Reset] };
    let succ: &[Beh] = if thorough { &[Beh::Close0, Beh::Close300, Beh::Drop, Beh::Mute] } else { &[Beh::Close0, Beh::Drop, Beh::Mute] };
    let counts_c: &[u32] = if thorough { &[0, 3] } else { &[0] };
    for &f1 in fails {
        for &f2 in fails {
            for &s in succ {
                for &n in counts_c {
                    v.push(Scenario { kind: Kind::Script, family: "C-reset-after-success", script: vec![f1, f2, s, Beh::Healthy], n, cap_ms: 300_000, down_at: None, outage_ms: 0, ..Scenario::plain() });
                }
            }
        }
    }
    // ... and so does the count of consecutive failed retries (max_retry_count = 1: one failure
    // before and one loss after a successful connection must not add up)
    for &f in fails {
        for &s in succ {
            v.push(Scenario { kind: Kind::Script, family: "C-reset-after-success", script: vec![f, s, Beh::Healthy], n: 1, cap_ms: 300, down_at: None, outage_ms: 0, ..Scenario::plain() });
        }
    }
    if thorough {
        for &s in succ {
            v.push(Scenario { kind: Kind::Script, family: "C-reset-after-success", script: vec![Beh::Reset, Beh::Reset, Beh::Reset, s, Beh::Healthy], n: 0, cap_ms: 300_000, down_at: None, outage_ms: 0, ..Scenario::plain() });
        }
    }
    // D: a port that really refuses
    let counts_d: &[u32] = if thorough { &[1, 2, 3] } else { &[1, 2] };
    for &n in counts_d {
        for &cap in &b.caps {
            v.push(Scenario { kind: Kind::RefuseExhaust, family: "D-refused", script: vec![], n, cap_ms: cap, down_at: None, outage_ms: 0, ..Scenario::plain() });
        }
    }
    v.push(Scenario { kind: Kind::Outage, family: "D-refused", script: vec![Beh::Healthy], n: 0, cap_ms: 300, down_at: Some(0), outage_ms: 1500, ..Scenario::plain() });
    if thorough {
        v.push(Scenario { kind: Kind::Outage, family: "D-refused", script: vec![Beh::Healthy], n: 0, cap_ms: 300, down_at: None, outage_ms: 1500, ..Scenario::plain() });
        v.push(Scenario { kind: Kind::Outage, family: "D-refused", script: vec![Beh::Healthy], n: 0, cap_ms: 300, down_at: Some(0), outage_ms: 3000, ..Scenario::plain() });
    }
    // E: a server that goes silent (stops answering Pings, stops reading; TCP stays open) is a
    // lost connection for a client that runs with keepalive -- and only for such a client
    let (h, si) = (Beh::Healthy, Beh::Silent);
    let e = |script: Vec<Beh>, n: u32, ka: Option<(u64, u64)>, down_at: Option<usize>| Scenario { family: "E-keepalive", script, n, cap_ms: 300_000, down_at, ka, ..Scenario::plain() };
    let ka0 = Some((KA_I_MS, KA_T_MS));
    for n in [0u32, 1] {
        v.push(e(vec![si, h], n, ka0, None));
        v.push(e(vec![si, si, h], n, ka0, None));
    }
    v.push(e(vec![si, h], 0, ka0, Some(0)));
    v.push(e(vec![si], 0, None, None));
    if thorough {
        // other interval / timeout pairs (the last one has T < I: the timeout is clamped to I)
        for ka in [(200, 400), (300, 300), (250, 1000), (400, 200)] {
            for n in [0u32, 2] {
                v.push(e(vec![si, h], n, Some(ka), None));
            }
            v.push(e(vec![si, si, h], 0, Some(ka), Some(1)));
        }
        v.push(e(vec![si, si, si, h], 0, ka0, None));
        v.push(e(vec![si, si, si, h], 1, ka0, None));
        v.push(e(vec![si, si, h], 0, ka0, Some(0)));
        v.push(e(vec![si, si, h], 1, ka0, Some(1)));
        // mixed with the other ways of losing / not getting a connection
        for other in [Beh::Reset, Beh::Close0, Beh::Drop] {
            v.push(e(vec![other, si, h], 1, ka0, None));
            v.push(e(vec![si, other, h], 2, ka0, None));
            v.push(e(vec![si, other, h], 0, ka0, Some(0)));
        }
        // the loss by silence is failure number 0: one refused retry exhausts max_retry_count = 1
        v.push(e(vec![si, Beh::Reset], 1, ka0, None));
        v.push(e(vec![si], 1, None, None));
    }
    // I: the established connection is lost by a TCP reset (the client sees an I/O error, ECONNRESET, instead of an
    // end of stream without closing handshake): a lost connection like any other
    let ab = |script: Vec<Beh>, n: u32, cap_ms: u64, down_at: Option<usize>| Scenario { family: "I-tcp-reset-after-handshake", script, n, cap_ms, down_at, abortive: true, ..Scenario::plain() };
    v.push(ab(vec![Beh::Drop, h], 0, 300, None));
    v.push(ab(vec![Beh::Drop, h], 1, 300, Some(0)));
    v.push(ab(vec![Beh::Drop, Beh::Drop, h], 0, 300, Some(1)));
    v.push(ab(vec![Beh::Reset, Beh::Drop, h], 2, 300_000, None));
    v.push(ab(vec![Beh::Drop, Beh::Reset], 1, 300, None));
    if thorough {
        v.push(ab(vec![Beh::Drop, Beh::Drop, Beh::Drop, h], 1, 300, None));
        v.push(ab(vec![Beh::Drop, Beh::Close0, h], 0, 300, Some(0)));
        v.push(ab(vec![Beh::Mute, Beh::Drop, h], 0, 300, None));
        v.push(ab(vec![Beh::Drop, Beh::Reset, Beh::Reset], 2, 300, None));
        v.push(Scenario { ka: ka0, ..ab(vec![Beh::Drop, h], 0, 300, Some(0)) });
    }
    // J: the client also serves a UDP remote, and local datagrams keep arriving while the tunnel is down (more than its
    // datagram queue holds): that is traffic to be delayed or dropped, not a reason to stop retrying or to close listeners
    let uf = |script: Vec<Beh>, n: u32, cap_ms: u64, flood: usize| Scenario { family: "J-udp-remote-during-outage", script, n, cap_ms, udp_flood: flood, ..Scenario::plain() };
    v.push(uf(vec![Beh::Reset, Beh::Reset, h], 0, 300, 100));
    v.push(uf(vec![Beh::Reset, h], 1, 300, 200));
    v.push(uf(vec![Beh::Stall, h], 0, 300, 100));
    if thorough {
        v.push(uf(vec![Beh::Reset, Beh::Reset, Beh::Reset, h], 0, 300_000, 500));
        v.push(uf(vec![Beh::Close0, Beh::Reset, h], 0, 300, 100));
        v.push(uf(vec![Beh::Reset, Beh::Reset], 1, 300, 100));
    }
    // G: the server closes the WebSocket in an orderly way and then keeps the TCP connection open and silent: the
    // tunnel connection is lost all the same (with or without keepalive), and the client reconnects like after `close0`
    let ch = Beh::CloseHold;
    let g = |script: Vec<Beh>, n: u32, ka: Option<(u64, u64)>, down_at: Option<usize>| Scenario { family: "G-close-hold", script, n, cap_ms: 300_000, down_at, ka, ..Scenario::plain() };
    v.push(g(vec![ch, h], 0, None, None));
    v.push(g(vec![ch, h], 1, ka0, None));
    v.push(g(vec![ch, h], 0, None, Some(0)));
    v.push(g(vec![ch, ch, h], 0, ka0, None));
    if thorough {
        v.push(g(vec![ch, ch, ch, h], 0, None, None));
        v.push(g(vec![ch, ch, h], 1, None, Some(1)));
        v.push(g(vec![ch, Beh::Reset], 1, None, None));
        for other in [Beh::Reset, Beh::Close300, Beh::Drop, Beh::Mute] {
            v.push(g(vec![other, ch, h], 1, None, None));
            v.push(g(vec![ch, other, h], 2, ka0, None));
            v.push(g(vec![ch, other, h], 0, None, Some(0)));
        }
    }
    // H: the connection ends with an error that is not retryable after the handshake (the server sends a binary
    // message that is not a frame: `InvalidFrame`): the client ends at once, max_retry_count or not -- when nothing
    // local is pending (`garbage`, the control) and just as well when the bad message answers a stream request
    // (`garbage-reply`: the controller opens a local connection unless one is pending already)
    let (ga, gr) = (Beh::Garbage, Beh::GarbageReply);
    let hf = |script: Vec<Beh>, n: u32, down_at: Option<usize>| Scenario { family: "H-invalid-frame", script, n, cap_ms: 300_000, down_at, ..Scenario::plain() };
    for n in [0u32, 1, 3] {
        v.push(hf(vec![ga], n, None));
        v.push(hf(vec![gr], n, None));
    }
    // the request is waiting in the client when the connection comes up / was parked after a stream-request timeout
    v.push(hf(vec![Beh::Reset, gr], 1, Some(0)));
    v.push(hf(vec![Beh::Mute, gr], 0, None));
    if thorough {
        for other in [Beh::Reset, Beh::Close0] {
            for n in [0u32, 2] {
                v.push(hf(vec![other, ga], n, None));
                v.push(hf(vec![other, gr], n, None));
                v.push(hf(vec![other, gr], n, Some(0)));
            }
        }
        v.push(hf(vec![Beh::Stall, gr], 2, Some(0)));
        v.push(hf(vec![Beh::Drop, gr], 1, Some(0)));
        v.push(hf(vec![Beh::Close300, gr], 0, None));
        v.push(hf(vec![ch, gr], 1, Some(0)));
        v.push(hf(vec![Beh::Mute, gr], 1, None));
        v.push(hf(vec![Beh::Reset, Beh::Reset, gr], 3, Some(1)));
        v.push(hf(vec![Beh::Reset, Beh::Close0, gr], 2, Some(0)));
        // with keepalive running on the connection
        v.push(Scenario { ka: ka0, ..hf(vec![ga], 1, None) });
        v.push(Scenario { ka: ka0, ..hf(vec![gr], 1, None) });
    }
    // F: a `wss://` server that accepts the TCP connection and never answers the TLS ClientHello:
    // every attempt is a handshake timeout (retryable)
    let ts = Beh::TlsStall;
    let f = |script: Vec<Beh>, n: u32, cap_ms: u64, hs_ms: u64, wss: bool| {
        let open_end = n == 0;
        Scenario { family: "F-tls-handshake", script, n, cap_ms, wss, hs_ms, open_end, ..Scenario::plain() }
    };
    v.push(f(vec![ts, ts], 1, 300_000, TLS_HS_TIMEOUT_MS, true));
    v.push(f(vec![ts, ts, ts], 0, 300_000, TLS_HS_TIMEOUT_MS, true));
    // control: the same timeout on the WebSocket upgrade of a `ws://` URL
    v.push(f(vec![Beh::Stall, Beh::Stall], 1, 300_000, TLS_HS_TIMEOUT_MS, false));
    if thorough {
        for hs in [300, TLS_HS_TIMEOUT_MS, 800] {
            for cap in [300, 300_000] {
                v.push(f(vec![ts, ts, ts], 2, cap, hs, true));
                v.push(f(vec![ts, ts, ts, ts], 3, cap, hs, true));
                v.push(f(vec![ts, ts, ts, ts], 0, cap, hs, true));
            }
        }
        v.push(f(vec![ts, ts, ts, ts, ts], 0, 300_000, TLS_HS_TIMEOUT_MS, true));
        v.push(f(vec![Beh::Stall, Beh::Stall, Beh::Stall], 0, 300_000, TLS_HS_TIMEOUT_MS, false));
    }
    // K: a `wss://` server that accepts the TCP connection, reads the TLS ClientHello and cuts the connection (FIN:
    // `tls-cut`, reset: `tls-reset`) without answering -- a restarting server / TLS proxy. The connection "cannot be
    // established for a retryable reason": back-off, retry limit and result are those of `reset`; the scripts that end
    // at a healthy `wss://` server also show that the listener stayed open and that what was pending is served.
    // (The handshake timeout is generous: it must not fire before the server has read the ClientHello and cut.)
    let (tc, tr, th) = (Beh::TlsCut, Beh::TlsReset, Beh::TlsHealthy);
    let kf = |script: Vec<Beh>, n: u32, cap_ms: u64, down_at: Option<usize>| {
        let open_end = n == 0 && !script.last().is_some_and(|b| b.terminal());
        Scenario { family: "K-tls-handshake-cut", script, n, cap_ms, down_at, wss: true, hs_ms: TLS_CUT_HS_TIMEOUT_MS, open_end, ..Scenario::plain() }
    };
    // max_retry_count = n: the first attempt and n retries are cut, then MaxRetryCountReached
    v.push(kf(vec![tc; 2], 1, 300_000, None));
    v.push(kf(vec![tc; 3], 2, 300, None));
    v.push(kf(vec![tc; 4], 3, 300_000, None));
    v.push(kf(vec![tr; 2], 1, 300, None));
    v.push(kf(vec![tr; 3], 2, 300_000, None));
    // max_retry_count = 0: never gives up -- a fourth attempt comes after three cuts, and the client goes on
    v.push(kf(vec![tc; 4], 0, 300, None));
    v.push(kf(vec![tr; 3], 0, 300_000, None));
    // the server comes back: the client connects (TLS and all), the listener is still there, pending requests are served
    v.push(kf(vec![tc, tc, th], 0, 300_000, None));
    v.push(kf(vec![tc, tc, th], 2, 300, Some(0)));
    v.push(kf(vec![tr, th], 1, 300, Some(0)));
    // control: the healthy `wss://` server alone
    v.push(kf(vec![th], 0, 300, None));
    if thorough {
        for x in [tc, tr] {
            for n in [1u32, 2, 3] {
                for cap in [300, 300_000] {
                    v.push(kf(vec![x; n as usize + 1], n, cap, None));
                }
            }
            for cap in [300, 300_000] {
                v.push(kf(vec![x; 4], 0, cap, None));
            }
            for n in [0u32, 3] {
                v.push(kf(vec![x, th], n, 300, None));
                v.push(kf(vec![x, x, th], n, 300_000, Some(1)));
                v.push(kf(vec![x, x, x, th], n, 300_000, Some(0)));
            }
        }
        v.push(kf(vec![tc; 5], 0, 300_000, None));
        // both ways of cutting in one history
        v.push(kf(vec![tc, tr, th], 0, 300, Some(0)));
        v.push(kf(vec![tr, tc, tr], 2, 300_000, None));
        // ... and mixed with the handshake that is never answered (family F)
        v.push(Scenario { hs_ms: 800, ..kf(vec![ts, tc, tc], 2, 300_000, None) });
        v.push(Scenario { hs_ms: 800, ..kf(vec![tc, ts, tc], 0, 300_000, None) });
    }
    // L: SEVERAL local connections are pending at once (two TCP remotes; k = 2: one connection per remote, k = 3: two
    // on the first remote and one on the second), opened while the tunnel is down (first attempt: `reset` / `stall`);
    // the next connection(s) fail while the first queued stream request is being served (`mute`: never acknowledged,
    // the channel timeout fires; `close0` / `close300` / `drop`: the connection ends after the handshake); then a
    // healthy server.  Every script [d] ++ [f]{1..2} ++ [healthy]; max_retry_count = 0 so that no give-up rule
    // interferes.  On the pinned client the request that was being served is parked and tried first on the next
    // connection, the others stay in the queue (or in the listener's backlog): all k are served by the healthy
    // connection, for every script of this alphabet (none had to be left out).
    let lf = |d: Beh, fs: &[Beh], k: usize| {
        let mut script = vec![d];
        script.extend_from_slice(fs);
        script.push(Beh::Healthy);
        Scenario { family: "L-several-pending-local", script, n: 0, cap_ms: 300, several: k, ..Scenario::plain() }
    };
    let down_l = [Beh::Reset, Beh::Stall];
    let fail_l = [Beh::Mute, Beh::Close0, Beh::Close300, Beh::Drop];
    if thorough {
        for &d in &down_l {
            for k in [2usize, 3] {
                for &f1 in &fail_l {
                    v.push(lf(d, &[f1], k));
                    for &f2 in &fail_l {
                        v.push(lf(d, &[f1, f2], k));
                    }
                }
            }
        }
    } else {
        for &f in &fail_l {
            v.push(lf(Beh::Reset, &[f], 2));
        }
        v.push(lf(Beh::Stall, &[Beh::Mute], 2));
        v.push(lf(Beh::Stall, &[Beh::Close0], 2));
        v.push(lf(Beh::Reset, &[Beh::Mute], 3));
        v.push(lf(Beh::Reset, &[Beh::Close0], 3));
        v.push(lf(Beh::Stall, &[Beh::Drop], 3));
        v.push(lf(Beh::Reset, &[Beh::Mute, Beh::Close0], 2));
        v.push(lf(Beh::Reset, &[Beh::Drop, Beh::Mute], 3));
    }
    // M: a local client whose stream request waits in the client GOES AWAY while the tunnel is down.  One local entry of
    // kind e (TCP remote / SOCKS listener); first attempt d (`reset` / `stall`), during which local client A connects,
    // says everything at once and goes away in way g (`fin`, `rst-linger0`; SOCKS also `rst-unread-data`: a TCP remote
    // sends nothing to a local client while the tunnel is down, so there is nothing it could leave unread -- not
    // reachable, left out); optionally one connection f that fails while A's request is being served (`mute`: the
    // request times out and is parked; `close0`); then healthy.  max_retry_count = 0.  What the pinned client does, for
    // every point: the request of A is served by the healthy connection like any other (a stream is opened at the
    // server); TCP remote: the forwarder task fails or sees the end of stream, which is logged; SOCKS: the success
    // reply goes to a dead socket (`fin`: the write succeeds, the copy ends at once; `rst-*`: the write fails with
    // ECONNRESET / EPIPE), a per-connection error that is logged.  The listener goes on accepting in both cases, so a
    // new local client B on the same entry is served: no point of the product is lossy for B by design, none left out.
    let mf = |socks: bool, d: Beh, g: GoAway, f: Option<Beh>| {
        let mut script = vec![d];
        script.extend(f);
        script.push(Beh::Healthy);
        Scenario { family: "M-local-client-goes-away-while-parked", script, n: 0, cap_ms: 300, socks, goes_away: Some(g), ..Scenario::plain() }
    };
    let ways_m = |socks: bool| -> &'static [GoAway] { if socks { &[GoAway::Fin, GoAway::RstLinger, GoAway::RstUnread] } else { &[GoAway::Fin, GoAway::RstLinger] } };
    if thorough {
        for socks in [false, true] {
            for d in [Beh::Reset, Beh::Stall] {
                for &g in ways_m(socks) {
                    for f in [None, Some(Beh::Mute), Some(Beh::Close0)] {
                        v.push(mf(socks, d, g, f));
                    }
                }
            }
        }
    } else {
        // every (e, g) at least once, both d, every f
        v.push(mf(false, Beh::Reset, GoAway::Fin, None));
        v.push(mf(false, Beh::Reset, GoAway::RstLinger, Some(Beh::Mute)));
        v.push(mf(false, Beh::Stall, GoAway::RstLinger, None));
        v.push(mf(true, Beh::Reset, GoAway::Fin, None));
        v.push(mf(true, Beh::Reset, GoAway::RstLinger, None));
        v.push(mf(true, Beh::Reset, GoAway::RstUnread, None));
        v.push(mf(true, Beh::Stall, GoAway::RstLinger, Some(Beh::Mute)));
        v.push(mf(true, Beh::Reset, GoAway::RstUnread, Some(Beh::Close0)));
        v.push(mf(true, Beh::Stall, GoAway::RstUnread, None));
    }
    for sc in &v {
        if sc.kind == Kind::Script {
            assert!(sc.steps().is_some(), "matrix contains an incomplete history: {}", sc.short());
        }
    }
    // no duplicates by construction; make sure
    let mut seen = HashSet::new();
    v.retain(|s| seen.insert(s.ident()));
    (v, b)
}

// ---------------------------------------------------------------------------------------
// one execution
// ---------------------------------------------------------------------------------------

#[derive(Clone, Debug)]
struct Finding {
    key: String,
    desc: String,
    /// depends on the machine being fast enough: only a suspicion until reproduced alone
    load_sensitive: bool,
}

#[derive(Clone, Debug)]
struct Quiet {
    after_attempt: usize,
    beh: Beh,
    silent_ms: u64,
    nudge_before_ms: f64,
    /// accept time of the next attempt minus the nudge time (None: it never came)
    attempt_after_nudge_ms: Option<f64>,
}

#[derive(Clone, Debug)]
struct LocalSummary {
    origin: &'static str,
    /// which TCP remote of the client (0 / 1)
    remote: usize,
    through_mute: bool,
    open_before_ms: f64,
    result: Option<LocalRes>,
    deadline_hit: bool,
}

#[derive(Clone)]
struct Exec {
    sc: Scenario,
    iso: bool,
    findings: Vec<Finding>,
    attempts: Vec<AttemptLog>,
    streams: Vec<net::StreamLog>,
    client_end: Option<ClientEnd>,
    /// client state sampled when the controller finished (before it aborted the client)
    client_end_at_finish: Option<ClientEnd>,
    locals: Vec<LocalSummary>,
    quiet: Vec<Quiet>,
    /// lower bound of the time the stream request was issued on a `mute` connection
    mute_req_lo: BTreeMap<usize, f64>,
    /// the controller walked the whole script
    completed: bool,
    /// when the controller stopped watching (ms since t0)
    finished_ms: f64,
    stop: Option<String>,
    /// harness trouble (port taken ...): run again, never a verdict
    machinery: Option<String>,
    listen_ms: Option<f64>,
    wall_ms: f64,
    /// smallest (accept time - lower bound) over the checked gaps: how tight the lower bound was
    min_slack_ms: Option<f64>,
    /// an attempt (or the end of the client) that was due after a `silent` / `tls-stall`
    /// connection did not come although it was waited for well beyond its latest due time
    hung: Option<Hang>,
    /// the client closed the connection while the `silent` server was still answering Pings
    lost_while_answered: Option<usize>,
    /// (accept - earliest due time, latest due time + tolerance - accept) of the gaps checked after a
    /// `silent` / `tls-stall` attempt
    ka_gaps: Vec<(f64, f64)>,
    tls_gaps: Vec<(f64, f64)>,
    /// family M: what the local client that went away did
    goer: Option<GoerLog>,
}

#[derive(Clone, Debug)]
struct Hang {
    after_attempt: usize,
    beh: Beh,
    /// what was due: "attempt N" / "the end of the client"
    what: String,
    latest_due_ms: f64,
    waited_until_ms: f64,
}

/// The time (ms since t0) by which the client must have noticed the failure of a `silent`
/// (keepalive on) or stalled attempt at the latest, from what the server logged.
fn noticed_by(sc: &Scenario, a: &AttemptLog) -> Option<f64> {
    let (ka_i, ka_t) = sc.ka_ref();
    match a.beh? {
        // C16: no later than T + I after the last Pong (the multiplexor starts its clock when it is created)
        Beh::Silent => Some(a.pong_after_ms.or(a.hs_done_ms).unwrap_or(a.accept_ms) + (ka_t + ka_i) as f64),
        // the handshake timer was started before the TCP connection was made
        Beh::Stall | Beh::TlsStall => Some(a.accept_ms + sc.hs_ms as f64),
        _ => None,
    }
}

impl Exec {
    fn new(sc: &Scenario, iso: bool) -> Self {
        Self {
            sc: sc.clone(),
            iso,
            findings: Vec::new(),
            attempts: Vec::new(),
            streams: Vec::new(),
            client_end: None,
            client_end_at_finish: None,
            locals: Vec::new(),
            quiet: Vec::new(),
            mute_req_lo: BTreeMap::new(),
            completed: false,
            finished_ms: 0.0,
            stop: None,
            machinery: None,
            listen_ms: None,
            wall_ms: 0.0,
            min_slack_ms: None,
            hung: None,
            lost_while_answered: None,
            ka_gaps: Vec::new(),
            tls_gaps: Vec::new(),
            goer: None,
        }
    }
    fn find(&mut self, key: impl Into<String>, desc: impl Into<String>, load_sensitive: bool) {
        let key = key.into();
        if !self.findings.iter().any(|f| f.key == key) {
            self.findings.push(Finding { key, desc: desc.into(), load_sensitive });
        }
    }
    fn keys(&self) -> Vec<String> {
        let mut k: Vec<String> = self.findings.iter().map(|f| f.key.clone()).collect();
        k.sort();
        k
    }
    fn observation(&self) -> Value {
        let r1 = |x: f64| (x * 10.0).round() / 10.0;
        json!({
            "scenario": self.sc.to_json(),
            "alone_on_the_machine": self.iso,
            "attempts": self.attempts.iter().map(|a| json!({
                "accept_ms": r1(a.accept_ms), "played": a.beh.map_or("(beyond the script: stalled)".to_string(), |b| if a.beyond { format!("{} (beyond the script: played again)", b.name()) } else { b.name().to_string() }),
                "handshake_done_ms": a.hs_done_ms.map(r1), "handshake_error": a.hs_err,
                "server_action_ms": a.act_before_ms.map(r1), "first_frame_ms": a.first_bin_ms.map(r1), "peer_end_ms": a.peer_end_ms.map(r1),
                "pongs_sent": a.pongs, "last_pong_ms": a.pong_after_ms.map(r1), "went_silent_ms": a.silent_ms.map(r1), "first_byte_from_client": a.first_byte.map(|b| format!("0x{b:02x}")), "octets_of_first_tls_record_read_before_the_cut": a.hello_len,
            })).collect::<Vec<_>>(),
            "waited_in_vain": self.hung.as_ref().map(|h| json!({"for": h.what, "after_attempt": h.after_attempt, "played": h.beh.name(), "due_by_ms": r1(h.latest_due_ms), "waited_until_ms": r1(h.waited_until_ms)})),
            "streams_at_healthy_server": self.streams.iter().map(|s| json!({"attempt": s.attempt, "target": format!("{}:{}", s.host, s.port)})).collect::<Vec<_>>(),
            "client_result": self.client_end.as_ref().map(|c| json!({"t_ms": r1(c.t_ms), "class": c.class, "text": c.text})),
            "local_connections": self.locals.iter().map(|l| json!({"opened_because": l.origin, "tcp_remote": l.remote, "request_timed_out_once": l.through_mute, "open_ms": r1(l.open_before_ms), "result": l.result.as_ref().map(|r| format!("{r:?}")), "deadline_hit": l.deadline_hit})).collect::<Vec<_>>(),
            "local_client_that_went_away": self.goer.as_ref().map(|g| json!({"how": self.sc.goes_away.map(GoAway::name), "open_ms": r1(g.open_before_ms), "connected_ms": g.connected_ms.map(r1), "everything_sent_ms": g.sent_ms.map(r1), "socks_method_reply_arrived": g.method_reply, "gone_ms": g.gone_ms.map(r1), "trouble": g.err})),
            "silent_periods": self.quiet.iter().map(|q| json!({"after_attempt": q.after_attempt, "after": q.beh.name(), "no_attempt_for_ms": q.silent_ms, "then_local_connection_at_ms": r1(q.nudge_before_ms), "attempt_came_ms_after_it": q.attempt_after_nudge_ms.map(r1)})).collect::<Vec<_>>(),
            "stopped": self.stop,
            "findings": self.keys(),
            "wall_ms": r1(self.wall_ms),
        })
    }
}

struct Ctl {
    sh: Arc<Shared>,
    lport: u16,
    locals: Vec<LocalConn>,
    listener_seen: Arc<AtomicBool>,
    /// family L: the local port of the second TCP remote, with its own "has accepted once" flag (the two
    /// listeners are bound independently of each other)
    lport2: Option<(u16, Arc<AtomicBool>)>,
    /// family M: the first local entry is a SOCKS listener, local connections to it speak SOCKS5
    socks: bool,
}

impl Ctl {
    fn new(sh: &Arc<Shared>, lport: u16, lport2: Option<u16>, socks: bool) -> Self {
        Self { sh: sh.clone(), lport, locals: Vec::new(), listener_seen: Arc::new(AtomicBool::new(false)), lport2: lport2.map(|p| (p, Arc::new(AtomicBool::new(false)))), socks }
    }
    fn open(&mut self, origin: &'static str) -> f64 {
        self.open_on(0, origin)
    }
    /// a local connection to the first (0) or the second (1) TCP remote
    fn open_on(&mut self, remote: usize, origin: &'static str) -> f64 {
        let idx = self.locals.len();
        let (port, seen, socks) = match (&self.lport2, remote) {
            (Some((p, seen)), 1) => (*p, seen.clone(), false),
            _ => (self.lport, self.listener_seen.clone(), self.socks),
        };
        let mut lc = open_local(port, socks, origin, idx, seen, &self.sh);
        lc.remote = remote;
        let t = lc.open_before_ms;
        self.locals.push(lc);
        t
    }
    /// family L: k local connections at once (k = 2: one per remote; k = 3: two on the first remote, one on the
    /// second), each with its own payload
    fn open_several(&mut self, k: usize) {
        let plan: &[usize] = if k >= 3 { &[0, 1, 0] } else { &[0, 1] };
        for &r in plan {
            self.open_on(r, "several");
        }
    }
    /// At the healthy connection: everything pending must be served, then a fresh connection too.
    async fn verify_locals(&mut self) {
        for l in &mut self.locals {
            l.settle(LONG_WAIT_MS).await;
        }
        self.open("probe");
        if let Some(l) = self.locals.last_mut() {
            l.settle(LONG_WAIT_MS).await;
        }
        if self.lport2.is_some() {
            // ... on the second remote as well
            self.open_on(1, "probe");
            if let Some(l) = self.locals.last_mut() {
                l.settle(LONG_WAIT_MS).await;
            }
        }
    }
    async fn finish(mut self, ex: &mut Exec) {
        for l in &mut self.locals {
            l.peek().await;
            l.task.abort();
        }
        ex.locals = self.locals.iter().map(|l| LocalSummary { origin: l.origin, remote: l.remote, through_mute: l.through_mute, open_before_ms: l.open_before_ms, result: l.result.clone(), deadline_hit: l.deadline_hit }).collect();
        self.sh.read(|l| {
            ex.attempts = l.attempts.clone();
            ex.streams = l.streams.clone();
            ex.client_end = l.client_end.clone();
        });
    }
}

#[derive(Clone, Copy)]
enum Arrival {
    Arrived,
    ClientEnded,
}

fn addr_in_use(c: &ClientEnd) -> bool {
    c.class == "remote-handler-exited" && (c.text.contains("AddrInUse") || c.text.contains("in use"))
}

async fn exec_script(sc: &Scenario, iso: bool) -> Exec {
    let mut ex = Exec::new(sc, iso);
    let steps = sc.steps().expect("complete history");
    let quiet_ms = if iso { QUIET_ISO_MS } else { QUIET_PAR_MS };
    let (ka_i, ka_t) = sc.ka_ref();
    let listener = match TcpListener::bind("127.0.0.1:0").await {
        Ok(l) => l,
        Err(e) => {
            ex.machinery = Some(format!("bind fake server: {e}"));
            return ex;
        }
    };
    let (Ok(sport), Ok(lport)) = (listener.local_addr().map(|a| a.port()), free_port()) else {
        ex.machinery = Some("no free port".into());
        return ex;
    };
    // family L: a second TCP remote on a port of its own
    let lport2 = if sc.several > 0 {
        match (0..16).filter_map(|_| free_port().ok()).find(|&p| p != lport && p != sport) {
            Some(p) => Some(p),
            None => {
                ex.machinery = Some("no free port for the second TCP remote".into());
                return ex;
            }
        }
    } else {
        None
    };
    let sh = Shared::new();
    sh.abortive.store(sc.abortive, std::sync::atomic::Ordering::SeqCst);
    let server = tokio::spawn(serve(listener, sc.script.clone(), sh.clone()));
    // (a free UDP port for the optional UDP remote)
    let uport = if sc.udp_flood > 0 { std::net::UdpSocket::bind("127.0.0.1:0").and_then(|s| s.local_addr()).map(|a| a.port()).ok() } else { None };
    if sc.udp_flood > 0 && uport.is_none() {
        ex.machinery = Some("no free UDP port".into());
        return ex;
    }
    let client = spawn_client(net::ClientCfg { lport2, ..sc.client_cfg(sport, lport, uport) }, sh.clone());
    let mut ctl = Ctl::new(&sh, lport, lport2, sc.socks);
    let len = sc.script.len();

    for j in 0..len {
        let b = sc.script[j];
        let exp_gap = if j == 0 {
            0
        } else {
            steps[j - 1].delay_ms.unwrap_or(0)
                + match sc.script[j - 1] {
                    Beh::Mute => CH_TIMEOUT_MS,
                    Beh::Stall | Beh::TlsStall => sc.hs_ms,
                    Beh::Silent => ka_t + ka_i,
                    _ => 0,
                }
        };
        // after a `silent` / `tls-stall` attempt the next one is due by a time the server's log
        // gives; it is waited for well beyond that, and no local connection is used as a nudge
        let wide_due = if j > 0 && matches!(sc.script[j - 1], Beh::Silent | Beh::TlsStall) { sh.read(|l| noticed_by(sc, &l.attempts[j - 1])).map(|t| t + steps[j - 1].delay_ms.unwrap_or(0) as f64) } else { None };
        let cond = |l: &net::Log| {
            if l.attempts.len() > j {
                Some(Arrival::Arrived)
            } else if l.client_end.is_some() {
                Some(Arrival::ClientEnded)
            } else {
                None
            }
        };
        let got = if let Some(due) = wide_due {
            let wait = (due + HANG_EXTRA_MS - sh.now_ms()).max(0.0) as u64;
            let r = sh.wait(wait, cond).await;
            if r.is_none() {
                ex.hung = Some(Hang { after_attempt: j - 1, beh: sc.script[j - 1], what: format!("attempt {j}"), latest_due_ms: due, waited_until_ms: sh.now_ms() });
            }
            r
        } else if j > 0 && ctl.locals.is_empty() {
            // nothing local is pending: the client must come back on its own
            let silent_ms = quiet_ms + 3 * exp_gap;
            match sh.wait(silent_ms, cond).await {
                Some(x) => Some(x),
                None => {
                    let nudge_before_ms = ctl.open("nudge");
                    let r = sh.wait(LONG_WAIT_MS + 3 * exp_gap, cond).await;
                    let after = sh.read(|l| l.attempts.get(j).map(|a| a.accept_ms - nudge_before_ms));
                    ex.quiet.push(Quiet { after_attempt: j - 1, beh: sc.script[j - 1], silent_ms, nudge_before_ms, attempt_after_nudge_ms: after });
                    r
                }
            }
        } else {
            sh.wait(LONG_WAIT_MS + 3 * exp_gap, cond).await
        };
        match got {
            None => {
                ex.stop = Some(format!("attempt {j} never came"));
                break;
            }
            Some(Arrival::ClientEnded) => {
                ex.stop = Some(format!("the client ended before attempt {j}"));
                break;
            }
            Some(Arrival::Arrived) => {}
        }
        if b.connects() {
            let r = sh
                .wait(LONG_WAIT_MS, |l| {
                    let a = &l.attempts[j];
                    if a.hs_done_ms.is_some() {
                        Some(Ok(()))
                    } else {
                        a.hs_err.clone().map(Err)
                    }
                })
                .await;
            match r {
                Some(Ok(())) => {}
                Some(Err(e)) => {
                    ex.stop = Some(format!("handshake of attempt {j} ({}) failed at the server: {e}", b.name()));
                    break;
                }
                None => {
                    ex.stop = Some(format!("handshake of attempt {j} ({}) never completed", b.name()));
                    break;
                }
            }
        }
        match b {
            Beh::Reset | Beh::Http404 | Beh::Close0 | Beh::Close300 | Beh::CloseHold | Beh::Drop | Beh::TlsCut | Beh::TlsReset => {
                if sh.wait(LONG_WAIT_MS, |l| l.attempts[j].act_after_ms).await.is_none() {
                    ex.machinery = Some(format!("the fake server never played {} on attempt {j}", b.name()));
                    break;
                }
            }
            _ => {}
        }
        if j == 0 && sc.several > 0 {
            // family L: the tunnel is down (`reset`: the attempt has just failed, the client is in its back-off;
            // `stall`: the attempt is stuck in the handshake): k local connections at once, each with its own payload
            ctl.open_several(sc.several);
        }
        if let (0, Some(how)) = (j, sc.goes_away) {
            // family M: the tunnel is down (`reset`: the attempt has just failed, the client is in its back-off; `stall`:
            // the attempt is stuck in the handshake): local client A comes, says everything at once, and goes away.
            // It is waited for (it never waits for the tunnel itself; its own waits are bounded)
            let mut h = tokio::spawn(run_goer(lport, sc.socks, how, ctl.listener_seen.clone(), sh.clone()));
            match tokio::time::timeout(Duration::from_millis(3 * LONG_WAIT_MS), &mut h).await {
                Ok(Ok(g)) => ex.goer = Some(g),
                Ok(Err(e)) => {
                    ex.machinery = Some(format!("the local client that goes away: harness task: {e}"));
                    break;
                }
                Err(_) => {
                    h.abort();
                    ex.machinery = Some("the local client that goes away did not finish".into());
                    break;
                }
            }
        }
        if j == 0 {
            if let (Some(up), n @ 1..) = (uport, sc.udp_flood) {
                // the tunnel is down (or this attempt will never get anywhere): local datagrams keep coming
                if let Ok(sock) = tokio::net::UdpSocket::bind("127.0.0.1:0").await {
                    for i in 0..n {
                        let _ = sock.send_to(&[0xd6, (i % 251) as u8, (i / 251) as u8], ("127.0.0.1", up)).await;
                        if i % 16 == 15 {
                            tokio::task::yield_now().await;
                        }
                    }
                }
            }
        }
        match b {
            Beh::Reset | Beh::Http404 | Beh::Close0 | Beh::Close300 | Beh::CloseHold | Beh::Drop | Beh::TlsCut | Beh::TlsReset => {}
            Beh::Mute => {
                if sc.goes_away.is_some() && ctl.locals.is_empty() {
                    // family M: the request that is never acknowledged is the one the local client that went away left
                    // behind.  Should it not show up on this connection (the client's handler had not got as far as
                    // asking for a stream when its local client went away), a local connection is opened as elsewhere
                    if sh.wait(5000, |l| l.attempts[j].first_bin_ms.or(l.attempts[j].peer_end_ms).or(l.client_end.as_ref().map(|c| c.t_ms))).await.is_none() {
                        ctl.open("timeout");
                    }
                } else if ctl.locals.is_empty() {
                    ctl.open("timeout");
                }
                for l in &mut ctl.locals {
                    l.through_mute = true;
                }
                let first_open = ctl.locals.iter().map(|l| l.open_before_ms).fold(f64::INFINITY, f64::min);
                let acc = sh.read(|l| l.attempts[j].accept_ms);
                // (no local connection of the controller: the request was waiting, it is issued once the connection is up)
                ex.mute_req_lo.insert(j, if first_open.is_finite() { acc.max(first_open) } else { acc });
            }
            Beh::Garbage | Beh::GarbageReply => {
                // `garbage-reply` answers a stream request: one must be pending on this connection
                if b == Beh::GarbageReply && ctl.locals.is_empty() {
                    ctl.open("request");
                }
                // the bad message went out -- or the connection / the client ended before the server could play
                let played = |l: &net::Log| {
                    let a = &l.attempts[j];
                    a.act_after_ms.map(|_| true).or((l.client_end.is_some() || a.peer_end_ms.is_some()).then_some(false))
                };
                let mut r = sh.wait(if b == Beh::GarbageReply { 5000 } else { LONG_WAIT_MS }, played).await;
                if r.is_none() && b == Beh::GarbageReply {
                    // a local connection that was pending from before has not made it to this connection: a fresh one
                    ctl.open("request");
                    r = sh.wait(LONG_WAIT_MS, played).await;
                }
                match r {
                    Some(true) => {}
                    Some(false) if sh.read(|l| l.client_end.is_some()) => {
                        ex.stop = Some(format!("the client ended before the fake server had played {} on attempt {j}", b.name()));
                        break;
                    }
                    _ => {
                        ex.machinery = Some(format!("the fake server never played {} on attempt {j}", b.name()));
                        break;
                    }
                }
            }
            Beh::Stall | Beh::TlsStall => {}
            Beh::Silent => match sh.wait(LONG_WAIT_MS, |l| l.attempts[j].silent_ms.map(|_| true).or(l.attempts[j].peer_end_ms.map(|_| false))).await {
                Some(true) => {}
                Some(false) => {
                    // The client dropped the connection while the server was still answering. T after
                    // the last Pong that is a keepalive timeout as good as the one the silence causes
                    // (with T = I a tick that is late by more than the round trip does it); earlier it is not.
                    let (earliest, ended) = sh.read(|l| {
                        let a = &l.attempts[j];
                        (a.pong_before_ms.unwrap_or(a.accept_ms) + ka_t as f64, a.peer_end_ms.unwrap_or(0.0))
                    });
                    if sc.ka.is_none() || ended < earliest - WIDE_TOL_LO_MS {
                        ex.lost_while_answered = Some(j);
                        ex.stop = Some(format!("the client closed connection {j} while the server was still answering its Pings"));
                        break;
                    }
                }
                None => {
                    ex.machinery = Some(format!("the fake server never went silent on attempt {j}"));
                    break;
                }
            },
            Beh::Healthy | Beh::TlsHealthy => {
                ctl.verify_locals().await;
                if sc.goes_away.is_some() {
                    // family M: B has its answer.  The request the local client that went away left behind is served
                    // by this connection too (its stream shows up at the server, usually before B's); what the client
                    // makes of the dead local socket is seen a moment later: it must still be running then
                    sh.wait(3000, |l| (l.client_end.is_some() || l.streams.iter().filter(|s| s.attempt == j).count() >= 2).then_some(())).await;
                    sh.wait(OPEN_END_WATCH_MS, |l| l.client_end.is_some().then_some(())).await;
                }
            }
        }
        if sc.down_at == Some(j) && !b.terminal() && !(b == Beh::Mute) {
            ctl.open("down");
        }
        match steps[j].end {
            Some(End::GiveUp | End::NonRetryable) => {
                // the client must end now; an attempt beyond the script is an answer too
                let ended = |l: &net::Log| (l.client_end.is_some() || l.attempts.len() > len).then_some(());
                if b == Beh::TlsStall {
                    let due = sh.read(|l| noticed_by(sc, &l.attempts[j])).unwrap_or(0.0);
                    let wait = (due + HANG_EXTRA_MS - sh.now_ms()).max(0.0) as u64;
                    if sh.wait(wait, ended).await.is_none() {
                        ex.hung = Some(Hang { after_attempt: j, beh: b, what: "the end of the client".into(), latest_due_ms: due, waited_until_ms: sh.now_ms() });
                    }
                } else {
                    let extra = if b == Beh::Stall { sc.hs_ms * 3 } else { 0 };
                    sh.wait(LONG_WAIT_MS + extra, ended).await;
                    if b.garbage() {
                        // A client that came back although the error is not retryable: the server plays the same on
                        // every further connection; watch (briefly) whether the retry limit stops the client at least.
                        let want = len + sc.n.min(3) as usize + 1;
                        sh.wait(GARBAGE_WATCH_MS, |l| (l.client_end.is_some() || l.attempts.len() > want).then_some(())).await;
                    }
                }
                ex.completed = true;
            }
            Some(End::Stays) => {
                if b == Beh::Silent {
                    // keepalive is off: nothing tells the client, it must stay on this connection for
                    // (at least) the time in which a client with keepalive would have come back
                    let until = sh.read(|l| noticed_by(sc, &l.attempts[j])).unwrap_or(0.0) + BASE_MS as f64 + WIDE_TOL_UP_MS;
                    let wait = (until - sh.now_ms()).max(0.0) as u64;
                    sh.wait(wait, |l| (l.client_end.is_some() || l.attempts.len() > len).then_some(())).await;
                }
                ex.completed = true;
            }
            Some(End::Open) => {
                if matches!(b, Beh::TlsCut | Beh::TlsReset) {
                    // the client notices the cut a moment after the server made it: a client that ends on it
                    // (instead of retrying) has ended well within this time
                    sh.wait(OPEN_END_WATCH_MS, |l| l.client_end.is_some().then_some(())).await;
                }
                ex.completed = true;
            }
            None => {}
        }
    }
    ex.client_end_at_finish = sh.read(|l| l.client_end.clone());
    ex.finished_ms = sh.now_ms();
    ctl.finish(&mut ex).await;
    server.abort();
    client.abort();
    if ex.client_end.as_ref().is_some_and(addr_in_use) {
        ex.machinery = Some(format!("the local port {lport}{} was taken by someone else", lport2.map_or(String::new(), |p| format!(" or {p}"))));
    }
    if ex.machinery.is_none() {
        judge_script(&mut ex, &steps);
    }
    ex
}

/// Verdicts of one scripted execution (see the module comment for the two classes).
#[allow(clippy::too_many_lines)]
fn judge_script(ex: &mut Exec, steps: &[Step]) {
    let sc = ex.sc.clone();
    let len = sc.script.len();
    let att = ex.attempts.clone();
    let ctx = sc.short();
    let end = ex.client_end_at_finish.clone();

    // ---- panics
    if let Some(c) = &end {
        if c.class == "panic" {
            ex.find("client.panic", format!("client_main_inner panicked: {}; {ctx}", c.text), false);
        }
    }

    // ---- silent periods: no attempt although nothing local was pending
    for q in ex.quiet.clone() {
        let what = match q.attempt_after_nudge_ms {
            Some(t) => format!("a local TCP connection was then opened and the attempt came {t:.0} ms after it"),
            None => format!("a local TCP connection was then opened and still no attempt came within {LONG_WAIT_MS} ms"),
        };
        let due = steps[q.after_attempt].delay_ms.unwrap_or(0);
        if q.attempt_after_nudge_ms.is_some() {
            ex.find(
                format!("reconnect.after-{}", q.beh.class()),
                format!("after attempt {} ({}) the connection was lost and a new attempt was due after {due} ms, but none was made for {} ms while no local connection was pending; {what}. {ctx}", q.after_attempt, q.beh.name(), q.silent_ms),
                true,
            );
        }
    }

    // ---- a silent server / a stalled TLS handshake that the client never gets over
    let (ka_i, ka_t) = sc.ka_ref();
    if let (Some(h), None) = (ex.hung.clone(), &end) {
        let waited = format!("{} was due by {:.0} ms at the latest and had not come at {:.0} ms, the client still running", h.what, h.latest_due_ms, h.waited_until_ms);
        match h.beh {
            Beh::Silent => {
                let a = &att[h.after_attempt];
                ex.find(
                    "keepalive.no-reconnect-after-silence",
                    format!(
                        "connection {} answered {} Ping(s), the last at {:.0} ms, then the server went silent (no more reads or writes, TCP open); with keepalive interval {ka_i} ms and timeout {ka_t} ms the client must drop it between {ka_t} and {} ms after the last Pong and reconnect {} ms later, but {waited}; {ctx}",
                        h.after_attempt,
                        a.pongs,
                        a.pong_after_ms.unwrap_or(f64::NAN),
                        ka_t + ka_i,
                        steps[h.after_attempt].delay_ms.unwrap_or(0)
                    ),
                    true,
                );
            }
            _ => ex.find(
                "handshake.tls-stall-hangs",
                format!(
                    "attempt {} (wss://) was accepted at {:.0} ms and the TLS ClientHello was never answered; the handshake timeout of {} ms makes this a failed attempt (HandshakeTimeout, retryable), but {waited}; {ctx}",
                    h.after_attempt, att[h.after_attempt].accept_ms, sc.hs_ms
                ),
                true,
            ),
        }
    }
    if let Some(j) = ex.lost_while_answered {
        if end.is_none() {
            let a = &att[j];
            let why = if sc.ka.is_some() { format!("less than the keepalive timeout of {ka_t} ms after the last Pong (written not before {:.0} ms)", a.pong_before_ms.unwrap_or(a.accept_ms)) } else { "although keepalive is off".to_string() };
            ex.find("keepalive.lost-while-pongs-answered", format!("the client closed connection {j} at {:.0} ms while the server was still answering its Pings ({} answered), {why}; {ctx}", a.peer_end_ms.unwrap_or(f64::NAN), a.pongs), true);
        }
    }

    // ---- attempts that never came / handshakes that failed
    if !ex.completed && end.is_none() && ex.hung.is_none() {
        if let Some(stop) = ex.stop.clone() {
            let j = att.len().min(len);
            let prev = if j > 0 { sc.script[j - 1].class() } else { "start" };
            if stop.contains("never came") {
                ex.find(format!("reconnect.never.after-{prev}"), format!("{stop} within {LONG_WAIT_MS} ms (+3x the due delay) although the client was still running; {ctx}"), true);
            } else if stop.contains("handshake") {
                let b = sc.script[(j.max(1) - 1).min(len - 1)];
                ex.find(format!("connect.handshake-failed.{}", b.name()), format!("{stop}; {ctx}"), true);
            }
        }
    }

    // ---- the way the client ends
    let seen = att.len();
    if !ex.completed {
        if let Some(c) = &end {
            if c.class != "panic" {
                let last = if seen > 0 { sc.script[(seen - 1).min(len - 1)].class() } else { "start" };
                let (key, why) = if c.class == "max-retry" {
                    if sc.n == 0 {
                        ("giveup.with-unlimited-retries".to_string(), "max_retry_count is 0 (never give up)".to_string())
                    } else {
                        (format!("giveup.too-early.after-{last}"), format!("by the rule the client gives up after attempt {len} of this script"))
                    }
                } else if c.class == "ok" {
                    (format!("result.ok-exit.after-{last}"), "the client returned Ok(()) as if the user had asked it to quit".to_string())
                } else {
                    (format!("result.early-exit.{}.after-{last}", c.class), "a retryable connection loss must be retried".to_string())
                };
                ex.find(key, format!("the client ended with {} [{}] at {:.0} ms after {seen} attempt(s): {why}; {ctx}", c.class, c.text, c.t_ms), false);
            }
        }
    } else {
        let last_step = steps[len - 1];
        match last_step.end {
            Some(End::GiveUp) => match &end {
                None if seen > len => ex.find(format!("giveup.extra-attempt.n{}", sc.n), format!("attempt {} was made although max_retry_count={} consecutive retries had failed after attempt {len}; {ctx}", seen, sc.n), false),
                None if ex.hung.is_some() => {}
                None => ex.find(format!("giveup.never.n{}", sc.n), format!("the client did not end within {LONG_WAIT_MS} ms after max_retry_count={} consecutive retries had failed; {ctx}", sc.n), true),
                Some(c) if c.class == "max-retry" || c.class == "panic" => {}
                Some(c) => ex.find(format!("giveup.wrong-result.{}", c.class), format!("after max_retry_count={} failed retries the client ended with {} [{}] instead of MaxRetryCountReached; {ctx}", sc.n, c.class, c.text), false),
            },
            Some(End::NonRetryable) => {
                let lb = sc.script[len - 1];
                // family H has its own keys (suffix: the class of the behaviour); http404 keeps the plain ones
                let sfx = if lb.garbage() { format!(".{}", lb.class()) } else { String::new() };
                let cause = match lb {
                    Beh::Garbage => format!("the server sent a binary message that is not a frame ({} octets 0xff) right after the WebSocket handshake of connection {}, no stream request pending (the client's multiplexor ends with InvalidFrame, which is not retryable)", net::GARBAGE.len(), len - 1),
                    Beh::GarbageReply => format!("the server answered the first frame on connection {} (the Connect of a pending local connection) with a binary message that is not a frame ({} octets 0xff) (the client's multiplexor ends with InvalidFrame, which is not retryable)", len - 1, net::GARBAGE.len()),
                    _ => "the server answered the upgrade request with 404".to_string(),
                };
                match &end {
                    None if seen > len && lb.garbage() => {
                        let sent = att[len - 1].act_after_ms.unwrap_or(f64::NAN);
                        ex.find(
                            format!("nonretryable.retried{sfx}"),
                            format!(
                                "{cause} at {sent:.1} ms; the client must end at once, but it reconnected: {} further attempt(s) at {:?} ms (the server played the same on each), the client still running at {:.0} ms with max_retry_count={}; {ctx}",
                                seen - len,
                                att[len..].iter().map(|a| a.accept_ms.round()).collect::<Vec<_>>(),
                                ex.finished_ms,
                                sc.n
                            ),
                            false,
                        );
                    }
                    None if seen > len => ex.find("nonretryable.retried", format!("attempt {seen} was made after {cause}; {ctx}"), false),
                    None => ex.find(format!("nonretryable.never-ends{sfx}"), format!("the client did not end within {LONG_WAIT_MS} ms after {cause}; {ctx}"), true),
                    Some(c) if c.class == "ok" => ex.find(format!("nonretryable.ok-exit{sfx}"), format!("the client returned Ok(()) after {cause}; {ctx}"), false),
                    Some(c) if c.class == "max-retry" && (sc.n == 0 || last_step.k < sc.n || (seen > len && lb.garbage())) => {
                        let why = if seen > len { format!("after {} further attempt(s) although {cause}", seen - len) } else { format!("although only {} of {} retries had failed", last_step.k, sc.n) };
                        ex.find(format!("nonretryable.reported-as-max-retry{sfx}"), format!("the client reported MaxRetryCountReached [{}] {why}; {ctx}", c.text), false);
                    }
                    // it ended, with the error of the connection -- but only after it had come back
                    Some(c) if seen > len && lb.garbage() && c.class != "panic" => ex.find(
                        format!("nonretryable.retried{sfx}"),
                        format!("{cause}; the client must end at once, but it made {} further attempt(s) before it ended with {} [{}] at {:.0} ms; {ctx}", seen - len, c.class, c.text, c.t_ms),
                        false,
                    ),
                    Some(_) => {}
                }
            }
            Some(End::Stays) => {
                if let Some(c) = &end {
                    if c.class != "panic" {
                        ex.find(format!("result.ended-while-healthy.{}", c.class), format!("the client ended with {} [{}] while connected to the healthy server; {ctx}", c.class, c.text), false);
                    }
                } else if seen > len && sc.script[len - 1] == Beh::Silent {
                    let a = &att[len - 1];
                    ex.find(
                        "keepalive.reconnect-without-keepalive",
                        format!("keepalive is off, so a server that goes silent (at {:.0} ms) is not a lost connection; the client dropped connection {} and made attempt {seen} at {:.0} ms; {ctx}", a.silent_ms.unwrap_or(f64::NAN), len - 1, att[len].accept_ms),
                        false,
                    );
                } else if seen > len {
                    ex.find("attempts.extra-while-healthy", format!("{seen} attempts for a script of {len}: the client reconnected while the healthy connection was up; {ctx}"), true);
                }
            }
            Some(End::Open) => {
                // the script has ended, the client must still be retrying
                if let Some(c) = &end {
                    if c.class == "max-retry" {
                        ex.find("giveup.with-unlimited-retries", format!("the client ended with MaxRetryCountReached [{}] at {:.0} ms although max_retry_count is 0; {ctx}", c.text, c.t_ms), false);
                    } else if c.class != "panic" {
                        ex.find(format!("result.early-exit.{}.after-{}", c.class, sc.script[len - 1].class()), format!("the client ended with {} [{}] at {:.0} ms; a retryable failure must be retried; {ctx}", c.class, c.text, c.t_ms), false);
                    }
                }
            }
            None => {}
        }
    }

    // ---- "gives up once ... have failed", "ends the client at once": no further delay
    if ex.completed && seen == len {
        if let (Some(c), Some(a)) = (&end, att.last()) {
            let up = match sc.script[len - 1] {
                Beh::Reset | Beh::Http404 | Beh::Garbage | Beh::GarbageReply | Beh::TlsCut | Beh::TlsReset => a.act_after_ms,
                Beh::Stall | Beh::TlsStall => Some(a.accept_ms + sc.hs_ms as f64),
                _ => None,
            };
            if let Some(up) = up {
                if c.class != "panic" && c.t_ms > up + 1000.0 {
                    let key = if steps[len - 1].end == Some(End::NonRetryable) { "nonretryable.not-at-once".to_string() } else { format!("giveup.late.n{}", sc.n) };
                    ex.find(key, format!("the last failure was noticed by {up:.0} ms at the latest, but the client ended only at {:.0} ms; {ctx}", c.t_ms), true);
                }
            }
        }
    }

    // ---- local connections (only where the statement promises service: the healthy connection was reached)
    if ex.completed && steps[len - 1].end == Some(End::Stays) && end.is_none() {
        judge_locals(ex, &ctx);
    } else if sc.several > 0 {
        // family L: the healthy connection was not reached with the client still running (it ended early, see above):
        // a local connection that the client accepted while the tunnel was down and then closed is lost all the same
        judge_several_lost(ex, &ctx);
    } else if sc.goes_away.is_some() {
        // family M: the client ended (see above); what became of the new local client B, if it was opened at all
        for l in ex.locals.clone().iter().filter(|l| l.origin == "probe") {
            lost_after_local_abort(ex, l, &ctx);
        }
    }

    // ---- gaps between attempts
    let mut prev: Option<(f64, Option<f64>, Step, Beh, Option<Quiet>)> = None; // (lower anchor, upper anchor, step, behaviour, silent period)
    let mut lb = 0.0f64;
    for j in 0..seen.min(len) {
        let a = &att[j];
        if let Some((lo, up, st, pb, q)) = prev.take() {
            let d = st.delay_ms.unwrap_or(0) as f64;
            lb = lo + d;
            let cls = format!("k{}{}", st.k, if pb.connects() { ".after-success" } else { "" });
            // families E / F: own keys, wide tolerances on both sides
            let wide = match pb {
                Beh::Silent => Some(("keepalive.reconnect-too-early", "keepalive.reconnect-too-late", format!("the server sent its last Pong on connection {} not before {:.1} ms and went silent; with keepalive interval {ka_i} ms / timeout {ka_t} ms the client drops the connection between {ka_t} and {} ms after that Pong", j - 1, lo - ka_t as f64, ka_t + ka_i))),
                Beh::TlsStall => Some(("handshake.tls-stall-wrong-delay", "handshake.tls-stall-wrong-delay", format!("attempt {} (wss://, TLS ClientHello never answered) fails with the handshake timeout of {} ms", j - 1, sc.hs_ms))),
                _ => None,
            };
            if let Some((early_key, late_key, why)) = wide {
                if let Some(u) = up {
                    let g = (a.accept_ms - lb, u + d + WIDE_TOL_UP_MS - a.accept_ms);
                    if pb == Beh::Silent { ex.ka_gaps.push(g) } else { ex.tls_gaps.push(g) }
                }
                if a.accept_ms < lb - WIDE_TOL_LO_MS {
                    ex.find(early_key, format!("{why}, i.e. not before {lo:.1} ms, and retries min(200x2^{}, {}) = {d} ms later; attempt {j} was accepted at {:.1} ms already; {ctx}", st.k, sc.cap_ms, a.accept_ms), false);
                }
                if let Some(u) = up {
                    if a.accept_ms > u + d + WIDE_TOL_UP_MS {
                        ex.find(late_key, format!("{why}, i.e. by {u:.1} ms at the latest, and retries min(200x2^{}, {}) = {d} ms later; attempt {j} was accepted only at {:.1} ms (allowed: {WIDE_TOL_UP_MS} ms more); {ctx}", st.k, sc.cap_ms, a.accept_ms), true);
                    }
                }
            } else {
                if q.is_none() {
                    let slack = a.accept_ms - lb;
                    ex.min_slack_ms = Some(ex.min_slack_ms.map_or(slack, |m: f64| m.min(slack)));
                }
                if a.accept_ms < lb - TOL_MS {
                    ex.find(
                        format!("backoff.too-early.{cls}"),
                        format!("attempt {j} was accepted at {:.1} ms, but the failure of attempt {} ({}) cannot have been noticed before {lo:.1} ms and the delay for consecutive failure {} is min(200x2^{}, {}) = {d} ms; {ctx}", a.accept_ms, j - 1, pb.name(), st.k, st.k, sc.cap_ms),
                        false,
                    );
                }
                // upper side: relative to the nudge if the client had to be nudged
                let up_anchor = q.as_ref().map_or(up, |q| Some(q.nudge_before_ms));
                if let Some(u) = up_anchor {
                    if a.accept_ms > u + 3.0 * d + 1000.0 + if q.is_some() { 500.0 } else { 0.0 } {
                        ex.find(format!("backoff.too-late.{cls}"), format!("attempt {j} was accepted at {:.1} ms, more than 3x{d}+1000 ms after the failure of attempt {} ({}) was noticed (at most {u:.1} ms); {ctx}", a.accept_ms, j - 1, pb.name()), true);
                    }
                }
            }
            let unreset = delay_ms(st.k_unreset, sc.cap_ms) as f64;
            if pb.connects() && pb != Beh::Silent && unreset >= 4.0 * d {
                let from = q.as_ref().map_or(lo, |q| q.nudge_before_ms);
                if a.accept_ms - from >= unreset {
                    ex.find(
                        "backoff.not-reset-after-success",
                        format!("attempt {} ({}) was a successful connection, so the next delay is {d} ms; attempt {j} came {:.0} ms after its loss, which is what the un-reset sequence gives (min(200x2^{}, {}) = {unreset} ms); {ctx}", j - 1, pb.name(), a.accept_ms - from, st.k_unreset, sc.cap_ms),
                        true,
                    );
                }
            }
        }
        let b = sc.script[j];
        if b.terminal() || steps[j].delay_ms.is_none() {
            break;
        }
        let q = ex.quiet.iter().find(|q| q.after_attempt == j).cloned();
        let anchors = match b {
            // (`tls-cut` / `tls-reset`: `act_before_ms` is taken after the ClientHello was read, before the cut)
            Beh::Reset | Beh::Close0 | Beh::Close300 | Beh::CloseHold | Beh::Drop | Beh::TlsCut | Beh::TlsReset => a.act_before_ms.map(|lo| (lo, a.act_after_ms)),
            // the handshake timer started no earlier than `lb` and no later than the accept
            Beh::Stall | Beh::TlsStall => Some((lb + sc.hs_ms as f64, noticed_by(&sc, a))),
            // C16: no earlier than T after the last Pong (sent not before `pong_before_ms`; the client's
            // clock starts when its multiplexor is created, after the server accepted), no later than T + I
            Beh::Silent => Some((a.pong_before_ms.unwrap_or(a.accept_ms) + ka_t as f64, noticed_by(&sc, a))),
            Beh::Mute => ex.mute_req_lo.get(&j).map(|lo| (lo + CH_TIMEOUT_MS as f64, a.first_bin_ms.map(|t| t + CH_TIMEOUT_MS as f64))),
            Beh::Http404 | Beh::Healthy | Beh::TlsHealthy | Beh::Garbage | Beh::GarbageReply => None,
        };
        let Some((lo, up)) = anchors else { break };
        prev = Some((lo, up, steps[j], b, q));
    }
}

/// Family L: the class (for the keys) of the way the connections failed while several stream requests were queued:
/// that of the first behaviour after the down phase.
fn several_class(sc: &Scenario) -> &'static str {
    sc.script.get(1).or(sc.script.first()).map_or("start", |b| b.class())
}

fn several_lost(ex: &mut Exec, l: &LocalSummary, k: usize, ctx: &str) {
    let sc = ex.sc.clone();
    if let Some(LocalRes::Closed { connected_ms, closed_ms, got, err }) = &l.result {
        let hs = ex.attempts.get(1).and_then(|a| a.hs_done_ms);
        ex.find(
            format!("pending.several.lost.after-{}", several_class(&sc)),
            format!(
                "{} local connections were made at once to the client's two TCP remotes while the tunnel was down; connection {k} (remote {}, made at {connected_ms:.0} ms{}) was closed by the client at {closed_ms:.0} ms ({err}) after {got} echoed bytes instead of being served by the next healthy connection; client: {}; {ctx}",
                sc.several,
                l.remote,
                hs.map_or(String::new(), |t| format!(", the next connection's handshake completed at {t:.0} ms")),
                ex.client_end_at_finish.as_ref().map_or("still running".to_string(), |c| format!("ended with {} [{}] at {:.0} ms", c.class, c.text, c.t_ms)),
            ),
            false,
        );
    }
}

/// Family L when the healthy connection was not reached with the client running: only what the client closed counts.
fn judge_several_lost(ex: &mut Exec, ctx: &str) {
    for (k, l) in ex.locals.clone().iter().enumerate() {
        if l.origin == "several" {
            several_lost(ex, l, k, ctx);
        }
    }
}

/// Family M: the new local client B (opened on the same local entry once the healthy connection was up) could not
/// connect or was not served.  (A startup refusal and a wrong echo keep the general keys.)
fn lost_after_local_abort(ex: &mut Exec, l: &LocalSummary, ctx: &str) -> bool {
    let sc = ex.sc.clone();
    let Some(how) = sc.goes_away else { return false };
    let what = match &l.result {
        Some(LocalRes::Echo { .. } | LocalRes::Corrupt { .. }) | Some(LocalRes::Refused { startup: true, .. }) => return false,
        Some(LocalRes::Refused { t_ms, err, .. }) => format!("was refused by the local listener at {t_ms:.0} ms ({err})"),
        Some(LocalRes::Closed { connected_ms, closed_ms, got, err }) => format!("connected at {connected_ms:.0} ms and was closed by the client at {closed_ms:.0} ms ({err}) after {got} echoed bytes"),
        None => format!("(opened at {:.0} ms) was neither served nor closed within {LONG_WAIT_MS} ms", l.open_before_ms),
    };
    let a = ex.goer.as_ref().map_or("?".to_string(), |g| {
        format!(
            "connected at {} ms, sent {} at once{}, and went away ({}) at {} ms",
            g.connected_ms.map_or("?".into(), |t| format!("{t:.0}")),
            if sc.socks { "its SOCKS5 greeting and CONNECT request" } else { "a few octets" },
            g.method_reply.as_ref().map_or(String::new(), |m| format!(", got the method reply {m}")),
            how.name(),
            g.gone_ms.map_or("?".into(), |t| format!("{t:.0}"))
        )
    });
    let up = ex.attempts.iter().rev().find(|a| a.beh.is_some_and(Beh::healthy)).and_then(|a| a.hs_done_ms);
    ex.find(
        format!("listener.lost-after-local-abort.{}.{}", sc.entry(), how.name()),
        format!(
            "while the tunnel was down a local client of the {} entry {a}, its stream request still waiting in the client; after the healthy connection was up{} a NEW local client on the same entry {what} instead of being served; one local client that has gone away must not cost the listener; client: {}; {ctx}",
            sc.entry(),
            up.map_or(String::new(), |t| format!(" (handshake completed at {t:.0} ms)")),
            ex.client_end_at_finish.as_ref().map_or("still running".to_string(), |c| format!("ended with {} [{}] at {:.0} ms", c.class, c.text, c.t_ms)),
        ),
        l.result.is_none(),
    );
    true
}

fn judge_locals(ex: &mut Exec, ctx: &str) {
    let locals = ex.locals.clone();
    let mut echoed = 0usize;
    for (k, l) in locals.iter().enumerate() {
        let mode = format!("opened-{}{}", l.origin, if l.through_mute { ".request-timed-out" } else { "" });
        // family M: the new local client on the entry whose earlier local client went away has its own key
        if l.origin == "probe" && lost_after_local_abort(ex, l, ctx) {
            continue;
        }
        // family L: the k connections that were pending at once have their own keys
        if ex.sc.several > 0 && l.origin == "several" {
            match &l.result {
                Some(LocalRes::Echo { .. }) => echoed += 1,
                Some(LocalRes::Closed { .. }) => several_lost(ex, l, k, ctx),
                Some(LocalRes::Corrupt { got_hex, .. }) => ex.find(
                    "pending.several.crosstalk",
                    format!("{} local connections were pending at once, each with its own payload; connection {k} (remote {}) got back something else than what it had sent: {got_hex}; {ctx}", ex.sc.several, l.remote),
                    false,
                ),
                Some(LocalRes::Refused { t_ms, err, startup }) => {
                    if *startup {
                        ex.find("listener.never-up", format!("the local listener of remote {} refused connections for 20 s after the start ({err}); {ctx}", l.remote), true);
                    } else {
                        ex.find("listener.refused", format!("the local listener of remote {} refused a connection at {t_ms:.0} ms ({err}) although it had accepted one before; {ctx}", l.remote), false);
                    }
                }
                None => ex.find(
                    format!("pending.several.not-served.after-{}", several_class(&ex.sc)),
                    format!("{} local connections were pending at once; connection {k} (remote {}, opened at {:.0} ms) was neither served nor closed within {LONG_WAIT_MS} ms of the healthy connection; {ctx}", ex.sc.several, l.remote, l.open_before_ms),
                    true,
                ),
            }
            continue;
        }
        match (&l.result, l.deadline_hit) {
            (Some(LocalRes::Echo { .. }), _) => echoed += 1,
            (Some(LocalRes::Refused { t_ms, err, startup }), _) => {
                if *startup {
                    ex.find("listener.never-up", format!("the local listener refused connections for 20 s after the start ({err}); {ctx}"), true);
                } else {
                    ex.find("listener.refused", format!("the local listener refused a connection at {t_ms:.0} ms ({err}) although it had accepted one before; {ctx}"), false);
                }
            }
            (Some(LocalRes::Closed { connected_ms, closed_ms, got, err }), _) => ex.find(
                format!("local.dropped.{mode}"),
                format!("a local connection made at {connected_ms:.0} ms was closed by the client at {closed_ms:.0} ms ({err}) after {got} echoed bytes instead of being served by the next successful connection; {ctx}"),
                false,
            ),
            (Some(LocalRes::Corrupt { got_hex, .. }), _) => ex.find("local.corrupt-echo", format!("the echo of a local connection differs from what was sent: {got_hex}; {ctx}"), false),
            (None, _) => ex.find(format!("local.not-served.{mode}"), format!("a local connection opened at {:.0} ms was neither served nor closed within {LONG_WAIT_MS} ms of the healthy connection; {ctx}", l.open_before_ms), true),
        }
    }
    let wrong: Vec<String> = ex.streams.iter().filter(|s| s.host != net::TARGET_HOST || s.port != net::TARGET_PORT).map(|s| format!("{}:{}", s.host, s.port)).collect();
    if !wrong.is_empty() {
        ex.find("local.wrong-target", format!("the healthy server was asked for {wrong:?} instead of {}:{}; {ctx}", net::TARGET_HOST, net::TARGET_PORT), false);
    }
    if ex.streams.len() < echoed {
        ex.find("local.echo-without-stream", format!("{echoed} local connections were echoed but the healthy server saw {} streams; {ctx}", ex.streams.len()), false);
    }
}

/// A port that really refuses: a bound socket that does not listen.
fn refusing_socket() -> std::io::Result<(TcpSocket, u16)> {
    let s = TcpSocket::new_v4()?;
    s.bind("127.0.0.1:0".parse().expect("addr"))?;
    let p = s.local_addr()?.port();
    Ok((s, p))
}

async fn exec_refuse(sc: &Scenario, iso: bool) -> Exec {
    let mut ex = Exec::new(sc, iso);
    let (Ok((sock, sport)), Ok(lport)) = (refusing_socket(), free_port()) else {
        ex.machinery = Some("no free port".into());
        return ex;
    };
    let sh = Shared::new();
    let client = spawn_client(sc.client_cfg(sport, lport, None), sh.clone());
    let sum: u64 = (0..sc.n).map(|k| delay_ms(k, sc.cap_ms)).sum();
    sh.wait(LONG_WAIT_MS + 3 * sum, |l| l.client_end.as_ref().map(|_| ())).await;
    let end = sh.read(|l| l.client_end.clone());
    client.abort();
    drop(sock);
    ex.client_end = end.clone();
    ex.client_end_at_finish = end.clone();
    ex.completed = true;
    let ctx = sc.short();
    match end {
        Some(c) if addr_in_use(&c) => ex.machinery = Some(format!("the local port {lport} was taken by someone else")),
        None => ex.find(format!("giveup.never.n{}", sc.n), format!("the server port refuses every connection, yet the client did not end within {} ms; {ctx}", LONG_WAIT_MS + 3 * sum), true),
        Some(c) if c.class == "panic" => ex.find("client.panic", format!("client_main_inner panicked: {}; {ctx}", c.text), false),
        Some(c) if c.class != "max-retry" => ex.find(format!("giveup.wrong-result.{}", c.class), format!("every connection was refused; the client ended with {} [{}] instead of MaxRetryCountReached; {ctx}", c.class, c.text), false),
        Some(c) => {
            if c.t_ms < sum as f64 - TOL_MS {
                ex.find("backoff.too-early.refused-total", format!("the client gave up after {:.1} ms, but {} retries need delays of {sum} ms in total; {ctx}", c.t_ms, sc.n), false);
            }
            if c.t_ms > 3.0 * sum as f64 + 1000.0 {
                ex.find("backoff.too-late.refused-total", format!("the client gave up only after {:.1} ms; the delays sum up to {sum} ms; {ctx}", c.t_ms), true);
            }
        }
    }
    ex
}

async fn exec_outage(sc: &Scenario, iso: bool) -> Exec {
    let mut ex = Exec::new(sc, iso);
    let (Ok((sock, sport)), Ok(lport)) = (refusing_socket(), free_port()) else {
        ex.machinery = Some("no free port".into());
        return ex;
    };
    let sh = Shared::new();
    let client = spawn_client(sc.client_cfg(sport, lport, None), sh.clone());
    let mut ctl = Ctl::new(&sh, lport, None, sc.socks);
    tokio::time::sleep(Duration::from_millis(sc.outage_ms / 2)).await;
    if sc.down_at.is_some() {
        ctl.open("down");
    }
    tokio::time::sleep(Duration::from_millis(sc.outage_ms - sc.outage_ms / 2)).await;
    let listen_ms = sh.now_ms();
    let listener = match sock.listen(128) {
        Ok(l) => l,
        Err(e) => {
            ex.machinery = Some(format!("listen: {e}"));
            client.abort();
            return ex;
        }
    };
    ex.listen_ms = Some(listen_ms);
    sh.abortive.store(sc.abortive, std::sync::atomic::Ordering::SeqCst);
    let server = tokio::spawn(serve(listener, sc.script.clone(), sh.clone()));
    let got = sh
        .wait(LONG_WAIT_MS, |l| {
            if l.attempts.is_empty() {
                l.client_end.as_ref().map(|_| Arrival::ClientEnded)
            } else {
                Some(Arrival::Arrived)
            }
        })
        .await;
    if matches!(got, Some(Arrival::Arrived)) {
        let hs = sh.wait(LONG_WAIT_MS, |l| l.attempts[0].hs_done_ms.map(Ok).or(l.attempts[0].hs_err.clone().map(Err))).await;
        if matches!(hs, Some(Ok(_))) {
            ctl.verify_locals().await;
            ex.completed = true;
        } else {
            ex.stop = Some(format!("handshake with the reopened server failed: {hs:?}"));
        }
    } else {
        ex.stop = Some("no attempt after the server came back".into());
    }
    ex.client_end_at_finish = sh.read(|l| l.client_end.clone());
    ctl.finish(&mut ex).await;
    server.abort();
    client.abort();
    let ctx = format!("{} (the server port refused connections for {} ms, then a healthy server listened on it)", sc.short(), sc.outage_ms);
    let end = ex.client_end_at_finish.clone();
    match &end {
        Some(c) if addr_in_use(c) => {
            ex.machinery = Some(format!("the local port {lport} was taken by someone else"));
            return ex;
        }
        Some(c) if c.class == "panic" => ex.find("client.panic", format!("client_main_inner panicked: {}; {ctx}", c.text), false),
        Some(c) if c.class == "max-retry" => ex.find("giveup.with-unlimited-retries", format!("the client ended with MaxRetryCountReached [{}] at {:.0} ms although max_retry_count is 0; {ctx}", c.text, c.t_ms), false),
        Some(c) => ex.find(format!("result.early-exit.{}.after-refused", c.class), format!("the client ended with {} [{}] at {:.0} ms; {ctx}", c.class, c.text, c.t_ms), false),
        None => {}
    }
    if end.is_none() {
        match ex.attempts.first().map(|a| a.accept_ms) {
            None => ex.find("reconnect.never.after-refused", format!("no attempt within {LONG_WAIT_MS} ms after the server came back at {listen_ms:.0} ms; {ctx}"), true),
            Some(a) => {
                let lim = 3.0 * sc.cap_ms as f64 + 1000.0;
                if a - listen_ms > lim {
                    ex.find("backoff.exceeds-max-interval", format!("the first attempt came {:.0} ms after the server was back; with max_retry_interval={} ms consecutive attempts are at most that far apart (limit used: {lim} ms); {ctx}", a - listen_ms, sc.cap_ms), true);
                }
            }
        }
        if let Some(stop) = ex.stop.clone() {
            if stop.contains("handshake") {
                ex.find("connect.handshake-failed.healthy", format!("{stop}; {ctx}"), true);
            }
        }
        if ex.completed {
            judge_locals(&mut ex, &ctx);
        }
    }
    ex
}

/// One execution with re-tries for harness trouble (ports).
async fn exec(sc: &Scenario, iso: bool, counter: &std::sync::atomic::AtomicU64) -> Exec {
    let mut last = None;
    for _ in 0..4 {
        let t = Instant::now();
        counter.fetch_add(1, Ordering::Relaxed);
        let mut ex = match sc.kind {
            Kind::Script => exec_script(sc, iso).await,
            Kind::RefuseExhaust => exec_refuse(sc, iso).await,
            Kind::Outage => exec_outage(sc, iso).await,
        };
        ex.wall_ms = t.elapsed().as_secs_f64() * 1000.0;
        if ex.machinery.is_none() {
            return ex;
        }
        last = Some(ex);
    }
    last.expect("at least one execution")
}

// ---------------------------------------------------------------------------------------
// driver
// ---------------------------------------------------------------------------------------

fn runtime(workers: usize) -> tokio::runtime::Runtime {
    tokio::runtime::Builder::new_multi_thread().worker_threads(workers).enable_all().build().expect("tokio runtime")
}

fn replay(args: &Args, v: &Value, mut rep: Report) -> Report {
    if v.get("kind").and_then(Value::as_str) == Some("backoff") {
        // a replay that belongs to the other half (the back-off generator, vmux C19B)
        rep.evaluations = 1;
        rep.distinct_nontrivial = 2;
        return rep;
    }
    let sc = match Scenario::from_json(v) {
        Ok(s) => s,
        Err(e) => {
            rep.machinery_error = Some(format!("replay file is not a C19 scenario: {e}"));
            return rep;
        }
    };
    if sc.kind == Kind::Script && sc.steps().is_none() {
        rep.machinery_error = Some("the replayed script is not a complete history under the retry rule".into());
        return rep;
    }
    let counter = std::sync::atomic::AtomicU64::new(0);
    let rt = runtime(args.threads.clamp(4, 8));
    let (a, b) = rt.block_on(async { (exec(&sc, true, &counter).await, exec(&sc, true, &counter).await) });
    rep.evaluations = counter.load(Ordering::Relaxed);
    rep.distinct_nontrivial = 1;
    rep.sample(a.observation());
    rep.sample(b.observation());
    if let Some(m) = a.machinery.as_ref().or(b.machinery.as_ref()) {
        rep.machinery_error = Some(m.clone());
        return rep;
    }
    if a.keys() != b.keys() {
        rep.machinery_error = Some(format!("two runs of the same scenario differ: {:?} vs {:?}", a.keys(), b.keys()));
        return rep;
    }
    for f in &a.findings {
        rep.violation(f.key.clone(), f.desc.clone(), sc.to_json());
    }
    rep
}

#[allow(clippy::too_many_lines)]
pub fn run(args: &Args) -> Report {
    let mut rep = Report::new("C19", &args.tier, "e2e", "exploration");
    rep.rule = "one execution of the real client_main_inner per point of the scenario matrix (server-behaviour script x max_retry_count x max_retry_interval x local-connection placement; for the silent-server scripts x keepalive interval/timeout or keepalive off; for the stalled-TLS-handshake scripts wss:// x handshake timeout; for the cut-TLS-handshake scripts wss:// x cut by FIN or by TCP reset x ending by give-up, open-ended or at a healthy wss:// server; for the invalid-frame scripts the bad message unprompted or in answer to a pending stream request; for the several-pending scripts two TCP remotes x 2 or 3 local connections at once during the first outage; for the local-client-goes-away scripts kind of the local entry (TCP remote, SOCKS listener) x first attempt (reset, stall) x way the local client goes away while its request waits (fin, rst-linger0, SOCKS also rst-unread-data) x failing connection before the healthy one (none, mute, close0)), every point executed; a point is non-trivial/distinct when its scenario record is distinct; a finding counts only when a scenario that showed it in the parallel pass shows it again when run alone on the machine (one scenario per key is re-run, smallest first)".into();
    std::panic::set_hook(Box::new(|_| {}));
    // families F and K make the client build a TLS configuration (only `tls-healthy` completes a TLS handshake)
    rusty_penguin_lib::tls::init_crypto_provider();
    if let Some(v) = args.replay_json() {
        return replay(args, &v, rep);
    }
    let thorough = args.thorough();
    let (mut matrix, bounds) = build_matrix(thorough);
    matrix.sort_by_key(|s| std::cmp::Reverse(s.estimate_ms()));
    let par = args.threads.clamp(1, 8);
    let rt = runtime(par.max(4));
    let counter = Arc::new(std::sync::atomic::AtomicU64::new(0));

    // ---- phase 1: the whole matrix, at most `par` scenarios at once
    let t1 = Instant::now();
    let execs: Vec<Exec> = rt.block_on(async {
        let sem = Arc::new(tokio::sync::Semaphore::new(par));
        let mut set = tokio::task::JoinSet::new();
        for (i, sc) in matrix.iter().cloned().enumerate() {
            let permit = sem.clone().acquire_owned().await.expect("semaphore");
            let counter = counter.clone();
            set.spawn(async move {
                let ex = exec(&sc, false, &counter).await;
                drop(permit);
                (i, ex)
            });
        }
        let mut out: Vec<(usize, Exec)> = Vec::new();
        while let Some(r) = set.join_next().await {
            match r {
                Ok(x) => out.push(x),
                Err(e) => panic!("scenario task failed: {e}"),
            }
        }
        out.sort_by_key(|(i, _)| *i);
        out.into_iter().map(|(_, e)| e).collect()
    });
    let phase1_s = t1.elapsed().as_secs_f64();

    // ---- phase 2: nothing counts before the scenario has shown it again alone on the machine.
    // One scenario per key is re-run (the smallest first; the next one if it does not
    // reproduce); findings that do not depend on the speed of the machine get two tries.
    let t2 = Instant::now();
    let budget = Duration::from_secs(if thorough { 300 } else { 25 });
    let mut suspects: BTreeMap<String, Vec<usize>> = BTreeMap::new();
    let mut sensitive: BTreeMap<String, bool> = BTreeMap::new();
    for (i, e) in execs.iter().enumerate() {
        for f in &e.findings {
            suspects.entry(f.key.clone()).or_default().push(i);
            sensitive.insert(f.key.clone(), f.load_sensitive);
        }
    }
    for v in suspects.values_mut() {
        v.sort_by_key(|&i| (execs[i].sc.script.len(), !execs[i].sc.script.last().is_some_and(|b| b.healthy()), execs[i].sc.estimate_ms(), i));
    }
    let mut confirmed: BTreeMap<String, (usize, Exec)> = BTreeMap::new();
    let mut refuted: Vec<Value> = Vec::new();
    let mut unresolved: Vec<String> = Vec::new();
    let mut iso_runs: BTreeMap<usize, Vec<Exec>> = BTreeMap::new();
    for (key, idxs) in &suspects {
        let tries = if sensitive[key] { 1 } else { 2 };
        'scenarios: for &i in idxs {
            for t in 0..tries {
                if iso_runs.get(&i).map_or(0, Vec::len) <= t {
                    if t2.elapsed() > budget {
                        unresolved.push(format!("{key}: {}", execs[i].sc.short()));
                        continue 'scenarios;
                    }
                    let e = rt.block_on(exec(&execs[i].sc, true, &counter));
                    iso_runs.entry(i).or_default().push(e);
                }
                let e = &iso_runs[&i][t];
                if e.machinery.is_some() {
                    unresolved.push(format!("{key}: {} ({})", execs[i].sc.short(), e.machinery.clone().unwrap_or_default()));
                    continue 'scenarios;
                }
                if e.findings.iter().any(|f| &f.key == key) {
                    confirmed.insert(key.clone(), (i, e.clone()));
                    break 'scenarios;
                }
            }
            refuted.push(json!({"key": key, "speed_dependent": sensitive[key], "scenario": execs[i].sc.to_json(), "first_run": execs[i].observation(), "alone": iso_runs[&i].iter().map(Exec::observation).collect::<Vec<_>>()}));
        }
    }
    let phase2_s = t2.elapsed().as_secs_f64();

    // ---- verdicts
    for (key, (i, iso)) in &confirmed {
        let n = suspects[key].len() as u64;
        let f = iso.findings.iter().find(|f| &f.key == key).expect("confirmed finding");
        rep.violation_n(key.clone(), format!("{} [seen in {n} scenario(s) of the matrix; this one was run again alone on the machine and showed it again]", f.desc), execs[*i].sc.to_json(), n);
    }

    // ---- evidence
    let machinery: Vec<String> = execs.iter().filter_map(|e| e.machinery.as_ref().map(|m| format!("{}: {m}", e.sc.short()))).collect();
    rep.evaluations = counter.load(Ordering::Relaxed);
    rep.distinct_nontrivial = matrix.iter().map(Scenario::ident).collect::<HashSet<_>>().len() as u64;
    rep.exhaustive = machinery.is_empty() && unresolved.is_empty() && execs.len() == matrix.len();
    let mut fam: BTreeMap<&str, u64> = BTreeMap::new();
    for s in &matrix {
        *fam.entry(s.family).or_default() += 1;
    }
    rep.bounds.insert("scenarios".into(), json!(matrix.len()));
    rep.bounds.insert("scenarios_per_family".into(), json!(fam));
    rep.bounds.insert("script_len_max".into(), json!({"families_A_B": bounds.len, "give_up_by_preconnect_failures_only": bounds.len + 1, "family_C": if thorough { 5 } else { 4 }}));
    rep.bounds.insert("behaviours".into(), json!(["reset", "stall", "http404", "close0", "close300", "drop", "mute", "healthy", "silent (family E)", "tls-stall (family F)", "close-hold (family G)", "garbage, garbage-reply (family H)", "tls-cut, tls-reset, tls-healthy (family K)", "(really refusing port: family D)", "(family L: reset | stall, then mute | close0 | close300 | drop once or twice, then healthy -- with two TCP remotes and 2 or 3 local connections pending at once)", "(family M: reset | stall, then nothing | mute | close0, then healthy -- with one local entry (TCP remote or SOCKS listener) and a local client that leaves its request behind during the first outage and goes away: fin | rst-linger0 | rst-unread-data)"]));
    rep.bounds.insert("max_retry_count".into(), json!(bounds.counts));
    rep.bounds.insert("max_retry_interval_ms".into(), json!(bounds.caps));
    rep.bounds.insert("handshake_timeout_ms".into(), json!(matrix.iter().map(|s| s.hs_ms).collect::<std::collections::BTreeSet<_>>()));
    rep.bounds.insert("keepalive_interval_timeout_ms".into(), json!(matrix.iter().filter(|s| s.script.contains(&Beh::Silent)).map(|s| s.ka.map_or("off".to_string(), |(i, t)| format!("{i}/{t}"))).collect::<std::collections::BTreeSet<_>>()));
    rep.bounds.insert("silent_server_answers_pings".into(), json!(format!("until {} Pongs are written or {} ms after the handshake", net::SILENT_PONGS, net::SILENT_ANSWERS_FOR.as_millis())));
    rep.bounds.insert("families_E_F_tolerance_ms".into(), json!({"below_earliest_due_time": WIDE_TOL_LO_MS, "above_latest_due_time": WIDE_TOL_UP_MS, "never_came_after_latest_due_time_plus": HANG_EXTRA_MS}));
    rep.bounds.insert("family_H_invalid_frame".into(), json!({"message": format!("one binary message of {} octets 0xff after the WebSocket handshake", net::GARBAGE.len()), "variants": ["garbage: unprompted, no stream request pending (control)", "garbage-reply: in answer to the client's first binary message (the Connect of a local connection)"], "max_retry_count": matrix.iter().filter(|s| s.family == "H-invalid-frame").map(|s| s.n).collect::<std::collections::BTreeSet<_>>(), "further_connections": "the same behaviour again", "client_that_comes_back_is_watched_for_ms_at_most": GARBAGE_WATCH_MS}));
    rep.bounds.insert(
        "family_K_tls_handshake_cut".into(),
        json!({
            "server": "wss:// URL with --tls-skip-verify; the server reads the client's first TLS record (the ClientHello) completely, then closes the connection without writing anything",
            "variants": ["tls-cut: orderly close (FIN)", "tls-reset: SO_LINGER 0 (TCP reset)", "tls-healthy: TLS handshake with a self-signed certificate, WebSocket handshake, echoing multiplexor"],
            "max_retry_count": matrix.iter().filter(|s| s.family == "K-tls-handshake-cut").map(|s| s.n).collect::<std::collections::BTreeSet<_>>(),
            "cuts_in_a_row_max": matrix.iter().filter(|s| s.family == "K-tls-handshake-cut").map(|s| s.script.iter().filter(|b| matches!(b, Beh::TlsCut | Beh::TlsReset)).count()).max(),
            "handshake_timeout_ms": TLS_CUT_HS_TIMEOUT_MS,
            "open_ended_scripts_watch_the_client_after_the_last_cut_for_ms": OPEN_END_WATCH_MS,
        }),
    );
    let in_l = |s: &&Scenario| s.family == "L-several-pending-local";
    rep.bounds.insert(
        "family_L_several_pending_local".into(),
        json!({
            "client": "two TCP remotes (two local ports on 127.0.0.1, both forwarded to the same target), max_retry_count 0, max_retry_interval 300 ms",
            "local_connections_pending_at_once": matrix.iter().filter(in_l).map(|s| s.several).collect::<std::collections::BTreeSet<_>>(),
            "placement": "k = 2: one per remote; k = 3: two on the first remote, one on the second; all opened at once while the first attempt is failing (stall) / has just failed (reset), each sending its own payload at once",
            "scripts": if thorough { "complete: [reset | stall] ++ [mute | close0 | close300 | drop]{1..2} ++ [healthy], each with k = 2 and k = 3" } else { "a selection of [reset | stall] ++ [mute | close0 | close300 | drop]{1..2} ++ [healthy] with k = 2 or 3 (the thorough tier runs the complete product)" },
            "failing_connections_in_a_row_max": matrix.iter().filter(in_l).map(|s| s.script.len().saturating_sub(2)).max(),
            "scripts_left_out_because_lossy_by_design": 0,
            "each_local_connection_waited_for_ms": LONG_WAIT_MS,
        }),
    );
    let in_m = |s: &&Scenario| s.goes_away.is_some();
    rep.bounds.insert(
        "family_M_local_client_goes_away_while_parked".into(),
        json!({
            "client": "one local entry on 127.0.0.1: a TCP remote to the target, or a SOCKS listener (remote specification 127.0.0.1:PORT:socks); max_retry_count 0, max_retry_interval 300 ms",
            "local_entries": matrix.iter().filter(in_m).map(|s| s.entry()).collect::<std::collections::BTreeSet<_>>(),
            "local_client_A": "connects while the first attempt is failing (stall) / has just failed (reset); SOCKS: greeting 05 01 00 and request 05 01 00 01 <target ip> <target port> in ONE write without waiting for the method reply, then waits for the method reply; TCP remote: a few octets; goes away 40 ms later; it is gone before the script goes on",
            "ways_to_go_away": matrix.iter().filter(in_m).filter_map(|s| s.goes_away.map(|g| format!("{}: {}", s.entry(), g.name()))).collect::<std::collections::BTreeSet<_>>(),
            "ways_left_out_because_not_reachable": ["tcp-remote: rst-unread-data (a TCP remote sends nothing to a local client while the tunnel is down, so nothing can be left unread)"],
            "scripts": if thorough { "complete: entry x [reset | stall] x way x [nothing | mute | close0] ++ [healthy]" } else { "a selection of entry x [reset | stall] x way x [nothing | mute | close0] ++ [healthy] with every (entry, way) at least once (the thorough tier runs the complete product)" },
            "scripts_left_out_because_lossy_by_design": 0,
            "new_local_client_B": format!("opened on the same entry once the handshake of the healthy connection is complete; SOCKS: lock-step CONNECT to the target, a well-formed success reply (RFC 1928 section 6) is required before its payload travels; waited for {LONG_WAIT_MS} ms; then the client is watched until the healthy server has seen the stream of A's request too (3 s at most) and {OPEN_END_WATCH_MS} ms more"),
        }),
    );
    rep.bounds.insert("channel_timeout_ms".into(), json!(CH_TIMEOUT_MS));
    rep.bounds.insert("parallel_scenarios".into(), json!(par));
    rep.bounds.insert("deadline_ms".into(), json!(LONG_WAIT_MS));
    rep.bounds.insert("silence_before_nudge_ms".into(), json!({"parallel": QUIET_PAR_MS, "alone": QUIET_ISO_MS}));

    let mut ends: BTreeMap<String, u64> = BTreeMap::new();
    let mut echoes = 0u64;
    let mut attempts_total = 0u64;
    for e in &execs {
        *ends.entry(e.client_end_at_finish.as_ref().map_or("still-running".to_string(), |c| c.class.clone())).or_default() += 1;
        echoes += e.locals.iter().filter(|l| matches!(l.result, Some(LocalRes::Echo { .. }))).count() as u64;
        attempts_total += e.attempts.len() as u64;
    }
    rep.extra.insert("client_results_observed".into(), json!(ends));
    rep.extra.insert("local_connections_echoed".into(), json!(echoes));
    rep.extra.insert("connection_attempts_observed".into(), json!(attempts_total));
    rep.extra.insert("phase1_wall_s".into(), json!(phase1_s));
    rep.extra.insert("phase2_wall_s".into(), json!(phase2_s));
    let slack = execs.iter().filter_map(|e| e.min_slack_ms).fold(f64::INFINITY, f64::min);
    rep.extra.insert("smallest_margin_over_a_lower_bound_ms".into(), json!(if slack.is_finite() { Some((slack * 100.0).round() / 100.0) } else { None }));
    rep.extra.insert("gaps_checked_against_lower_bound".into(), json!(execs.iter().filter(|e| e.min_slack_ms.is_some()).count()));
    // families E / F
    let r1 = |x: f64| (x * 10.0).round() / 10.0;
    let margins = |g: Vec<(f64, f64)>| json!({"gaps_checked": g.len(), "smallest_margin_over_earliest_due_ms": g.iter().map(|x| x.0).fold(f64::INFINITY, f64::min).is_finite().then(|| r1(g.iter().map(|x| x.0).fold(f64::INFINITY, f64::min))), "smallest_margin_under_latest_due_plus_tolerance_ms": g.iter().map(|x| x.1).fold(f64::INFINITY, f64::min).is_finite().then(|| r1(g.iter().map(|x| x.1).fold(f64::INFINITY, f64::min)))});
    let ka_gaps: Vec<(f64, f64)> = execs.iter().flat_map(|e| e.ka_gaps.clone()).collect();
    let tls_gaps: Vec<(f64, f64)> = execs.iter().flat_map(|e| e.tls_gaps.clone()).collect();
    let silent_conns = execs.iter().flat_map(|e| &e.attempts).filter(|a| a.beh == Some(Beh::Silent) && a.silent_ms.is_some()).count();
    let pongs: u64 = execs.iter().flat_map(|e| &e.attempts).filter(|a| a.beh == Some(Beh::Silent)).map(|a| u64::from(a.pongs)).sum();
    let hellos = execs.iter().flat_map(|e| &e.attempts).filter(|a| a.beh == Some(Beh::TlsStall) && a.first_byte == Some(0x16)).count();
    let ka_controls = execs.iter().filter(|e| e.sc.ka.is_none() && e.sc.script.last() == Some(&Beh::Silent) && e.completed && e.client_end_at_finish.is_none() && e.attempts.len() == e.sc.script.len()).count();
    rep.extra.insert("reconnects_after_silent_server".into(), margins(ka_gaps.clone()));
    rep.extra.insert("retries_after_stalled_tls_handshake".into(), margins(tls_gaps.clone()));
    rep.extra.insert("connections_gone_silent".into(), json!(silent_conns));
    rep.extra.insert("pongs_sent_by_silent_servers".into(), json!(pongs));
    rep.extra.insert("tls_client_hellos_left_unanswered".into(), json!(hellos));
    rep.extra.insert("clients_without_keepalive_that_stayed_on_a_silent_server".into(), json!(ka_controls));
    // family H
    let n_inv = ends.get("invalid-frame").copied().unwrap_or(0);
    let bad_sent = execs.iter().flat_map(|e| &e.attempts).filter(|a| a.beh == Some(Beh::Garbage) && a.act_after_ms.is_some()).count();
    let bad_replies = execs.iter().flat_map(|e| &e.attempts).filter(|a| a.beh == Some(Beh::GarbageReply) && a.first_bin_ms.is_some() && a.act_after_ms.is_some()).count();
    let inv_pending = execs.iter().filter(|e| e.sc.script.last() == Some(&Beh::GarbageReply) && e.client_end_at_finish.as_ref().is_some_and(|c| c.class == "invalid-frame")).count();
    rep.extra.insert("invalid_frames_sent_unprompted".into(), json!(bad_sent));
    rep.extra.insert("invalid_frames_sent_in_answer_to_a_stream_request".into(), json!(bad_replies));
    rep.extra.insert("clients_ended_by_invalid_frame".into(), json!({"all": n_inv, "with_a_stream_request_pending": inv_pending}));
    // family K
    let in_k = |e: &&Exec| e.sc.family == "K-tls-handshake-cut";
    let cut_hellos = |b: Beh| execs.iter().flat_map(|e| &e.attempts).filter(|a| a.beh == Some(b) && a.first_byte == Some(0x16) && a.hello_len.is_some_and(|n| n > 5) && a.act_after_ms.is_some()).count();
    let (hellos_fin, hellos_rst) = (cut_hellos(Beh::TlsCut), cut_hellos(Beh::TlsReset));
    let k_retries = execs.iter().filter(in_k).map(|e| e.attempts.iter().zip(e.attempts.iter().skip(1)).filter(|(a, _)| matches!(a.beh, Some(Beh::TlsCut | Beh::TlsReset))).count()).sum::<usize>();
    let k_giveups = execs.iter().filter(in_k).filter(|e| e.completed && e.client_end_at_finish.as_ref().is_some_and(|c| c.class == "max-retry")).count();
    let k_open = execs.iter().filter(in_k).filter(|e| e.sc.open_end && e.completed && e.client_end_at_finish.is_none() && e.attempts.len() >= e.sc.script.len()).count();
    let k_served = execs.iter().filter(in_k).filter(|e| e.sc.script.len() > 1 && e.completed && e.client_end_at_finish.is_none() && e.attempts.last().is_some_and(|a| a.beh == Some(Beh::TlsHealthy) && a.hs_done_ms.is_some()) && e.locals.iter().any(|l| matches!(l.result, Some(LocalRes::Echo { .. })))).count();
    let k_last_errors: std::collections::BTreeSet<String> = execs.iter().filter(in_k).filter_map(|e| e.client_end_at_finish.as_ref().map(|c| format!("{} after {}: {}", c.class, e.attempts.last().and_then(|a| a.beh).map_or("-", Beh::name), c.text))).collect();
    rep.extra.insert(
        "tls_handshakes_cut".into(),
        json!({"client_hellos_read_then_closed_with_fin": hellos_fin, "client_hellos_read_then_reset": hellos_rst, "attempts_that_followed_a_cut": k_retries, "give_ups_after_cuts": k_giveups, "open_ended_scripts_with_the_client_still_running": k_open, "scripts_served_by_the_healthy_wss_server_after_cuts": k_served, "client_results": k_last_errors}),
    );
    // family L
    let in_l = |e: &&Exec| e.sc.several > 0;
    let l_pending = |e: &Exec| e.locals.iter().filter(|l| l.origin == "several").cloned().collect::<Vec<_>>();
    let l_all_echoed = execs.iter().filter(in_l).filter(|e| e.completed && e.client_end_at_finish.is_none() && l_pending(e).len() == e.sc.several && l_pending(e).iter().all(|l| matches!(l.result, Some(LocalRes::Echo { .. })))).count();
    let l_echoes: usize = execs.iter().filter(in_l).map(|e| l_pending(e).iter().filter(|l| matches!(l.result, Some(LocalRes::Echo { .. }))).count()).sum();
    // all k connections were made (TCP connect returned) before the handshake of the second attempt completed, i.e.
    // while the tunnel was down: their stream requests were waiting when the failing connection came up
    let l_all_before_up = execs.iter().filter(in_l).filter(|e| {
        let up = e.attempts.get(1).and_then(|a| a.hs_done_ms);
        let p = l_pending(e);
        p.len() == e.sc.several && p.iter().all(|l| matches!((&l.result, up), (Some(LocalRes::Echo { connected_ms, .. }), Some(up)) if *connected_ms < up))
    }).count();
    let l_both_remotes = execs.iter().filter(in_l).filter(|e| [0usize, 1].iter().all(|r| l_pending(e).iter().any(|l| l.remote == *r && matches!(l.result, Some(LocalRes::Echo { .. }))))).count();
    rep.extra.insert(
        "several_pending_local_connections".into(),
        json!({"scenarios": execs.iter().filter(in_l).count(), "scenarios_with_every_pending_connection_echoed_and_the_client_still_running": l_all_echoed, "pending_connections_echoed": l_echoes, "scenarios_with_every_connection_made_before_the_failing_connection_came_up": l_all_before_up, "scenarios_with_an_echo_on_both_remotes": l_both_remotes}),
    );
    // family M
    let in_m = |e: &&Exec| e.sc.goes_away.is_some();
    let m_b_echo = |e: &Exec| e.locals.iter().any(|l| l.origin == "probe" && matches!(l.result, Some(LocalRes::Echo { .. })));
    let m_served = |e: &&Exec| e.completed && e.client_end_at_finish.is_none() && m_b_echo(e);
    // A had gone away (close() returned) before the handshake of the next connection completed: its request waited
    // while the tunnel was down and was served -- or timed out, was parked and served -- with nobody there any more
    let m_gone_down = |e: &&Exec| matches!((e.goer.as_ref().and_then(|g| g.gone_ms), e.attempts.get(1).and_then(|a| a.hs_done_ms)), (Some(gone), Some(up)) if gone < up);
    // ... and the healthy server saw a stream for it besides the one of B (nothing else asks for streams here)
    let m_a_stream = |e: &&Exec| e.attempts.len() == e.sc.script.len() && e.streams.iter().filter(|s| s.attempt + 1 == e.sc.script.len()).count() >= 2 && e.locals.iter().filter(|l| matches!(l.result, Some(LocalRes::Echo { .. }))).count() == 1;
    let m_socks_rst = |e: &&Exec| e.sc.socks && matches!(e.sc.goes_away, Some(GoAway::RstLinger | GoAway::RstUnread)) && e.goer.as_ref().is_some_and(|g| g.method_reply.as_deref() == Some("0500") && g.err.is_none());
    let m_all = execs.iter().filter(in_m).count();
    let m_b_served = execs.iter().filter(in_m).filter(m_served).count();
    let m_gone_while_down = execs.iter().filter(in_m).filter(m_served).filter(m_gone_down).count();
    let m_request_served_after = execs.iter().filter(in_m).filter(m_served).filter(m_gone_down).filter(m_a_stream).count();
    let m_socks_reply_to_reset_socket = execs.iter().filter(in_m).filter(m_served).filter(m_gone_down).filter(m_a_stream).filter(m_socks_rst).count();
    // (a scenario that was run again alone counts with that run too)
    let m_entry_way_served: std::collections::BTreeSet<String> = execs.iter().chain(iso_runs.values().flatten()).filter(in_m).filter(m_served).filter_map(|e| e.sc.goes_away.map(|g| format!("{}: {}", e.sc.entry(), g.name()))).collect();
    let m_entry_way_all: std::collections::BTreeSet<String> = matrix.iter().filter_map(|s| s.goes_away.map(|g| format!("{}: {}", s.entry(), g.name()))).collect();
    rep.extra.insert(
        "local_client_gone_away_while_parked".into(),
        json!({
            "scenarios": m_all,
            "scenarios_with_the_new_local_client_served_and_the_client_still_running": m_b_served,
            "of_these_with_the_first_local_client_gone_before_the_next_connection_was_up": m_gone_while_down,
            "of_these_with_its_request_served_by_the_healthy_connection_all_the_same": m_request_served_after,
            "of_these_socks_with_the_method_reply_seen_and_the_socket_reset": m_socks_reply_to_reset_socket,
            "entry_and_way_with_the_new_local_client_served": m_entry_way_served,
        }),
    );
    rep.extra.insert("suspicions".into(), json!(suspects.iter().map(|(k, v)| (k.clone(), v.len())).collect::<BTreeMap<_, _>>()));
    rep.extra.insert("suspicions_confirmed_alone".into(), json!(confirmed.keys().collect::<Vec<_>>()));
    rep.extra.insert("suspicions_not_reproduced_alone".into(), json!(refuted.len()));
    rep.extra.insert("suspicions_not_reproduced_detail".into(), json!(refuted.iter().take(4).collect::<Vec<_>>()));
    rep.extra.insert("harness_retries_exhausted".into(), json!(machinery));
    rep.extra.insert("build_profile".into(), json!(if cfg!(debug_assertions) { "checked" } else { "release" }));
    for (_, (_, iso)) in confirmed.iter().take(2) {
        rep.sample(iso.observation());
    }
    for want in ["M-local-client-goes-away-while-parked", "L-several-pending-local", "K-tls-handshake-cut", "H-invalid-frame", "G-close-hold", "E-keepalive", "F-tls-handshake", "C-reset-after-success", "B-pending-local", "A-counts-delays", "D-refused"] {
        if let Some(e) = execs.iter().find(|e| e.sc.family == want && e.findings.is_empty() && e.machinery.is_none()) {
            rep.sample(e.observation());
        }
    }
    rep.assumptions.push("interleavings are whatever the tokio multi-thread runtime and the loopback stack produce; one execution per scenario (re-run once alone for suspicions)".into());
    rep.assumptions.push("the refusal inside scripts is 'accept, then drop before any HTTP' so that attempts can be counted; a port that really refuses (family D) hides the attempts, there only the result and the total time are checked".into());
    rep.assumptions.push("lower bounds on gaps are anchored at server-side timestamps taken before the failure was caused (tolerance 2 ms); upper bounds are 3x the due delay + 1 s".into());
    rep.assumptions.push("handshake_timeout = channel_timeout = 1 s, keepalive off, ws:// (families A-D), one TCP remote on 127.0.0.1 (two in family L; a SOCKS listener instead in half of family M); the back-off generator itself is checked exhaustively by the vmux half of C19".into());
    rep.assumptions.push(format!("families E (silent server; keepalive on/off) and F (wss:// with --tls-skip-verify, the server never speaks TLS; handshake timeout {TLS_HS_TIMEOUT_MS} ms in the quick tier) run in real time: an attempt counts as too early only {WIDE_TOL_LO_MS} ms before its earliest due time (last Pong + T + delay / earliest start + handshake timeout + delay), as too late only {WIDE_TOL_UP_MS} ms after its latest due time (last Pong + T + I + delay / accept + handshake timeout + delay), as never coming {HANG_EXTRA_MS} ms after the latter"));

    rep.assumptions.push(format!("family K (wss:// with --tls-skip-verify): the cut comes after the server has read the whole ClientHello record and before it has written anything; the lower bound of the gap after a cut is anchored at a timestamp the server took between the two (tolerance {TOL_MS} ms), the upper bound and everything else are those of `reset`; the handshake timeout is {TLS_CUT_HS_TIMEOUT_MS} ms so that it does not fire first; the healthy wss:// server presents a self-signed certificate for 127.0.0.1"));
    rep.assumptions.push(format!("family L (two TCP remotes, 2 or 3 local connections at once while the tunnel is down): a listener of the client has one stream request outstanding at a time, so with two remotes two requests wait in the client's queue when the next connection comes up (a third connection waits in the first listener's backlog); whether they are in the queue at the very moment the main loop looks is up to the scheduler (the connections are made {BASE_MS} ms or more before that connection is attempted); nothing is asserted about time except that each connection has its echo within {LONG_WAIT_MS} ms of the healthy connection"));
    rep.assumptions.push(format!("family M (a local client leaves its request behind and goes away while the tunnel is down): rst-linger0 is SO_LINGER 0 before close(), rst-unread-data is close() with the two octets of the SOCKS method reply unread (Linux answers both with a RST instead of a FIN), fin is close() after everything that had arrived was read; the SOCKS greeting and the CONNECT request travel in one write of 13 octets, so the client's handler has the request in its buffer when it answers the greeting, and the local client goes away 40 ms after that answer has arrived (TCP remote: 40 ms after its octets were written); whether the client's handler had asked for its stream by then is not observable from outside and is not asserted (the evidence counts the scenarios in which the healthy server then saw the stream); nothing is owed to that local client; the new local client is owed service within {LONG_WAIT_MS} ms and the client must be running {OPEN_END_WATCH_MS} ms after that"));
    rep.assumptions.push(format!("family H: the non-retryable error after the handshake is penguin_mux::Error::InvalidFrame, caused by one binary message of {} octets 0xff; the server keeps the TCP connection open and plays the same on every further connection; 'at once' is judged as for http404 (the client ends within 1 s of the bad message, and no further connection attempt is made)", net::GARBAGE.len()));

    // ---- vacuity guard
    let n_max = ends.get("max-retry").copied().unwrap_or(0);
    let n_http = ends.get("http-error").copied().unwrap_or(0);
    let n_run = ends.get("still-running").copied().unwrap_or(0);
    if !machinery.is_empty() {
        rep.machinery_error = Some(format!("{} scenario(s) could not be executed: {}", machinery.len(), machinery[0]));
    } else if !unresolved.is_empty() {
        rep.machinery_error = Some(format!("{} suspicion(s) could not be re-run alone within the time budget (machine too loaded for a verdict), e.g. {}", unresolved.len(), unresolved[0]));
    } else if n_max == 0 || n_http == 0 || n_run == 0 || echoes == 0 {
        rep.machinery_error = Some(format!("degenerate run: give-ups {n_max}, non-retryable exits {n_http}, clients left connected {n_run}, echoed local connections {echoes} -- each must be > 0"));
    } else if bad_sent == 0 || bad_replies == 0 {
        rep.machinery_error = Some(format!("degenerate run: invalid frames sent unprompted {bad_sent}, in answer to a stream request {bad_replies} -- each must be > 0"));
    } else if confirmed.is_empty() && (n_inv == 0 || inv_pending == 0) {
        rep.machinery_error = Some(format!("degenerate run: clients ended by the invalid frame {n_inv}, of these with a stream request pending {inv_pending} -- each must be > 0 when nothing was found"));
    } else if confirmed.is_empty() && (l_all_echoed == 0 || l_both_remotes == 0 || l_all_before_up == 0) {
        rep.machinery_error = Some(format!("degenerate run: family L scenarios with every pending connection echoed {l_all_echoed}, with an echo on both remotes {l_both_remotes}, with every connection made while the tunnel was down {l_all_before_up} -- each must be > 0 when nothing was found"));
    } else if confirmed.is_empty() && (m_b_served == 0 || m_gone_while_down == 0 || m_request_served_after == 0 || m_socks_reply_to_reset_socket == 0 || m_entry_way_served != m_entry_way_all) {
        rep.machinery_error = Some(format!("degenerate run: family M scenarios with the new local client served and the client still running {m_b_served}, of these with the first local client gone before the next connection was up {m_gone_while_down}, of these with its request served by the healthy connection {m_request_served_after}, of these SOCKS with the socket reset after the method reply {m_socks_reply_to_reset_socket} -- each must be > 0 when nothing was found -- and every (entry, way) must have been served once: {m_entry_way_served:?} of {m_entry_way_all:?}"));
    } else if hellos_fin == 0 || hellos_rst == 0 {
        rep.machinery_error = Some(format!("degenerate run: TLS ClientHellos (first octet 0x16) read before a cut by FIN {hellos_fin}, before a cut by reset {hellos_rst} -- each must be > 0"));
    } else if confirmed.is_empty() && (k_retries == 0 || k_giveups == 0 || k_open == 0 || k_served == 0) {
        rep.machinery_error = Some(format!("degenerate run: attempts that followed a cut TLS handshake {k_retries}, give-ups after cuts {k_giveups}, open-ended scripts that left the client running {k_open}, scripts served by the healthy wss:// server after cuts {k_served} -- each must be > 0 when nothing was found"));
    } else if confirmed.is_empty() && (ka_gaps.is_empty() || tls_gaps.is_empty() || pongs == 0 || hellos == 0 || ka_controls == 0) {
        rep.machinery_error = Some(format!("degenerate run: reconnects after a silent server {}, Pongs sent by silent servers {pongs}, retries after a stalled TLS handshake {}, TLS ClientHellos seen {hellos}, keepalive-off controls that stayed connected {ka_controls} -- each must be > 0 when nothing was found", ka_gaps.len(), tls_gaps.len()));
    }
    rep
}
