//! C16 demo: one keepalive tick that fires late makes the multiplexor declare a live
//! peer dead, although every single `Ping` is answered well within the timeout.
//!
//! Configuration: keepalive interval I = 1 s, keepalive timeout T = 1 s (what any timeout
//! up to the interval is clamped to); a second case uses T = 2.4 s (the 25 s / 60 s ratio
//! of the client's defaults) and a stall that covers two ticks.
//! Peer: answers every `Ping` with a `Pong` exactly RTT = 500 ms later (<= T), for ever.
//! Environment: the thread that runs the connection task is not scheduled between
//! t = 2.7 s and t = 3.75 s (a stalled process / a blocking call on the runtime thread).
//!
//! Run with:
//!   cargo test --offline -p penguin-mux --test keepalive_late_tick -- --nocapture
//
// SPDX-License-Identifier: Apache-2.0 OR GPL-3.0-or-later

use penguin_mux::config::Options;
use penguin_mux::timing::OptionalDuration;
use penguin_mux::ws::{Message, WebSocket};
use penguin_mux::{Error, Multiplexor};
use rand::SeedableRng;
use rand::rngs::SmallRng;
use std::sync::{Arc, Mutex};
use std::task::{Context, Poll};
use std::time::{Duration, Instant};
use tokio::sync::mpsc;

const INTERVAL: Duration = Duration::from_millis(1000);
/// T = I: what any `keepalive_timeout` up to the interval is clamped to.
const TIMEOUT_EQ: Duration = Duration::from_millis(1000);
/// T = 2.4 I: the ratio of the client's defaults (`--keepalive 25 --keepalive-timeout 60`).
const TIMEOUT_DEFAULT_RATIO: Duration = Duration::from_millis(2400);
const RTT: Duration = Duration::from_millis(500);

type Log = Arc<Mutex<Vec<(Duration, &'static str)>>>;

/// A transport whose far end is alive: it answers every `Ping` with a `Pong` after `RTT`
/// and otherwise stays quiet. Nothing is ever lost, reordered or refused.
struct LivePeer {
    incoming_tx: mpsc::UnboundedSender<Message>,
    incoming_rx: mpsc::UnboundedReceiver<Message>,
    start: Instant,
    log: Log,
}

impl LivePeer {
    fn new(start: Instant, log: Log) -> Self {
        let (incoming_tx, incoming_rx) = mpsc::unbounded_channel();
        Self {
            incoming_tx,
            incoming_rx,
            start,
            log,
        }
    }
}

impl WebSocket for LivePeer {
    fn poll_ready_unpin(&mut self, _cx: &mut Context<'_>) -> Poll<Result<(), Error>> {
        Poll::Ready(Ok(()))
    }

    fn start_send_unpin(&mut self, item: Message) -> Result<(), Error> {
        if item == Message::Ping {
            let sent_at = Instant::now();
            self.log
                .lock()
                .unwrap()
                .push((sent_at - self.start, "ping sent"));
            let tx = self.incoming_tx.clone();
            let log = self.log.clone();
            let start = self.start;
            tokio::spawn(async move {
                tokio::time::sleep_until((sent_at + RTT).into()).await;
                log.lock()
                    .unwrap()
                    .push((start.elapsed(), "pong delivered"));
                tx.send(Message::Pong).ok();
            });
        }
        Ok(())
    }

    fn poll_flush_unpin(&mut self, _cx: &mut Context<'_>) -> Poll<Result<(), Error>> {
        Poll::Ready(Ok(()))
    }

    fn poll_close_unpin(&mut self, _cx: &mut Context<'_>) -> Poll<Result<(), Error>> {
        Poll::Ready(Ok(()))
    }

    fn poll_next_unpin(&mut self, cx: &mut Context<'_>) -> Poll<Option<Result<Message, Error>>> {
        self.incoming_rx.poll_recv(cx).map(|m| m.map(Ok))
    }
}

fn dump(log: &Log) -> String {
    let mut out = String::new();
    for (at, what) in log.lock().unwrap().iter() {
        out.push_str(&format!("    t = {:>5} ms  {what}\n", at.as_millis()));
    }
    out
}

/// Runs the endpoint for `run_for` against the live peer; `stall` = (from, to) is a span
/// (relative to the start) during which the runtime thread is not scheduled at all.
async fn run(
    timeout: Duration,
    stall: Option<(Duration, Duration)>,
    run_for: Duration,
) -> (Option<String>, Log) {
    let log: Log = Arc::default();
    let start = Instant::now();
    let ws = LivePeer::new(start, log.clone());
    let options = Options::new()
        .keepalive_interval(OptionalDuration::from(INTERVAL))
        .keepalive_timeout(OptionalDuration::from(timeout));
    let (mux, taskdata) = Multiplexor::new_detailed::<_, Instant>(
        ws,
        options,
        SmallRng::seed_from_u64(16),
    );
    let mut task = tokio::spawn(taskdata.into_task());
    if let Some((from, to)) = stall {
        tokio::time::sleep_until((start + from).into()).await;
        // Nothing on this (current-thread) runtime runs while the thread is blocked:
        // no timer fires, no task is polled. The clock keeps running.
        std::thread::sleep((start + to).saturating_duration_since(Instant::now()));
        log.lock().unwrap().push((start.elapsed(), "stall ends"));
    }
    let outcome = tokio::time::timeout_at((start + run_for).into(), &mut task).await;
    let exit = match outcome {
        Err(_still_running) => None,
        Ok(joined) => Some(format!(
            "connection task exited at t = {} ms with {:?}",
            start.elapsed().as_millis(),
            joined.expect("task panicked")
        )),
    };
    drop(mux);
    (exit, log)
}

/// Control: the same peer, the same options, no stall. Holds on the unmodified tree; it
/// shows that the peer of this file is one "whose pings are each answered within T".
#[tokio::test]
async fn control_live_peer_on_time_ticks() {
    let (exit, log) = run(TIMEOUT_EQ, None, Duration::from_millis(5200)).await;
    println!("history:\n{}", dump(&log));
    assert!(exit.is_none(), "{}\nhistory:\n{}", exit.unwrap(), dump(&log));
}

/// The tick due at t = 3 s fires at t = 3.75 s. Every `Ping` is still answered 500 ms
/// after it was sent, so the connection must survive.
#[tokio::test]
async fn live_peer_survives_one_late_tick() {
    let stall = (Duration::from_millis(2700), Duration::from_millis(3750));
    let (exit, log) = run(TIMEOUT_EQ, Some(stall), Duration::from_millis(7200)).await;
    println!("history:\n{}", dump(&log));
    assert!(
        exit.is_none(),
        "a peer that answered every Ping within {RTT:?} (timeout {TIMEOUT_EQ:?}) was declared dead: {}\nhistory:\n{}",
        exit.unwrap(),
        dump(&log)
    );
}

/// A timeout well above the interval does not help: with T = 2.4 I the ticks due at
/// t = 3 s and t = 4 s are both missed (the first of them fires at t = 4.75 s).
#[tokio::test]
async fn live_peer_survives_two_missed_ticks_default_ratio() {
    let stall = (Duration::from_millis(2700), Duration::from_millis(4750));
    let (exit, log) = run(
        TIMEOUT_DEFAULT_RATIO,
        Some(stall),
        Duration::from_millis(8200),
    )
    .await;
    println!("history:\n{}", dump(&log));
    assert!(
        exit.is_none(),
        "a peer that answered every Ping within {RTT:?} (timeout {TIMEOUT_DEFAULT_RATIO:?}) was declared dead: {}\nhistory:\n{}",
        exit.unwrap(),
        dump(&log)
    );
}
