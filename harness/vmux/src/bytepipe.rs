//! In-memory BYTE pipe (one `AsyncRead + AsyncWrite` object per endpoint) to put a REAL
//! `tokio_tungstenite::WebSocketStream` -- and with it the crate's real tungstenite adapter
//! (`penguin-mux/src/ws.rs`) and tungstenite's own close / end-of-file / error semantics -- under the explorer.
//!
//! Per direction (`A` writes on direction 0, `B` on direction 1):
//! * bytes accepted by `poll_write` are *in flight*; one explorer step `deliver(d)` moves EVERYTHING in flight
//!   on `d` (and an end-of-file marker queued behind it) to the reader's side and wakes the reader;
//! * `poll_write` accepts at most `cap - (in flight + unread)` bytes and is `Pending` when that is 0; the writer is
//!   woken when the reader consumes (TCP send + receive buffer);
//! * faults: `eof` = the sending side of the direction is closed (FIN): the reader sees end of file behind what
//!   was sent before, later writes of the sender fail with `BrokenPipe`; `reset` = everything buffered is
//!   discarded, the reader gets `ConnectionReset`, writes fail with `ConnectionReset`; `stall` = a silent loss:
//!   nothing is delivered any more, nobody is told, and once the capacity is used up `poll_write` / `poll_flush`
//!   of the writer stay `Pending` for ever;
//! * dropping an endpoint closes the socket: FIN on its own direction, writes of the peer towards it fail with
//!   `BrokenPipe` (unless that direction is stalled: then the peer cannot learn about it).
//! Which endpoint has been TOLD about the end of the connection (a read returned end of file or an error, a
//! write / flush returned an error) is recorded in `told`: only such an endpoint can be expected to resolve.

use std::io;
use std::pin::Pin;
use std::sync::{Arc, Mutex};
use std::task::{Context, Poll, Waker};
use tokio::io::{AsyncRead, AsyncWrite, ReadBuf};

pub const UNBOUNDED_BYTES: usize = usize::MAX / 4;

/// WebSocket frames in the bytes written on a direction: (end offset of the first Close frame, the bytes end at a frame
/// boundary). Only headers are looked at (the client role's payloads are masked).
pub fn scan_frames(log: &[u8]) -> (Option<usize>, bool) {
    let (mut i, mut close) = (0usize, None);
    loop {
        if i == log.len() {
            return (close, true);
        }
        if i + 2 > log.len() {
            return (close, false);
        }
        let (op, masked, l7) = (log[i] & 0x0f, log[i + 1] & 0x80 != 0, usize::from(log[i + 1] & 0x7f));
        let (hdr, len) = match l7 {
            126 if i + 4 <= log.len() => (4, usize::from(u16::from_be_bytes([log[i + 2], log[i + 3]]))),
            127 if i + 10 <= log.len() => (10, u64::from_be_bytes(log[i + 2..i + 10].try_into().unwrap()) as usize),
            126 | 127 => return (close, false),
            n => (2, n),
        };
        let total = hdr + if masked { 4 } else { 0 } + len;
        if i + total > log.len() {
            return (close, false);
        }
        i += total;
        if op == 8 && close.is_none() {
            close = Some(i);
        }
    }
}

#[derive(Debug, Default)]
pub struct PDir {
    pub inflight: Vec<u8>,
    pub unread: Vec<u8>,
    /// end-of-file marker behind the in-flight bytes / already on the reader's side
    pub fin_inflight: bool,
    pub fin_delivered: bool,
    pub cap: usize,
    /// the sender's writes fail with `BrokenPipe` (eof fault, shutdown, the sender's endpoint is gone)
    pub wr_closed: bool,
    pub reset: bool,
    pub stalled: bool,
    /// the reader's endpoint is gone
    pub reader_gone: bool,
    pub reader_waker: Option<Waker>,
    pub writer_waker: Option<Waker>,
    pub written: u64,
    /// every byte that entered the direction, in order (the driver finds WebSocket frame boundaries / the Close frame in it)
    pub wlog: Vec<u8>,
    pub consumed: u64,
    pub deliveries: u64,
    /// how many of the `written` bytes have reached the reader's side
    pub delivered: u64,
    /// a write or flush of the sender was answered `Pending` while the direction was stalled (the send side is stuck for good)
    pub stuck: bool,
}

impl PDir {
    fn used(&self) -> usize {
        self.inflight.len() + self.unread.len()
    }
}

#[derive(Debug, Default)]
pub struct PipeState {
    pub dirs: [PDir; 2],
    /// endpoint was told that the connection is over: [side] -> by a read (EOF / error), by a write or flush (error)
    pub told_rd: [bool; 2],
    pub told_wr: [bool; 2],
    pub dropped: [bool; 2],
    pub calls: u64,
}

#[derive(Clone, Debug)]
pub struct BytePipe(pub Arc<Mutex<PipeState>>);

fn wake(w: Option<Waker>) {
    if let Some(w) = w {
        w.wake();
    }
}

impl BytePipe {
    pub fn new(cap: usize) -> Self {
        let mk = || PDir { cap, ..PDir::default() };
        Self(Arc::new(Mutex::new(PipeState { dirs: [mk(), mk()], ..PipeState::default() })))
    }

    pub fn lock(&self) -> std::sync::MutexGuard<'_, PipeState> {
        self.0.lock().unwrap_or_else(std::sync::PoisonError::into_inner)
    }

    pub fn endpoint(&self, side: usize) -> PipeEnd {
        PipeEnd { side, pipe: self.clone() }
    }

    pub fn can_deliver(&self, dir: usize) -> bool {
        let l = self.lock();
        let d = &l.dirs[dir];
        !d.stalled && !d.reset && !d.reader_gone && (!d.inflight.is_empty() || d.fin_inflight)
    }

    /// Everything in flight on `dir` (and the end-of-file marker behind it) reaches the reader's side.
    pub fn deliver(&self, dir: usize) {
        let w = {
            let mut l = self.lock();
            let d = &mut l.dirs[dir];
            if d.stalled || d.reset {
                return;
            }
            let bytes = std::mem::take(&mut d.inflight);
            d.unread.extend_from_slice(&bytes);
            d.delivered += bytes.len() as u64;
            if d.fin_inflight {
                d.fin_inflight = false;
                d.fin_delivered = true;
            }
            d.deliveries += 1;
            d.reader_waker.take()
        };
        wake(w);
    }

    /// The sending side of `dir` is closed: end of file behind what was sent, the sender's writes fail.
    pub fn eof(&self, dir: usize) {
        let w = {
            let mut l = self.lock();
            let d = &mut l.dirs[dir];
            if d.wr_closed || d.reset {
                return;
            }
            d.wr_closed = true;
            d.fin_inflight = true;
            d.writer_waker.take()
        };
        wake(w);
    }

    /// `dir` is reset: buffered bytes are gone, reader and writer get `ConnectionReset`.
    pub fn reset(&self, dir: usize) {
        let (r, w) = {
            let mut l = self.lock();
            let d = &mut l.dirs[dir];
            if d.reset {
                return;
            }
            d.reset = true;
            d.inflight.clear();
            d.unread.clear();
            d.fin_inflight = false;
            (d.reader_waker.take(), d.writer_waker.take())
        };
        wake(r);
        wake(w);
    }

    /// Bytes appear on `dir` as if its sender's stack had sent them (a bare WebSocket frame at byte level); refused once
    /// the sending side of the direction is closed.
    pub fn inject(&self, dir: usize, bytes: &[u8]) -> bool {
        let mut l = self.lock();
        let d = &mut l.dirs[dir];
        if d.wr_closed || d.reset {
            return false;
        }
        d.inflight.extend_from_slice(bytes);
        d.wlog.extend_from_slice(bytes);
        d.written += bytes.len() as u64;
        true
    }

    /// A raw byte-level peer that reads `dir` takes everything that was delivered to it.
    pub fn raw_take(&self, dir: usize) -> Vec<u8> {
        let (bytes, w) = {
            let mut l = self.lock();
            let d = &mut l.dirs[dir];
            let bytes = std::mem::take(&mut d.unread);
            d.consumed += bytes.len() as u64;
            (bytes, d.writer_waker.take())
        };
        wake(w);
        bytes
    }

    /// From now on nothing sent on `dir` arrives, and nobody is told.
    pub fn stall(&self, dir: usize) {
        self.lock().dirs[dir].stalled = true;
    }
}

#[derive(Debug)]
pub struct PipeEnd {
    side: usize,
    pipe: BytePipe,
}

impl Drop for PipeEnd {
    fn drop(&mut self) {
        let w = {
            let mut g = self.pipe.lock();
            let l = &mut *g;
            l.dropped[self.side] = true;
            let out = &mut l.dirs[self.side];
            if !out.wr_closed && !out.reset {
                out.wr_closed = true;
                out.fin_inflight = true;
            }
            // nobody reads the other direction any more
            let inb = &mut l.dirs[1 - self.side];
            inb.reader_gone = true;
            inb.reader_waker = None;
            if !inb.stalled {
                inb.inflight.clear();
                inb.unread.clear();
            }
            inb.writer_waker.take()
        };
        wake(w);
    }
}

impl AsyncRead for PipeEnd {
    fn poll_read(self: Pin<&mut Self>, cx: &mut Context<'_>, buf: &mut ReadBuf<'_>) -> Poll<io::Result<()>> {
        let side = self.side;
        let mut w = None;
        let res = {
            let mut g = self.pipe.lock();
            let l = &mut *g;
            l.calls += 1;
            let d = &mut l.dirs[1 - side];
            if d.reset {
                l.told_rd[side] = true;
                Poll::Ready(Err(io::Error::from(io::ErrorKind::ConnectionReset)))
            } else if !d.unread.is_empty() {
                let n = d.unread.len().min(buf.remaining());
                buf.put_slice(&d.unread[..n]);
                d.unread.drain(..n);
                d.consumed += n as u64;
                if n > 0 {
                    w = d.writer_waker.take();
                }
                Poll::Ready(Ok(()))
            } else if d.fin_delivered {
                l.told_rd[side] = true;
                Poll::Ready(Ok(()))
            } else {
                d.reader_waker = Some(cx.waker().clone());
                Poll::Pending
            }
        };
        wake(w);
        res
    }
}

impl PipeEnd {
    /// Error (if any) a write-side call of this endpoint gets now.
    fn wr_error(d: &PDir) -> Option<io::ErrorKind> {
        if d.reset {
            Some(io::ErrorKind::ConnectionReset)
        } else if d.wr_closed || (d.reader_gone && !d.stalled) {
            Some(io::ErrorKind::BrokenPipe)
        } else {
            None
        }
    }
}

impl AsyncWrite for PipeEnd {
    fn poll_write(self: Pin<&mut Self>, cx: &mut Context<'_>, buf: &[u8]) -> Poll<io::Result<usize>> {
        let side = self.side;
        let mut g = self.pipe.lock();
        let l = &mut *g;
        l.calls += 1;
        if let Some(k) = Self::wr_error(&l.dirs[side]) {
            l.told_wr[side] = true;
            return Poll::Ready(Err(io::Error::from(k)));
        }
        let d = &mut l.dirs[side];
        if buf.is_empty() {
            return Poll::Ready(Ok(0));
        }
        let room = d.cap.saturating_sub(d.used());
        if room == 0 {
            d.writer_waker = Some(cx.waker().clone());
            d.stuck |= d.stalled;
            return Poll::Pending;
        }
        let n = room.min(buf.len());
        d.inflight.extend_from_slice(&buf[..n]);
        d.wlog.extend_from_slice(&buf[..n]);
        d.written += n as u64;
        Poll::Ready(Ok(n))
    }

    fn poll_flush(self: Pin<&mut Self>, cx: &mut Context<'_>) -> Poll<io::Result<()>> {
        let side = self.side;
        let mut g = self.pipe.lock();
        let l = &mut *g;
        l.calls += 1;
        if let Some(k) = Self::wr_error(&l.dirs[side]) {
            l.told_wr[side] = true;
            return Poll::Ready(Err(io::Error::from(k)));
        }
        let d = &mut l.dirs[side];
        // a healthy transport has nothing to flush (the bytes are on their way); a stalled one whose buffers are full
        // never gets rid of them
        if d.stalled && d.used() >= d.cap {
            d.writer_waker = Some(cx.waker().clone());
            d.stuck = true;
            return Poll::Pending;
        }
        Poll::Ready(Ok(()))
    }

    fn poll_shutdown(self: Pin<&mut Self>, _cx: &mut Context<'_>) -> Poll<io::Result<()>> {
        let side = self.side;
        let mut g = self.pipe.lock();
        let l = &mut *g;
        l.calls += 1;
        let d = &mut l.dirs[side];
        if d.reset {
            l.told_wr[side] = true;
            return Poll::Ready(Err(io::Error::from(io::ErrorKind::ConnectionReset)));
        }
        if !d.wr_closed {
            d.wr_closed = true;
            d.fin_inflight = true;
        }
        Poll::Ready(Ok(()))
    }
}

impl crate::sim::ByteXport for BytePipe {
    fn can_deliver(&self, dir: usize) -> bool {
        BytePipe::can_deliver(self, dir)
    }
    fn deliver(&self, dir: usize) {
        BytePipe::deliver(self, dir);
    }
}
