//! C18 — SOCKS4/4a/5 messages are parsed and produced exactly per the RFCs.
//!
//! Bounded-exhaustive enumeration of requests (every truncation point, three
//! delivery patterns, EOF or silence at the end of the input), replies and UDP
//! relay headers against the reference grammar in `c18_ref.rs`.

#[path = "c18_io.rs"]
mod io;
#[path = "c18_ref.rs"]
mod rf;

use crate::Args;
use crate::report::{Report, hex, unhex};
use bytes::Bytes;
use io::{Mock, Ran, block_on};
use penguin_socks::{Error, v4, v5};
use rf::{Addr, Host4, Parse4, Parse5};
use serde_json::{Value, json};
use std::collections::{BTreeMap, HashMap, HashSet};
use std::hash::{Hash, Hasher};
use std::net::{Ipv4Addr, Ipv6Addr, SocketAddr, SocketAddrV4, SocketAddrV6};
use std::panic::{AssertUnwindSafe, catch_unwind};
use std::sync::Mutex;

// ---------------------------------------------------------------- cases

/// How the input reaches the reader.
#[derive(Clone, Copy, Debug, PartialEq, Eq)]
struct Tr {
    /// 0 all at once, 1 one byte per poll with `Pending` in between,
    /// 2 tokio `BufReader` over (1) (the production arrangement), 3 `std::io::Cursor`
    kind: u8,
    /// silence instead of EOF at the end of the input
    hang: bool,
}

impl Tr {
    fn name(self) -> String {
        format!("{}{}", ["eager", "trickle", "bufreader-trickle", "cursor"][self.kind as usize], if self.hang { "+silence" } else { "+eof" })
    }
}

const TRANSPORTS: [Tr; 5] = [
    Tr { kind: 0, hang: false },
    Tr { kind: 1, hang: false },
    Tr { kind: 2, hang: false },
    Tr { kind: 0, hang: true },
    Tr { kind: 1, hang: true },
];
const CURSOR: Tr = Tr { kind: 3, hang: false };

#[derive(Clone, Debug)]
enum Case {
    Req5(Vec<u8>, Tr),
    Req4(Vec<u8>, Tr),
    Auth(Vec<u8>, Tr),
    Reply5 { rep: u8, addr: Addr, port: u16, scoped: bool, trickle: bool },
    Reply5Unspec { rep: u8, trickle: bool },
    AuthSel { method: u8, trickle: bool },
    Reply4 { rep: u8, trickle: bool },
    UdpBuild { addr: Addr, port: u16, len: usize },
    UdpParse(Vec<u8>),
}

fn addr_json(a: &Addr) -> Value {
    match a {
        Addr::V4(o) => json!({"v4": hex(o)}),
        Addr::V6(o) => json!({"v6": hex(o)}),
        Addr::Domain(d) => json!({"domain": hex(d)}),
    }
}

fn addr_from(v: &Value) -> Addr {
    if let Some(h) = v.get("v4").and_then(Value::as_str) {
        Addr::V4(unhex(h).try_into().expect("4 octets"))
    } else if let Some(h) = v.get("v6").and_then(Value::as_str) {
        Addr::V6(unhex(h).try_into().expect("16 octets"))
    } else {
        Addr::Domain(unhex(v["domain"].as_str().expect("addr")))
    }
}

impl Case {
    fn to_json(&self) -> Value {
        let tr = |t: &Tr| json!({"kind": t.kind, "silence_at_end": t.hang, "name": t.name()});
        match self {
            Case::Req5(b, t) => json!({"kind": "socks5-request", "input_hex": hex(b), "transport": tr(t)}),
            Case::Req4(b, t) => json!({"kind": "socks4-request-after-VN", "input_hex": hex(b), "transport": tr(t)}),
            Case::Auth(b, t) => json!({"kind": "socks5-auth-methods-after-VER", "input_hex": hex(b), "transport": tr(t)}),
            Case::Reply5 { rep, addr, port, scoped, trickle } => {
                json!({"kind": "socks5-reply", "rep": rep, "addr": addr_json(addr), "port": port, "scoped": scoped, "trickle": trickle})
            }
            Case::Reply5Unspec { rep, trickle } => json!({"kind": "socks5-reply-unspecified", "rep": rep, "trickle": trickle}),
            Case::AuthSel { method, trickle } => json!({"kind": "socks5-method-selection", "method": method, "trickle": trickle}),
            Case::Reply4 { rep, trickle } => json!({"kind": "socks4-reply", "rep": rep, "trickle": trickle}),
            Case::UdpBuild { addr, port, len } => json!({"kind": "udp-relay-build", "addr": addr_json(addr), "port": port, "payload_len": len}),
            Case::UdpParse(b) => json!({"kind": "udp-relay-parse", "input_hex": hex(b)}),
        }
    }

    fn from_json(v: &Value) -> Case {
        let s = |k: &str| v[k].as_str().unwrap_or_else(|| panic!("replay: missing {k}"));
        let n = |k: &str| v[k].as_u64().unwrap_or_else(|| panic!("replay: missing {k}"));
        let b = |k: &str| v[k].as_bool().unwrap_or(false);
        let tr = || Tr { kind: v["transport"]["kind"].as_u64().unwrap_or(0) as u8, hang: v["transport"]["silence_at_end"].as_bool().unwrap_or(false) };
        match s("kind") {
            "socks5-request" => Case::Req5(unhex(s("input_hex")), tr()),
            "socks4-request-after-VN" => Case::Req4(unhex(s("input_hex")), tr()),
            "socks5-auth-methods-after-VER" => Case::Auth(unhex(s("input_hex")), tr()),
            "socks5-reply" => Case::Reply5 { rep: n("rep") as u8, addr: addr_from(&v["addr"]), port: n("port") as u16, scoped: b("scoped"), trickle: b("trickle") },
            "socks5-reply-unspecified" => Case::Reply5Unspec { rep: n("rep") as u8, trickle: b("trickle") },
            "socks5-method-selection" => Case::AuthSel { method: n("method") as u8, trickle: b("trickle") },
            "socks4-reply" => Case::Reply4 { rep: n("rep") as u8, trickle: b("trickle") },
            "udp-relay-build" => Case::UdpBuild { addr: addr_from(&v["addr"]), port: n("port") as u16, len: n("payload_len") as usize },
            "udp-relay-parse" => Case::UdpParse(unhex(s("input_hex"))),
            other => panic!("replay: unknown case kind {other}"),
        }
    }

    fn size(&self) -> usize {
        match self {
            Case::Req5(b, _) | Case::Req4(b, _) | Case::Auth(b, _) | Case::UdpParse(b) => b.len(),
            Case::UdpBuild { len, .. } => *len,
            _ => 0,
        }
    }
}

fn payload(len: usize) -> Vec<u8> {
    (0..len).map(|i| (i as u8).wrapping_mul(37).wrapping_add(0xa5)).collect()
}

// ---------------------------------------------------------------- accumulation

#[derive(Default)]
struct Acc {
    evals: u64,
    viol: HashMap<String, (String, Value, usize, u64)>,
    cls: BTreeMap<String, u64>,
    /// observation text of the last case (filled only when asked for: replay)
    obs: Option<String>,
}

impl Acc {
    fn v(&mut self, key: String, desc: String, case: &Case) {
        let size = case.size();
        match self.viol.get_mut(&key) {
            Some(e) => {
                e.3 += 1;
                if size <= e.2 {
                    let j = case.to_json();
                    if better((size, &j), (e.2, &e.1)) {
                        *e = (desc, j, size, e.3);
                    }
                }
            }
            None => {
                self.viol.insert(key, (desc, case.to_json(), size, 1));
            }
        }
    }
    fn c(&mut self, name: &str) {
        *self.cls.entry(name.to_string()).or_default() += 1;
    }
    fn merge(&mut self, o: Acc) {
        self.evals += o.evals;
        for (k, n) in o.cls {
            *self.cls.entry(k).or_default() += n;
        }
        for (k, (d, r, s, n)) in o.viol {
            match self.viol.get_mut(&k) {
                Some(e) => {
                    let total = e.3 + n;
                    if better((s, &r), (e.2, &e.1)) {
                        *e = (d, r, s, total);
                    } else {
                        e.3 = total;
                    }
                }
                None => {
                    self.viol.insert(k, (d, r, s, n));
                }
            }
        }
    }
}

/// Deterministic choice of the recorded example: the smallest input, ties by text.
fn better(new: (usize, &Value), old: (usize, &Value)) -> bool {
    new.0 < old.0 || (new.0 == old.0 && new.1.to_string() < old.1.to_string())
}

// ---------------------------------------------------------------- running the subject

#[derive(Debug)]
enum Out<T> {
    Ok(T),
    Err(String),
    Hung,
    Panic(String),
}

impl<T> Out<T> {
    fn kind(&self) -> &'static str {
        match self {
            Out::Ok(_) => "ok",
            Out::Err(_) => "err",
            Out::Hung => "waits",
            Out::Panic(_) => "panic",
        }
    }
}

fn panic_text(e: &(dyn std::any::Any + Send)) -> String {
    crate::sim::take_last_panic().unwrap_or_else(|| {
        e.downcast_ref::<String>().cloned().or_else(|| e.downcast_ref::<&str>().map(|s| (*s).to_string())).unwrap_or_else(|| "<panic>".into())
    })
}

/// Result of feeding `input` to a reader: outcome, bytes consumed, bytes written back.
struct ReadRun<T> {
    out: Out<T>,
    consumed: usize,
    written: Vec<u8>,
}

macro_rules! drive {
    ($input:expr, $tr:expr, |$s:ident| $call:expr) => {{
        let input: &[u8] = $input;
        let tr: Tr = $tr;
        let budget = 4 * input.len() + 64;
        let mut mock = Mock::new(input, tr.kind != 0, tr.hang);
        let (res, consumed) = if tr.kind == 2 {
            let mut br = tokio::io::BufReader::new(&mut mock);
            let res = catch_unwind(AssertUnwindSafe(|| {
                let $s = &mut br;
                block_on($call, budget)
            }));
            let unread = br.buffer().len();
            drop(br);
            (res, mock.pos - unread)
        } else {
            let res = catch_unwind(AssertUnwindSafe(|| {
                let $s = &mut mock;
                block_on($call, budget)
            }));
            (res, mock.pos)
        };
        let out = match res {
            Err(e) => Out::Panic(panic_text(&*e)),
            Ok(Ran::Hung) => Out::Hung,
            Ok(Ran::Done(Ok(v))) => Out::Ok(v),
            Ok(Ran::Done(Err(e))) => Out::Err(format!("{e:?}")),
        };
        ReadRun { out, consumed, written: std::mem::take(&mut mock.out) }
    }};
}

/// Which field of a SOCKS5 request an input of this length ends in.
fn field_of_cut5(len: usize) -> &'static str {
    match len {
        0 => "ver",
        1 => "cmd",
        2 => "rsv",
        3 => "atyp",
        _ => "addr-or-port",
    }
}

fn check_req5(b: &[u8], tr: Tr, acc: &mut Acc, want_obs: bool) {
    acc.evals += 1;
    let case = || Case::Req5(b.to_vec(), tr);
    let want = rf::parse_request5(b);
    let run: ReadRun<(u8, Vec<u8>, u16)> = drive!(b, tr, |s| v5::read_request(s));
    if want_obs {
        acc.obs = Some(format!("{:?} consumed={} written={}", run.out, run.consumed, hex(&run.written)));
    }
    let cls = match &want {
        Parse5::Complete { addr, .. } => format!("complete.{}", addr.class()),
        Parse5::Incomplete => "truncated".into(),
        Parse5::BadVersion(_) => "bad-version".into(),
        Parse5::BadAtyp(_) => "bad-atyp".into(),
    };
    acc.c(&format!("req5.{cls}.{}", run.out.kind()));
    if let Out::Panic(m) = &run.out {
        acc.v(format!("req5.panic.{cls}"), format!("v5::read_request panicked ({m}) on {} via {}", hex(b), tr.name()), &case());
        return;
    }
    if matches!(run.out, Out::Hung) && !tr.hang {
        acc.v(format!("req5.no-termination.{cls}"), format!("v5::read_request does not finish although the input {} ends with EOF ({})", hex(b), tr.name()), &case());
        return;
    }
    match (&want, &run.out) {
        (Parse5::Complete { cmd, rsv, addr, port, used }, Out::Ok((gc, ga, gp))) => {
            let mut wrong = Vec::new();
            if gc != cmd {
                wrong.push("command");
            }
            if gp != port {
                wrong.push("port");
            }
            if !rf::text_denotes(ga, addr) {
                wrong.push("address");
            }
            if !wrong.is_empty() {
                acc.v(
                    format!("req5.fields.{}.{}", addr.class(), wrong.join("+")),
                    format!(
                        "v5::read_request({}) returns cmd={gc} addr={:?} port={gp}; RFC 1928 assigns cmd={cmd} addr={} port={port}",
                        hex(b),
                        String::from_utf8_lossy(ga),
                        addr.describe()
                    ),
                    &case(),
                );
            }
            if run.consumed != *used {
                let dir = if run.consumed > *used { "too-many" } else { "too-few" };
                acc.v(
                    format!("req5.consumed.{}.{dir}", addr.class()),
                    format!("v5::read_request consumed {} bytes of {}; the request is {used} bytes long ({})", run.consumed, hex(b), tr.name()),
                    &case(),
                );
            }
            if !run.written.is_empty() {
                acc.v("req5.unexpected-write".into(), format!("v5::read_request wrote {} while reading the valid request {}", hex(&run.written), hex(b)), &case());
            }
            if *rsv != 0 || !matches!(cmd, 1..=3) {
                acc.c("req5.lenient.accepted-odd-rsv-or-cmd");
            }
        }
        (Parse5::Complete { cmd, rsv, addr, .. }, Out::Err(e)) => {
            if *rsv != 0 || !matches!(cmd, 1..=3) {
                // a non-zero RSV or an undefined CMD may be refused by the reader or left to the caller
                acc.c("req5.lenient.rejected-odd-rsv-or-cmd");
            } else {
                acc.v(format!("req5.reject-valid.{}", addr.class()), format!("v5::read_request rejects the well-formed request {} with {e} ({})", hex(b), tr.name()), &case());
            }
        }
        (Parse5::Complete { addr, used, .. }, Out::Hung) => {
            acc.v(
                format!("req5.waits-beyond-request.{}", addr.class()),
                format!("v5::read_request still waits for input after the complete {used}-byte request {} ({})", hex(b), tr.name()),
                &case(),
            );
        }
        (Parse5::Incomplete, Out::Ok((gc, ga, gp))) => {
            acc.v(
                format!("req5.truncated-accepted.{}", field_of_cut5(b.len())),
                format!("v5::read_request returns Ok(cmd={gc}, addr={:?}, port={gp}) for the truncated request {} ({})", String::from_utf8_lossy(ga), hex(b), tr.name()),
                &case(),
            );
        }
        (Parse5::BadVersion(v), Out::Ok(_)) => {
            acc.v("req5.accept-bad-version".into(), format!("v5::read_request accepts version {v}: {}", hex(b)), &case());
        }
        (Parse5::BadAtyp(a), Out::Ok(_)) => {
            acc.v("req5.accept-bad-atyp".into(), format!("v5::read_request accepts address type {a}: {}", hex(b)), &case());
        }
        (Parse5::BadAtyp(a), Out::Err(_)) => {
            // a reply on this path is optional; if there is one it must be a proper "address type not supported"
            if !run.written.is_empty() {
                let ok = rf::parse_reply5(&run.written).is_some_and(|(rep, _, _)| rep == 8);
                if !ok {
                    acc.v(
                        "req5.bad-atyp-reply".into(),
                        format!("on address type {a} v5::read_request wrote {} which is not an RFC 1928 reply with REP=08", hex(&run.written)),
                        &case(),
                    );
                }
                acc.c("req5.bad-atyp.reply-written");
            }
        }
        // errors and (under silence) waiting are what the statement asks for on bad input
        (Parse5::Incomplete | Parse5::BadVersion(_), Out::Err(_)) | (Parse5::Incomplete | Parse5::BadVersion(_) | Parse5::BadAtyp(_), Out::Hung) => {}
        (_, Out::Panic(_)) => unreachable!(),
    }
}

fn check_req4(b: &[u8], tr: Tr, acc: &mut Acc, want_obs: bool) {
    acc.evals += 1;
    let case = || Case::Req4(b.to_vec(), tr);
    let want = rf::parse_request4(b);
    let run: ReadRun<(u8, Vec<u8>, u16)> = if tr.kind == 3 {
        let mut cur = std::io::Cursor::new(b.to_vec());
        let res = catch_unwind(AssertUnwindSafe(|| block_on(v4::read_request(&mut cur), 4 * b.len() + 64)));
        let out = match res {
            Err(e) => Out::Panic(panic_text(&*e)),
            Ok(Ran::Hung) => Out::Hung,
            Ok(Ran::Done(Ok(v))) => Out::Ok(v),
            Ok(Ran::Done(Err(e))) => Out::Err(format!("{e:?}")),
        };
        ReadRun { out, consumed: cur.position() as usize, written: Vec::new() }
    } else {
        drive!(b, tr, |s| v4::read_request(s))
    };
    if want_obs {
        acc.obs = Some(format!("{:?} consumed={}", run.out, run.consumed));
    }
    let cls = match &want {
        Parse4::Complete { host: Host4::Ip(_), .. } => "complete.socks4",
        Parse4::Complete { host: Host4::Domain(_), .. } => "complete.socks4a",
        Parse4::Incomplete => "truncated",
    };
    acc.c(&format!("req4.{cls}.{}", run.out.kind()));
    if let Out::Panic(m) = &run.out {
        acc.v(format!("req4.panic.{cls}"), format!("v4::read_request panicked ({m}) on {} via {}", hex(b), tr.name()), &case());
        return;
    }
    if matches!(run.out, Out::Hung) && !tr.hang {
        acc.v(format!("req4.no-termination.{cls}"), format!("v4::read_request does not finish although the input {} ends with EOF ({})", hex(b), tr.name()), &case());
        return;
    }
    match (&want, &run.out) {
        (Parse4::Complete { cmd, host, port, used, user_len }, Out::Ok((gc, ga, gp))) => {
            let (host_ok, hcls, hdesc) = match host {
                Host4::Ip(o) => (ga.as_slice() == rf::dotted(*o).as_bytes(), "socks4", rf::dotted(*o)),
                Host4::Domain(d) => (ga == d, "socks4a", format!("domain[{}] {:?}", d.len(), String::from_utf8_lossy(&d[..d.len().min(16)]))),
            };
            let mut wrong = Vec::new();
            if gc != cmd {
                wrong.push("command");
            }
            if gp != port {
                wrong.push("port");
            }
            if !host_ok {
                wrong.push("address");
            }
            if !wrong.is_empty() {
                acc.v(
                    format!("req4.fields.{hcls}.{}", wrong.join("+")),
                    format!(
                        "v4::read_request({}) returns cmd={gc} addr={:?} port={gp}; the protocol assigns cmd={cmd} addr={hdesc} port={port} (user-id of {user_len} bytes)",
                        hex(b),
                        String::from_utf8_lossy(&ga[..ga.len().min(32)])
                    ),
                    &case(),
                );
            }
            if run.consumed != *used {
                let dir = if run.consumed > *used { "too-many" } else { "too-few" };
                acc.v(
                    format!("req4.consumed.{hcls}.{dir}"),
                    format!("v4::read_request consumed {} bytes of {}; the request is {used} bytes long ({})", run.consumed, hex(b), tr.name()),
                    &case(),
                );
            }
        }
        (Parse4::Complete { cmd, host, .. }, Out::Err(e)) => {
            let empty_domain = matches!(host, Host4::Domain(d) if d.is_empty());
            if empty_domain || !matches!(cmd, 1 | 2) {
                // an empty SOCKS4a name or an undefined CD may be refused by the reader or left to the caller
                acc.c("req4.lenient.rejected-empty-domain-or-odd-cmd");
            } else {
                let hcls = if matches!(host, Host4::Ip(_)) { "socks4" } else { "socks4a" };
                acc.v(format!("req4.reject-valid.{hcls}"), format!("v4::read_request rejects the well-formed request {} with {e} ({})", hex(b), tr.name()), &case());
            }
        }
        (Parse4::Complete { host, used, .. }, Out::Hung) => {
            let hcls = if matches!(host, Host4::Ip(_)) { "socks4" } else { "socks4a" };
            acc.v(
                format!("req4.waits-beyond-request.{hcls}"),
                format!("v4::read_request still waits for input after the complete {used}-byte request {} ({})", hex(b), tr.name()),
                &case(),
            );
        }
        (Parse4::Incomplete, Out::Ok((gc, ga, gp))) => {
            // where does the input stop?
            let place = if b.len() < 7 {
                "fixed-fields"
            } else if !b[7..].contains(&0) {
                "user-id"
            } else {
                "domain"
            };
            acc.v(
                format!("req4.truncated-accepted.{place}"),
                format!(
                    "v4::read_request returns Ok(cmd={gc}, addr={:?}, port={gp}) for the request {} that ends inside the {place} without its NUL terminator ({})",
                    String::from_utf8_lossy(&ga[..ga.len().min(32)]),
                    hex(b),
                    tr.name()
                ),
                &case(),
            );
        }
        (Parse4::Incomplete, Out::Err(_) | Out::Hung) => {}
        (_, Out::Panic(_)) => unreachable!(),
    }
}

fn check_auth(b: &[u8], tr: Tr, acc: &mut Acc, want_obs: bool) {
    acc.evals += 1;
    let case = || Case::Auth(b.to_vec(), tr);
    // RFC 1928 §3 after VER: NMETHODS, METHODS[NMETHODS]
    let want: Option<(Vec<u8>, usize)> = b.first().and_then(|&n| (b.len() > usize::from(n)).then(|| (b[1..=usize::from(n)].to_vec(), 1 + usize::from(n))));
    let run: ReadRun<Vec<u8>> = if tr.kind == 3 {
        let mut cur = std::io::Cursor::new(b.to_vec());
        let res = catch_unwind(AssertUnwindSafe(|| block_on(v5::read_auth_methods(&mut cur), 4 * b.len() + 64)));
        let out = match res {
            Err(e) => Out::Panic(panic_text(&*e)),
            Ok(Ran::Hung) => Out::Hung,
            Ok(Ran::Done(Ok(v))) => Out::Ok(v),
            Ok(Ran::Done(Err(e))) => Out::Err(format!("{e:?}")),
        };
        ReadRun { out, consumed: cur.position() as usize, written: Vec::new() }
    } else {
        drive!(b, tr, |s| v5::read_auth_methods(s))
    };
    if want_obs {
        acc.obs = Some(format!("{:?} consumed={}", run.out, run.consumed));
    }
    let cls = if want.is_some() { "complete" } else { "truncated" };
    acc.c(&format!("auth.{cls}.{}", run.out.kind()));
    match (&want, &run.out) {
        (_, Out::Panic(m)) => acc.v(format!("auth.panic.{cls}"), format!("v5::read_auth_methods panicked ({m}) on {}", hex(b)), &case()),
        (_, Out::Hung) if !tr.hang => acc.v(format!("auth.no-termination.{cls}"), format!("v5::read_auth_methods does not finish on {} + EOF", hex(b)), &case()),
        (Some((m, used)), Out::Ok(g)) => {
            if g != m {
                acc.v("auth.fields".into(), format!("v5::read_auth_methods({}) returns {} instead of {}", hex(b), hex(g), hex(m)), &case());
            }
            if run.consumed != *used {
                acc.v("auth.consumed".into(), format!("v5::read_auth_methods consumed {} bytes, the message has {used} ({})", run.consumed, tr.name()), &case());
            }
        }
        (Some(_), Out::Err(e)) => acc.v("auth.reject-valid".into(), format!("v5::read_auth_methods rejects {} with {e}", hex(b)), &case()),
        (Some(_), Out::Hung) => acc.v("auth.waits-beyond-message".into(), format!("v5::read_auth_methods waits for more than the complete message {}", hex(b)), &case()),
        (None, Out::Ok(g)) => acc.v("auth.truncated-accepted".into(), format!("v5::read_auth_methods returns Ok({}) for the truncated message {}", hex(g), hex(b)), &case()),
        (None, Out::Err(_) | Out::Hung) => {}
    }
}

/// Run a writer against a fresh sink; yields (outcome, bytes written).
macro_rules! sink_run {
    ($trickle:expr, |$w:ident| $call:expr) => {{
        let mut mock = Mock::new(&[], $trickle, false);
        let res = catch_unwind(AssertUnwindSafe(|| {
            let $w = &mut mock;
            block_on($call, 256)
        }));
        let out: Out<()> = match res {
            Err(e) => Out::Panic(panic_text(&*e)),
            Ok(Ran::Hung) => Out::Hung,
            Ok(Ran::Done(Ok(()))) => Out::Ok(()),
            Ok(Ran::Done(Err(e))) => Out::Err(format!("{e:?}")),
        };
        (out, std::mem::take(&mut mock.out))
    }};
}

fn sockaddr(addr: &Addr, port: u16, scoped: bool) -> SocketAddr {
    match addr {
        Addr::V4(o) => SocketAddr::V4(SocketAddrV4::new(Ipv4Addr::new(o[0], o[1], o[2], o[3]), port)),
        Addr::V6(o) => SocketAddr::V6(SocketAddrV6::new(Ipv6Addr::from(*o), port, if scoped { 7 } else { 0 }, if scoped { 5 } else { 0 })),
        Addr::Domain(_) => panic!("no socket address for a domain"),
    }
}

fn check_writer(case: &Case, acc: &mut Acc, want_obs: bool) {
    acc.evals += 1;
    // (key, outcome, bytes, complaint about the bytes)
    let (name, out, bytes, complaint): (&str, Out<()>, Vec<u8>, Option<String>) = match case {
        Case::Reply5 { rep, addr, port, scoped, trickle } => {
            let sa = sockaddr(addr, *port, *scoped);
            let want = rf::build_reply5(*rep, addr, *port);
            let (out, got) = sink_run!(*trickle, |w| v5::write_response(w, *rep, sa));
            let c = (got != want).then(|| format!("v5::write_response(rep={rep}, {sa}) wrote {}, RFC 1928 §6 prescribes {}", hex(&got), hex(&want)));
            (if matches!(addr, Addr::V4(_)) { "reply5.bytes.ipv4" } else { "reply5.bytes.ipv6" }, out, got, c)
        }
        Case::Reply5Unspec { rep, trickle } => {
            let (out, got) = sink_run!(*trickle, |w| v5::write_response_unspecified(w, *rep));
            let ok = rf::parse_reply5(&got).is_some_and(|(r, a, p)| {
                let zero = match &a {
                    Addr::V4(o) => o.iter().all(|&x| x == 0),
                    Addr::V6(o) => o.iter().all(|&x| x == 0),
                    Addr::Domain(_) => false,
                };
                r == *rep && p == 0 && zero
            });
            let c = (!ok).then(|| format!("v5::write_response_unspecified(rep={rep}) wrote {}, not an RFC 1928 reply with that code and an all-zero bound address", hex(&got)));
            ("reply5.unspecified", out, got, c)
        }
        Case::AuthSel { method, trickle } => {
            let (out, got) = sink_run!(*trickle, |w| v5::write_auth_method(w, *method));
            let c = (got != [5, *method]).then(|| format!("v5::write_auth_method({method}) wrote {}, RFC 1928 §3 prescribes 05{method:02x}", hex(&got)));
            ("authsel.bytes", out, got, c)
        }
        Case::Reply4 { rep, trickle } => {
            let (out, got) = sink_run!(*trickle, |w| v4::write_response(w, *rep));
            // VN = 0, CD = code, then DSTPORT/DSTIP which the client ignores for CONNECT
            let c = (got.len() != 8 || got[0] != 0 || got[1] != *rep).then(|| format!("v4::write_response({rep}) wrote {}, SOCKS4 prescribes 8 bytes 00 {rep:02x} ..", hex(&got)));
            ("reply4.bytes", out, got, c)
        }
        _ => unreachable!(),
    };
    if want_obs {
        acc.obs = Some(format!("{out:?} wrote={}", hex(&bytes)));
    }
    acc.c(&format!("{}.{}", name.split('.').next().unwrap_or(name), out.kind()));
    match out {
        Out::Panic(m) => acc.v(format!("{name}.panic"), format!("writer panicked: {m}"), case),
        Out::Hung => acc.v(format!("{name}.no-termination"), "writer does not finish on a sink that always accepts".into(), case),
        Out::Err(e) => acc.v(format!("{name}.error"), format!("writer fails on a healthy sink: {e}"), case),
        Out::Ok(()) => {
            if let Some(d) = complaint {
                acc.v(name.to_string(), d, case);
            }
        }
    }
}

fn check_udp_build(addr: &Addr, port: u16, len: usize, acc: &mut Acc, want_obs: bool) {
    acc.evals += 1;
    let case = Case::UdpBuild { addr: addr.clone(), port, len };
    let data = payload(len);
    let sa = sockaddr(addr, port, false);
    let fam = addr.class();
    let got = catch_unwind(AssertUnwindSafe(|| v5::udp_relay_response(sa, &data)));
    if want_obs {
        acc.obs = Some(match &got {
            Ok(g) => format!("built {}", hex(&g[..g.len().min(64)])),
            Err(_) => "panic".into(),
        });
    }
    let got = match got {
        Ok(g) => g,
        Err(e) => {
            acc.c("udpbuild.panic");
            acc.v(format!("udp.build.panic.{fam}"), format!("udp_relay_response({sa}, {len} bytes) panicked: {}", panic_text(&*e)), &case);
            return;
        }
    };
    // what a conforming client recovers from the datagram
    let seen = rf::parse_udp(&got);
    let same = matches!(&seen, Ok(u) if u.rsv == [0, 0] && u.frag == 0 && u.addr == *addr && u.port == port && got[u.data_at..] == data[..]);
    acc.c(if same { "udpbuild.client-recovers" } else { "udpbuild.client-mismatch" });
    if !same {
        let head = &got[..got.len().min(28)];
        let what = match &seen {
            Ok(u) => format!("RSV={} FRAG={} addr={} port={} and {} payload bytes", hex(&u.rsv), u.frag, u.addr.describe(), u.port, got.len() - u.data_at),
            Err(f) => format!("nothing: {f:?}"),
        };
        acc.v(
            format!("udp.build.client-mismatch.{fam}"),
            format!(
                "udp_relay_response({sa}, {len} bytes) = {}..; a client parsing per RFC 1928 §7 (RSV RSV FRAG ATYP ADDR PORT DATA) recovers {what}; expected header {}",
                hex(head),
                hex(&rf::build_udp([0, 0], 0, addr.atyp(), &addr.field(), port, &[]))
            ),
            &case,
        );
    }
}

fn check_udp_parse(b: &[u8], acc: &mut Acc, want_obs: bool) {
    acc.evals += 1;
    let case = || Case::UdpParse(b.to_vec());
    let want = rf::parse_udp(b);
    let got = catch_unwind(AssertUnwindSafe(|| v5::parse_udp_relay_header(Bytes::copy_from_slice(b))));
    if want_obs {
        acc.obs = Some(format!("{got:?}"));
    }
    let cls = match &want {
        Ok(u) if u.frag != 0 => "fragment".to_string(),
        Ok(u) if u.rsv != [0, 0] => "odd-rsv".to_string(),
        Ok(u) => format!("valid.{}", u.addr.class()),
        Err(f) if f.bad_atyp.is_some() => "bad-atyp".to_string(),
        Err(_) => "truncated".to_string(),
    };
    let got = match got {
        Ok(g) => g,
        Err(e) => {
            acc.c(&format!("udpparse.{cls}.panic"));
            acc.v(format!("udp.parse.panic.{cls}"), format!("parse_udp_relay_header({}) panicked: {}", hex(b), panic_text(&*e)), &case());
            return;
        }
    };
    acc.c(&format!("udpparse.{cls}.{}", if got.is_ok() { "ok" } else { "err" }));
    match (&want, &got) {
        (Ok(u), Ok((dst, port, rest))) => {
            if u.frag != 0 {
                acc.v("udp.parse.accept-fragment".into(), format!("parse_udp_relay_header accepts FRAG={} in {}", u.frag, hex(b)), &case());
                return;
            }
            if !rf::text_denotes(dst, &u.addr) || *port != u.port || rest.as_ref() != &b[u.data_at..] {
                acc.v(
                    format!("udp.parse.fields.{}", u.addr.class()),
                    format!(
                        "parse_udp_relay_header({}) returns addr={:?} port={port} and {} data bytes; RFC 1928 §7 assigns addr={} port={} and {} data bytes",
                        hex(b),
                        String::from_utf8_lossy(dst),
                        rest.len(),
                        u.addr.describe(),
                        u.port,
                        b.len() - u.data_at
                    ),
                    &case(),
                );
            }
        }
        (Ok(u), Err(e)) => {
            if u.frag != 0 {
                if matches!(e, Error::UnknownAddressType(_)) {
                    acc.v("udp.parse.wrong-error.fragment".into(), format!("parse_udp_relay_header({}) blames the address type ({e:?}) of a fragment with a valid address type", hex(b)), &case());
                }
            } else if u.rsv != [0, 0] {
                acc.c("udpparse.lenient.rejected-odd-rsv");
            } else {
                acc.v(format!("udp.parse.reject-valid.{}", u.addr.class()), format!("parse_udp_relay_header rejects the well-formed datagram {} with {e:?}", hex(b)), &case());
            }
        }
        (Err(f), Ok((dst, port, rest))) => {
            let key = if f.bad_atyp.is_some() { "udp.parse.accept-bad-atyp" } else { "udp.parse.accept-truncated" };
            acc.v(
                key.into(),
                format!("parse_udp_relay_header({}) returns Ok(addr={:?}, port={port}, {} data bytes) although {f:?}", hex(b), String::from_utf8_lossy(dst), rest.len()),
                &case(),
            );
        }
        (Err(_), Err(e)) => {
            // the documented variants must not be used for something they do not mean
            let frag_applies = b.len() >= 3 && b[2] != 0;
            let atyp_applies = |y: u8| b.len() >= 4 && b[3] == y && !matches!(y, 1 | 3 | 4);
            match e {
                Error::FragmentedUdp if !frag_applies => {
                    acc.v("udp.parse.wrong-error.not-a-fragment".into(), format!("parse_udp_relay_header({}) reports FragmentedUdp, FRAG is 0 or absent", hex(b)), &case());
                }
                Error::UnknownAddressType(y) if !atyp_applies(*y) => {
                    acc.v("udp.parse.wrong-error.atyp".into(), format!("parse_udp_relay_header({}) reports UnknownAddressType({y}) which is not the (unknown) ATYP of the datagram", hex(b)), &case());
                }
                _ => {}
            }
        }
    }
}

fn check_case(c: &Case, acc: &mut Acc, want_obs: bool) {
    match c {
        Case::Req5(b, t) => check_req5(b, *t, acc, want_obs),
        Case::Req4(b, t) => check_req4(b, *t, acc, want_obs),
        Case::Auth(b, t) => check_auth(b, *t, acc, want_obs),
        Case::Reply5 { .. } | Case::Reply5Unspec { .. } | Case::AuthSel { .. } | Case::Reply4 { .. } => check_writer(c, acc, want_obs),
        Case::UdpBuild { addr, port, len } => check_udp_build(addr, *port, *len, acc, want_obs),
        Case::UdpParse(b) => check_udp_parse(b, acc, want_obs),
    }
}

// ---------------------------------------------------------------- domains

fn ipv4_corners() -> Vec<[u8; 4]> {
    let c = [0u8, 1, 127, 255];
    let mut v = Vec::new();
    for a in c {
        for b in c {
            for d in c {
                for e in c {
                    v.push([a, b, d, e]);
                }
            }
        }
    }
    v
}

fn ipv6_corners(thorough: bool) -> Vec<[u8; 16]> {
    let texts: &[&str] = &[
        "::",
        "::1",
        "ffff:ffff:ffff:ffff:ffff:ffff:ffff:ffff",
        "2001:db8::1",
        "::ffff:1.2.3.4",
        "::1.2.3.4",
        "fe80::1",
        "1:2:3:4:5:6:7:8",
        "1:0:0:2:0:0:0:3",
        "0:0:1::",
        "1::",
        "0:1:0:1:0:1:0:1",
        "64:ff9b::7f00:1",
        "100::",
    ];
    let mut v: Vec<[u8; 16]> = texts.iter().map(|t| t.parse::<Ipv6Addr>().expect("corner").octets()).collect();
    if thorough {
        // every single non-zero group position, and every zero-run position/length
        for g in 0..8 {
            let mut o = [0u8; 16];
            o[2 * g] = 0xab;
            o[2 * g + 1] = 0xcd;
            v.push(o);
        }
        for start in 0..8 {
            for run in 1..=(8 - start) {
                let mut o = [0x11u8; 16];
                for g in start..start + run {
                    o[2 * g] = 0;
                    o[2 * g + 1] = 0;
                }
                v.push(o);
            }
        }
    }
    v.sort_unstable();
    v.dedup();
    v
}

fn fill(len: usize, which: u8) -> Vec<u8> {
    match which {
        0 => vec![0x00; len],
        1 => vec![0xff; len],
        _ => (0..len).map(|i| b"a.0\xff\x00-Z\x01"[i % 8]).collect(),
    }
}

/// Non-NUL filler for SOCKS4 strings.
fn fill_nonul(len: usize, which: u8) -> Vec<u8> {
    match which {
        0 => vec![0xff; len],
        _ => (0..len).map(|i| b"a.0\xff\x01-Z"[i % 7]).collect(),
    }
}

/// Address fields of the SOCKS5 domain: (atyp, raw field).
fn addr_fields(thorough: bool) -> Vec<(u8, Vec<u8>)> {
    let mut v: Vec<(u8, Vec<u8>)> = Vec::new();
    for o in ipv4_corners() {
        v.push((1, o.to_vec()));
    }
    for o in ipv6_corners(thorough) {
        v.push((4, o.to_vec()));
    }
    let mut lens = vec![0usize, 1, 2, 254, 255];
    if thorough {
        lens.extend([3, 4, 15, 16, 17, 127, 128]);
    }
    let mut seen = HashSet::new();
    for len in lens {
        for w in 0..3 {
            let d = fill(len, w);
            if seen.insert(d.clone()) {
                v.push((3, Addr::Domain(d).field()));
            }
        }
    }
    let mut odd = vec![0u8, 2, 5];
    if thorough {
        odd.extend([6, 0x7f, 0x80, 0xff]);
    }
    for a in odd {
        v.push((a, vec![1, 2, 3, 4]));
    }
    v
}

/// 128-bit fingerprint for de-duplicating inputs without keeping them.
fn fingerprint(b: &[u8]) -> (u64, u64) {
    let mut h1 = std::collections::hash_map::DefaultHasher::new();
    b.hash(&mut h1);
    let mut h2 = std::collections::hash_map::DefaultHasher::new();
    0x9e37_79b9_7f4a_7c15u64.hash(&mut h2);
    b.hash(&mut h2);
    b.len().hash(&mut h2);
    (h1.finish(), h2.finish())
}

/// `produce` emits complete messages. For each of them the message itself, the
/// message followed by each trailer and every proper prefix are inputs;
/// duplicates are dropped (sharded fingerprint set), every distinct input is
/// handed to `work` exactly once. Messages are dealt round-robin to `threads`
/// workers. Returns the merged accumulators and the number of distinct inputs.
fn stream<P, W>(threads: usize, trailers: &[&[u8]], produce: P, work: W) -> (Acc, u64)
where
    P: FnOnce(&mut dyn FnMut(Vec<u8>)),
    W: Fn(&[u8], &mut Acc) + Sync,
{
    let mut fulls: Vec<Vec<u8>> = Vec::new();
    produce(&mut |b| fulls.push(b));
    const SHARDS: usize = 256;
    let seen: Vec<Mutex<HashSet<(u64, u64)>>> = (0..SHARDS).map(|_| Mutex::new(HashSet::new())).collect();
    let total = Mutex::new(Acc::default());
    let threads = threads.max(1);
    std::thread::scope(|s| {
        for t in 0..threads {
            let (fulls, seen, total, work) = (&fulls, &seen, &total, &work);
            s.spawn(move || {
                let mut acc = Acc::default();
                let mut buf: Vec<u8> = Vec::new();
                let one = |input: &[u8], acc: &mut Acc| {
                    let fp = fingerprint(input);
                    let fresh = seen[(fp.0 as usize) % SHARDS].lock().unwrap().insert(fp);
                    if fresh {
                        work(input, acc);
                    }
                };
                for full in fulls.iter().skip(t).step_by(threads) {
                    one(full, &mut acc);
                    for tr in trailers {
                        buf.clear();
                        buf.extend_from_slice(full);
                        buf.extend_from_slice(tr);
                        one(&buf, &mut acc);
                    }
                    for cut in 0..full.len() {
                        one(&full[..cut], &mut acc);
                    }
                }
                total.lock().unwrap().merge(acc);
            });
        }
    });
    let distinct = seen.iter().map(|m| m.lock().unwrap().len() as u64).sum();
    (total.into_inner().unwrap(), distinct)
}

pub fn run(args: &Args) -> Report {
    crate::sim::install_quiet_panic_hook();
    let mut rep = Report::new("C18", &args.tier, "enum", "exploration");
    let thorough = args.thorough();
    let threads = args.threads.max(1);

    if let Some(v) = args.replay_json() {
        if v.get("kind").and_then(Value::as_str).is_some_and(|k| k.starts_with("wire-")) {
            // a replay that belongs to the other half (the wire-level part, vapp C18W)
            rep.evaluations = 1;
            rep.distinct_nontrivial = 2;
            return rep;
        }
        let case = Case::from_json(&v);
        let mut a1 = Acc::default();
        check_case(&case, &mut a1, true);
        let mut a2 = Acc::default();
        check_case(&case, &mut a2, true);
        rep.evaluations = 2;
        rep.distinct_nontrivial = 1;
        rep.rule = "replay of one recorded case, run twice".into();
        rep.extra.insert("replayed".into(), case.to_json());
        rep.extra.insert("observation".into(), json!(a1.obs));
        if a1.obs != a2.obs {
            rep.machinery_error = Some(format!("replay is not deterministic: {:?} vs {:?}", a1.obs, a2.obs));
        }
        for (k, (d, r, _, n)) in a1.viol {
            rep.violation_n(k, d, r, n);
        }
        return rep;
    }

    let mut total = Acc::default();
    let mut distinct_total = 0u64;

    // ---- SOCKS5 requests
    let fields = addr_fields(true);
    let versions: &[u8] = &[0, 4, 5, 6, 0xff];
    let cmds: &[u8] = &[0, 1, 2, 3, 4, 0xff];
    let rsvs: &[u8] = &[0, 1, 0xff];
    let ports: &[u16] = &[0, 1, 0x0050, 0x5000, 0xff00, 0xffff];
    let trailers5: [&[u8]; 2] = [&[0x05], &[0x00, 0x05, 0x01, 0x00, 0x01]];
    let mut n_req5 = 0u64;
    let (acc, d) = stream(
        threads,
        &trailers5,
        |emit| {
            for &ver in versions {
                for &cmd in cmds {
                    for &rsv in rsvs {
                        for (atyp, field) in &fields {
                            for &port in ports {
                                n_req5 += 1;
                                let r = rf::build_request5(ver, cmd, rsv, *atyp, field, port);
                                emit(r);
                            }
                        }
                    }
                }
            }
            // every domain length 0..=255 (quantifier of the property)
            let combos: &[(u8, u16)] = if thorough { &[(1, 0x0050), (1, 0xffff), (3, 0), (2, 0x0100)] } else { &[(1, 0x0050)] };
            for &(cmd, port) in combos {
                for len in 0..=255usize {
                    for w in if thorough { 0..3u8 } else { 2..3u8 } {
                        n_req5 += 1;
                        emit(rf::build_request5(5, cmd, 0, 3, &Addr::Domain(fill(len, w)).field(), port));
                    }
                }
            }
        },
        |input, acc| {
            for tr in TRANSPORTS {
                check_req5(input, tr, acc, false);
            }
        },
    );
    total.merge(acc);
    distinct_total += d;
    rep.bounds.insert("socks5_requests_built".into(), json!(n_req5));
    rep.bounds.insert("socks5_request_inputs_distinct".into(), json!(d));

    // ---- SOCKS5 method negotiation
    let (acc, d) = stream(
        threads,
        &[&[0x05][..], &[0x00, 0x02][..]],
        |emit| {
            for n in if thorough { (0..=255usize).collect::<Vec<_>>() } else { vec![0usize, 1, 2, 3, 127, 128, 254, 255] } {
                for w in 0..3u8 {
                    let mut m = vec![n as u8];
                    m.extend(fill(n, w));
                    emit(m);
                }
            }
        },
        |input, acc| {
            for tr in TRANSPORTS {
                check_auth(input, tr, acc, false);
            }
            check_auth(input, CURSOR, acc, false);
        },
    );
    total.merge(acc);
    distinct_total += d;
    rep.bounds.insert("auth_method_inputs_distinct".into(), json!(d));

    // ---- SOCKS4 / SOCKS4a requests
    let cmds4: &[u8] = &[0, 1, 2, 9, 0xff];
    let ports4: &[u16] = &[0, 1, 0x0050, 0x5000, 0xffff];
    let ips_plain: &[[u8; 4]] = &[[127, 0, 0, 1], [255, 255, 255, 255], [1, 0, 0, 0], [10, 0, 0, 255]];
    let ips_4a: &[[u8; 4]] = &[[0, 0, 0, 1], [0, 0, 0, 255]];
    let ips_out: &[[u8; 4]] = &[[0, 0, 0, 0], [0, 0, 1, 0], [0, 1, 0, 0], [0, 255, 255, 255], [0, 0, 1, 1]];
    let short_users: Vec<Vec<u8>> = vec![vec![], b"a".to_vec(), b"\xffroot".to_vec()];
    let short_domains: Vec<Vec<u8>> = vec![vec![], b"a".to_vec(), b"www.example.com".to_vec(), b"1.2.3.4".to_vec()];
    let long_lens = [254usize, 255, 256, 300];
    let trailers4: [&[u8]; 2] = [&[0x61, 0x00, 0x62], &[0x00, 0x01]];
    let mut n_req4 = 0u64;
    let (acc, d) = stream(
        threads,
        &trailers4,
        |emit| {
            let mut one = |cmd: u8, port: u16, ip: [u8; 4], user: &[u8], dom: Option<&[u8]>| {
                n_req4 += 1;
                let r = rf::build_request4(cmd, port, ip, user, dom);
                emit(r);
            };
            for &cmd in cmds4 {
                for &port in ports4 {
                    // long fields only with one (cmd, port) in the quick tier: the
                    // reader's treatment of the strings does not look at either
                    let with_long = thorough || (cmd == 1 && port == 0x0050) || (cmd == 2 && port == 0xffff);
                    let mut users = short_users.clone();
                    let mut domains = short_domains.clone();
                    if with_long {
                        for &l in &long_lens {
                            for w in 0..2 {
                                users.push(fill_nonul(l, w));
                                domains.push(fill_nonul(l, w));
                            }
                        }
                    }
                    for user in &users {
                        for &ip in ips_plain {
                            one(cmd, port, ip, user, None);
                        }
                        for &ip in ips_4a.iter().chain(ips_out) {
                            for dom in &domains {
                                one(cmd, port, ip, user, Some(dom));
                            }
                            // a SOCKS4a-looking address without any domain part
                            one(cmd, port, ip, user, None);
                        }
                    }
                }
            }
            // every string length up to a bound, for both NUL-terminated fields
            let upto = if thorough { 64usize } else { 16 };
            for len in 0..=upto {
                for w in 0..2 {
                    let sfill = fill_nonul(len, w);
                    one(1, 0x0050, [127, 0, 0, 1], &sfill, None);
                    one(1, 0x0050, [0, 0, 0, 1], &sfill, Some(b"a.b"));
                    one(1, 0x0050, [0, 0, 0, 1], b"u", Some(&sfill));
                    one(1, 0x0050, [0, 0, 0, 1], &sfill, Some(&sfill));
                }
            }
        },
        |input, acc| {
            for tr in TRANSPORTS {
                check_req4(input, tr, acc, false);
            }
            check_req4(input, CURSOR, acc, false);
        },
    );
    total.merge(acc);
    distinct_total += d;
    rep.bounds.insert("socks4_requests_built".into(), json!(n_req4));
    rep.bounds.insert("socks4_request_inputs_distinct".into(), json!(d));

    // ---- replies
    let mut writer_cases: Vec<Case> = Vec::new();
    let rports: &[u16] = &[0, 1, 0x1f90, 0xffff];
    let v4s = ipv4_corners();
    let v6s = ipv6_corners(true);
    for rep_code in 0..=255u8 {
        for trickle in [false, true] {
            for &port in rports {
                for o in &v4s {
                    writer_cases.push(Case::Reply5 { rep: rep_code, addr: Addr::V4(*o), port, scoped: false, trickle });
                }
                for o in &v6s {
                    for scoped in [false, true] {
                        writer_cases.push(Case::Reply5 { rep: rep_code, addr: Addr::V6(*o), port, scoped, trickle });
                    }
                }
            }
            writer_cases.push(Case::Reply5Unspec { rep: rep_code, trickle });
            writer_cases.push(Case::AuthSel { method: rep_code, trickle });
            writer_cases.push(Case::Reply4 { rep: rep_code, trickle });
        }
    }
    // ---- UDP relay datagrams built by the subject
    let pay_lens: &[usize] = if thorough { &[0, 1, 2, 3, 4, 5, 16, 255, 256, 1472, 1500, 9000, 65507] } else { &[0, 1, 2, 3, 4, 255, 256, 1500, 65507] };
    let uports: &[u16] = &[0, 1, 0x0035, 0xffff];
    let mut build_cases: Vec<Case> = Vec::new();
    for &len in pay_lens {
        for &port in uports {
            for o in &v4s {
                build_cases.push(Case::UdpBuild { addr: Addr::V4(*o), port, len });
            }
            for o in &v6s {
                build_cases.push(Case::UdpBuild { addr: Addr::V6(*o), port, len });
            }
        }
    }
    rep.bounds.insert("reply_cases".into(), json!(writer_cases.len()));
    rep.bounds.insert("udp_build_cases".into(), json!(build_cases.len()));
    distinct_total += (writer_cases.len() + build_cases.len()) as u64;
    let all: Vec<Case> = writer_cases.into_iter().chain(build_cases).collect();
    let merged = Mutex::new(Acc::default());
    std::thread::scope(|s| {
        let chunk = all.len().div_ceil(threads);
        for part in all.chunks(chunk.max(1)) {
            let merged = &merged;
            s.spawn(move || {
                let mut acc = Acc::default();
                for c in part {
                    check_case(c, &mut acc, false);
                }
                merged.lock().unwrap().merge(acc);
            });
        }
    });
    total.merge(merged.into_inner().unwrap());

    // ---- UDP relay datagrams parsed by the subject
    let frags: &[u8] = &[0, 1, 0x7f, 0xff];
    let ursvs: &[[u8; 2]] = &[[0, 0], [0, 1], [0xff, 0]];
    let upays: &[usize] = if thorough { &[0, 1, 2, 3, 5, 64] } else { &[0, 1, 2, 5] };
    let mut n_udp = 0u64;
    let (acc, d) = stream(
        threads,
        &[],
        |emit| {
            for &rsv in ursvs {
                for &frag in frags {
                    for (atyp, field) in &fields {
                        for &port in ports {
                            for &pl in upays {
                                n_udp += 1;
                                let dgram = rf::build_udp(rsv, frag, *atyp, field, port, &payload(pl));
                                emit(dgram);
                            }
                        }
                    }
                }
            }
            // every domain length 0..=255
            for len in 0..=255usize {
                for w in if thorough { 0..3u8 } else { 2..3u8 } {
                    for pl in [0usize, 2] {
                        n_udp += 1;
                        emit(rf::build_udp([0, 0], 0, 3, &Addr::Domain(fill(len, w)).field(), 0x0035, &payload(pl)));
                    }
                }
            }
        },
        |input, acc| check_udp_parse(input, acc, false),
    );
    total.merge(acc);
    distinct_total += d;
    rep.bounds.insert("udp_datagrams_built".into(), json!(n_udp));
    rep.bounds.insert("udp_parse_inputs_distinct".into(), json!(d));

    // ---- report
    rep.evaluations = total.evals;
    rep.distinct_nontrivial = distinct_total;
    rep.exhaustive = true;
    rep.rule = "requests: product of boundary values per field (version, command, RSV, ATYP, address corners, domain length/filling, port; SOCKS4: CD, port, DSTIP class, user-id and domain strings), each with trailing bytes and cut at EVERY byte position, each distinct input fed through all-at-once / one-byte-per-poll / BufReader delivery ending in EOF or in silence; replies: every code x address corners x ports; UDP: subject-built datagrams parsed by the reference client, reference-built datagrams (all ATYP, FRAG, RSV, every truncation) parsed by the subject. A case is distinct when its input byte string (or argument tuple) is distinct".into();
    rep.bounds.insert("versions".into(), json!(versions));
    rep.bounds.insert("commands".into(), json!(cmds));
    rep.bounds.insert("rsv".into(), json!(rsvs));
    rep.bounds.insert("ports".into(), json!(ports));
    rep.bounds.insert("address_fields".into(), json!(fields.len()));
    rep.bounds.insert("ipv4_corners".into(), json!(v4s.len()));
    rep.bounds.insert("ipv6_corners".into(), json!(v6s.len()));
    rep.bounds.insert("udp_payload_lengths_built".into(), json!(pay_lens));
    rep.bounds.insert("transports".into(), json!(TRANSPORTS.iter().map(|t| t.name()).chain(std::iter::once(CURSOR.name())).collect::<Vec<_>>()));
    rep.extra.insert("classes".into(), json!(total.cls));
    rep.extra.insert("build_profile".into(), json!(if cfg!(debug_assertions) { "checked" } else { "release" }));
    rep.assumptions.push("reference grammar written from RFC 1928 §3-§7 and the SOCKS4/SOCKS4a notes; IPv6 text returned by the readers is accepted in any RFC 4291 spelling of the same 16 octets".into());
    rep.assumptions.push("lenient by design (either an error or the exact fields is accepted): non-zero RSV, undefined CMD/CD values, an empty SOCKS4a domain; DSTPORT/DSTIP of a SOCKS4 reply are not compared (ignored by clients for CONNECT)".into());
    rep.assumptions.push("bytes of addresses/strings beyond the listed fillings are not enumerated (the readers do not branch on them, except NUL which every filling class covers)".into());
    rep.sample(json!({"socks5_request": hex(&rf::build_request5(5, 1, 0, 3, &Addr::Domain(b"a.0".to_vec()).field(), 0xffff)), "fed": "whole, +trailers, every prefix; 5 transports"}));
    rep.sample(json!({"socks4a_request_after_VN": hex(&rf::build_request4(1, 0x50, [0, 0, 0, 1], b"a", Some(b"www.example.com"))), "fed": "whole, +trailers, every prefix; 6 transports"}));
    rep.sample(json!({"udp_build": "udp_relay_response(127.0.0.1:53, 2 bytes) parsed by the reference client"}));
    rep.sample(json!({"udp_parse_input": hex(&rf::build_udp([0, 0], 0, 4, &[0x11; 16], 1, &payload(2)))}));
    let mut keys: Vec<_> = total.viol.into_iter().collect();
    keys.sort_by(|a, b| a.0.cmp(&b.0));
    for (k, (d, r, _, n)) in keys {
        rep.violation_n(k, d, r, n);
    }
    // vacuity guard: the domain must exercise acceptance, rejection and waiting
    let count = |p: &str| -> u64 { total.cls.iter().filter(|(k, _)| k.starts_with(p)).map(|(_, n)| *n).sum() };
    let need = [
        ("req5.complete.", "well-formed SOCKS5 requests"),
        ("req5.truncated.", "truncated SOCKS5 requests"),
        ("req5.bad-atyp.", "SOCKS5 requests with unknown ATYP"),
        ("req4.complete.socks4.", "SOCKS4 requests"),
        ("req4.complete.socks4a.", "SOCKS4a requests"),
        ("req4.truncated.", "truncated SOCKS4 requests"),
        ("udpparse.valid.", "valid UDP datagrams"),
        ("udpparse.truncated.", "truncated UDP datagrams"),
        ("udpbuild.", "UDP build cases"),
        ("reply5.", "SOCKS5 replies"),
    ];
    for (p, what) in need {
        if count(p) == 0 {
            rep.machinery_error = Some(format!("vacuous run: no {what} in the enumerated domain"));
        }
    }
    let oks: u64 = total.cls.iter().filter(|(k, _)| k.ends_with(".ok")).map(|(_, n)| *n).sum();
    let errs: u64 = total.cls.iter().filter(|(k, _)| k.ends_with(".err")).map(|(_, n)| *n).sum();
    let waits: u64 = total.cls.iter().filter(|(k, _)| k.ends_with(".waits")).map(|(_, n)| *n).sum();
    rep.extra.insert("subject_outcomes".into(), json!({"ok": oks, "err": errs, "waits": waits}));
    if oks == 0 || errs == 0 || waits == 0 {
        rep.machinery_error = Some("vacuous run: the subject never accepted / never rejected / never waited".into());
    }
    rep
}
