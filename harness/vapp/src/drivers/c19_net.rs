//! C19 helper: the scripted fake server, the real client under test, local
//! connections, and the shared observation log (all times are milliseconds since
//! `Shared::t0`, which is taken *before* the client is spawned).

use super::Beh;
use futures_util::{FutureExt, SinkExt, StreamExt};
use penguin_mux::Multiplexor;
use penguin_mux::timing::OptionalDuration;
use rusty_penguin_lib::arg::{ClientArgs, Remote, ServerUrl};
use rusty_penguin_lib::client;
use std::panic::AssertUnwindSafe;
use std::str::FromStr;
use std::sync::atomic::{AtomicBool, Ordering};
use std::sync::{Arc, Mutex};
use std::time::{Duration, Instant};
use tokio::io::{AsyncReadExt, AsyncWriteExt};
use tokio::net::{TcpListener, TcpStream};
use tokio::sync::Notify;
use tokio::task::JoinSet;
use tokio_tungstenite::tungstenite::Message;
use tokio_tungstenite::tungstenite::handshake::server::{ErrorResponse, Request, Response};

/// Forwarding target written into the remote specification; the healthy fake
/// server must be asked for exactly this target.
pub const TARGET_HOST: &str = "127.0.0.1";
pub const TARGET_PORT: u16 = 7;

/// A `silent` server answers Pings until it has written this many Pongs or this much time
/// has passed since the WebSocket handshake, whichever comes first.
pub const SILENT_PONGS: u32 = 2;
pub const SILENT_ANSWERS_FOR: Duration = Duration::from_millis(700);

/// What a `garbage` / `garbage-reply` server sends as one binary message: eight octets with an
/// operation code that does not exist (`penguin_mux::Error::InvalidFrame` at the client).
pub const GARBAGE: [u8; 8] = [0xff; 8];

#[derive(Clone, Debug, Default)]
pub struct AttemptLog {
    /// `accept()` returned at the fake server
    pub accept_ms: f64,
    /// behaviour played (None: an attempt beyond the end of the script; it is stalled)
    pub beh: Option<Beh>,
    /// an attempt beyond the end of a script that ends with `garbage` / `garbage-reply`: that behaviour is played again
    pub beyond: bool,
    pub hs_done_ms: Option<f64>,
    pub hs_err: Option<String>,
    /// taken immediately before / after the server's failure action (drop, Close, 404)
    pub act_before_ms: Option<f64>,
    pub act_after_ms: Option<f64>,
    /// first binary message (the `Connect` frame) seen by a `mute` / `garbage-reply` connection
    pub first_bin_ms: Option<f64>,
    /// the peer closed / the connection ended as seen by the server
    pub peer_end_ms: Option<f64>,
    /// `silent`: Pongs written so far, and the times taken immediately before / after the last one was flushed
    pub pongs: u32,
    pub pong_before_ms: Option<f64>,
    pub pong_after_ms: Option<f64>,
    /// `silent`: from here on the server neither reads nor writes (the TCP connection stays open)
    pub silent_ms: Option<f64>,
    /// `tls-stall`: first byte the client sent, peeked and left in the socket (0x16: a TLS handshake record);
    /// `tls-cut` / `tls-reset`: first byte of the record that was read before the connection was cut
    pub first_byte: Option<u8>,
    /// `tls-cut` / `tls-reset`: octets of the client's first TLS record (header included) read before the cut
    pub hello_len: Option<usize>,
}

#[derive(Clone, Debug)]
pub struct StreamLog {
    pub attempt: usize,
    pub host: String,
    pub port: u16,
}

#[derive(Clone, Debug)]
pub struct ClientEnd {
    pub t_ms: f64,
    pub class: String,
    pub text: String,
}

#[derive(Default)]
pub struct Log {
    pub attempts: Vec<AttemptLog>,
    pub streams: Vec<StreamLog>,
    pub client_end: Option<ClientEnd>,
}

pub struct Shared {
    pub t0: Instant,
    /// the `drop` steps end the TCP connection with a reset (SO_LINGER 0) instead of an orderly FIN: the client's
    /// transport fails with an I/O error (ECONNRESET) instead of "connection closed without a closing handshake"
    pub abortive: std::sync::atomic::AtomicBool,
    log: Mutex<Log>,
    notify: Notify,
}

impl Shared {
    pub fn new() -> Arc<Self> {
        Arc::new(Self { t0: Instant::now(), abortive: std::sync::atomic::AtomicBool::new(false), log: Mutex::new(Log::default()), notify: Notify::new() })
    }
    pub fn now_ms(&self) -> f64 {
        self.t0.elapsed().as_secs_f64() * 1000.0
    }
    /// Mutate the log and wake every waiter.
    pub fn with<R>(&self, f: impl FnOnce(&mut Log) -> R) -> R {
        let r = f(&mut self.log.lock().unwrap_or_else(std::sync::PoisonError::into_inner));
        self.notify.notify_waiters();
        r
    }
    pub fn read<R>(&self, f: impl FnOnce(&Log) -> R) -> R {
        f(&self.log.lock().unwrap_or_else(std::sync::PoisonError::into_inner))
    }
    /// Wait until `f` yields a value or `wait_ms` have passed.
    pub async fn wait<T>(&self, wait_ms: u64, f: impl Fn(&Log) -> Option<T>) -> Option<T> {
        let deadline = tokio::time::Instant::now() + Duration::from_millis(wait_ms);
        loop {
            let n = self.notify.notified();
            tokio::pin!(n);
            n.as_mut().enable();
            if let Some(x) = self.read(&f) {
                return Some(x);
            }
            tokio::select! {
                () = &mut n => {}
                () = tokio::time::sleep_until(deadline) => return self.read(&f),
            }
        }
    }
}

// ---------------------------------------------------------------------------------------
// scripted fake server
// ---------------------------------------------------------------------------------------

/// Plays `script[j]` on the j-th accepted connection; connections beyond the script are stalled --
/// unless the script ends with `garbage` / `garbage-reply`: a server that answers like that does so on
/// every connection, so a client that comes back after it is seen coming back again and again.
pub async fn serve(listener: TcpListener, script: Vec<Beh>, sh: Arc<Shared>) {
    let again = script.last().copied().filter(|b| matches!(b, Beh::Garbage | Beh::GarbageReply));
    let mut handlers = JoinSet::new();
    loop {
        let Ok((stream, _)) = listener.accept().await else {
            tokio::time::sleep(Duration::from_millis(5)).await;
            continue;
        };
        let t = sh.now_ms();
        let (j, beh) = sh.with(|l| {
            let j = l.attempts.len();
            let beh = script.get(j).copied().or(again);
            l.attempts.push(AttemptLog { accept_ms: t, beh, beyond: j >= script.len(), ..Default::default() });
            (j, beh)
        });
        handlers.spawn(handle(stream, j, beh, sh.clone()));
    }
}

async fn drain_tcp(stream: &mut TcpStream, max: Duration) {
    let mut buf = [0u8; 2048];
    let _ = tokio::time::timeout(max, async {
        loop {
            match stream.read(&mut buf).await {
                Ok(0) | Err(_) => break,
                Ok(_) => {}
            }
        }
    })
    .await;
}

async fn read_http_head(stream: &mut TcpStream) {
    let mut head = Vec::new();
    let mut buf = [0u8; 1024];
    let _ = tokio::time::timeout(Duration::from_secs(30), async {
        while !head.windows(4).any(|w| w == b"\r\n\r\n") {
            match stream.read(&mut buf).await {
                Ok(0) | Err(_) => break,
                Ok(n) => head.extend_from_slice(&buf[..n]),
            }
        }
    })
    .await;
}

/// Echo the first offered subprotocol back (what a conforming server does for `penguin-v7`).
#[allow(clippy::result_large_err)]
fn echo_subprotocol(req: &Request, mut resp: Response) -> Result<Response, ErrorResponse> {
    if let Some(v) = req.headers().get("sec-websocket-protocol") {
        let first = v.to_str().unwrap_or("").split(',').next().unwrap_or("").trim().to_string();
        if let Ok(hv) = first.parse() {
            resp.headers_mut().insert("sec-websocket-protocol", hv);
        }
    }
    Ok(resp)
}

/// healthy: a real multiplexor that echoes every stream
async fn healthy<S>(ws: tokio_tungstenite::WebSocketStream<S>, j: usize, sh: &Arc<Shared>)
where
    S: tokio::io::AsyncRead + tokio::io::AsyncWrite + Unpin + Send + 'static,
{
    let mux = Multiplexor::new(ws);
    while let Ok(s) = mux.accept_stream_channel().await {
        let host = String::from_utf8_lossy(&s.dest_host).to_string();
        let port = s.dest_port;
        sh.with(|l| l.streams.push(StreamLog { attempt: j, host, port }));
        tokio::spawn(async move {
            let (mut r, mut w) = tokio::io::split(s);
            let mut buf = [0u8; 4096];
            loop {
                match r.read(&mut buf).await {
                    Ok(0) | Err(_) => break,
                    Ok(n) => {
                        if w.write_all(&buf[..n]).await.is_err() || w.flush().await.is_err() {
                            break;
                        }
                    }
                }
            }
            let _ = w.shutdown().await;
        });
    }
    let t = sh.now_ms();
    sh.with(|l| l.attempts[j].peer_end_ms = Some(t));
}

/// The TLS side of the `tls-healthy` server: a self-signed certificate for 127.0.0.1, made once per process
/// (the client runs with `--tls-skip-verify`).
fn tls_server_config() -> Result<Arc<rustls::ServerConfig>, String> {
    static CFG: std::sync::OnceLock<Result<Arc<rustls::ServerConfig>, String>> = std::sync::OnceLock::new();
    CFG.get_or_init(|| {
        let ck = rcgen::generate_simple_self_signed(vec!["127.0.0.1".to_string(), "localhost".to_string()]).map_err(|e| format!("rcgen: {e}"))?;
        let cert = ck.cert.der().clone();
        let key = rustls::pki_types::PrivateKeyDer::Pkcs8(rustls::pki_types::PrivatePkcs8KeyDer::from(ck.signing_key.serialize_der()));
        let cfg = rustls::ServerConfig::builder().with_no_client_auth().with_single_cert(vec![cert], key).map_err(|e| format!("rustls server config: {e}"))?;
        Ok(Arc::new(cfg))
    })
    .clone()
}

/// Read the client's first TLS record completely (5 octets of header, then the announced length): after that a
/// TLS client says nothing more before it has heard from the server, so a close sends a FIN, not a reset.
/// Returns (first octet, octets read).
async fn read_first_tls_record(stream: &mut TcpStream) -> (Option<u8>, usize) {
    let mut got = 0usize;
    let mut first = None;
    let _ = tokio::time::timeout(Duration::from_secs(60), async {
        let mut hdr = [0u8; 5];
        while got < 5 {
            match stream.read(&mut hdr[got..]).await {
                Ok(0) | Err(_) => return,
                Ok(n) => {
                    got += n;
                    first = Some(hdr[0]);
                }
            }
        }
        let mut left = usize::from(u16::from_be_bytes([hdr[3], hdr[4]]));
        let mut buf = [0u8; 4096];
        while left > 0 {
            let want = left.min(buf.len());
            match stream.read(&mut buf[..want]).await {
                Ok(0) | Err(_) => return,
                Ok(n) => {
                    got += n;
                    left -= n;
                }
            }
        }
    })
    .await;
    (first, got)
}

async fn handle(mut stream: TcpStream, j: usize, beh: Option<Beh>, sh: Arc<Shared>) {
    let set = |f: &dyn Fn(&mut AttemptLog, f64)| {
        let t = sh.now_ms();
        sh.with(|l| f(&mut l.attempts[j], t));
    };
    let Some(beh) = beh else {
        drain_tcp(&mut stream, Duration::from_secs(120)).await;
        return;
    };
    match beh {
        Beh::Stall => {
            drain_tcp(&mut stream, Duration::from_secs(120)).await;
            set(&|a, t| a.peer_end_ms = Some(t));
        }
        Beh::TlsStall => {
            // never answers the TLS ClientHello: nothing is consumed, nothing is written, the
            // connection stays open (the peek only shows what the client opened with)
            let mut b = [0u8; 1];
            if let Ok(Ok(1)) = tokio::time::timeout(Duration::from_secs(60), stream.peek(&mut b)).await {
                sh.with(|l| l.attempts[j].first_byte = Some(b[0]));
            }
            tokio::time::sleep(Duration::from_secs(120)).await;
            drop(stream);
        }
        Beh::Reset => {
            set(&|a, t| a.act_before_ms = Some(t));
            drop(stream);
            set(&|a, t| a.act_after_ms = Some(t));
        }
        Beh::TlsCut | Beh::TlsReset => {
            // the server (a TLS proxy that is restarting ...) reads the ClientHello and then cuts the connection
            // without a single octet of TLS: with a FIN (`tls-cut`: the client's TLS handshake sees an unexpected
            // end of stream) or with a reset (`tls-reset`, SO_LINGER 0: it sees ECONNRESET)
            let (first, got) = read_first_tls_record(&mut stream).await;
            sh.with(|l| {
                l.attempts[j].first_byte = first;
                l.attempts[j].hello_len = Some(got);
            });
            set(&|a, t| a.act_before_ms = Some(t));
            if beh == Beh::TlsReset {
                #[allow(deprecated)]
                let _ = stream.set_linger(Some(Duration::ZERO));
            }
            drop(stream);
            set(&|a, t| a.act_after_ms = Some(t));
        }
        Beh::TlsHealthy => {
            // a healthy `wss://` server: TLS, WebSocket upgrade, then a real multiplexor that echoes every stream
            let cfg = match tls_server_config() {
                Ok(c) => c,
                Err(e) => {
                    sh.with(|l| l.attempts[j].hs_err = Some(e));
                    return;
                }
            };
            let tls = match tokio_rustls::TlsAcceptor::from(cfg).accept(stream).await {
                Ok(s) => s,
                Err(e) => {
                    let e = format!("TLS accept: {e:?}");
                    sh.with(|l| l.attempts[j].hs_err = Some(e));
                    return;
                }
            };
            match tokio_tungstenite::accept_hdr_async(tls, echo_subprotocol).await {
                Ok(ws) => {
                    set(&|a, t| a.hs_done_ms = Some(t));
                    healthy(ws, j, &sh).await;
                }
                Err(e) => {
                    let e = format!("{e:?}");
                    sh.with(|l| l.attempts[j].hs_err = Some(e));
                }
            }
        }
        Beh::Http404 => {
            read_http_head(&mut stream).await;
            set(&|a, t| a.act_before_ms = Some(t));
            let _ = stream.write_all(b"HTTP/1.1 404 Not Found\r\nContent-Length: 0\r\nConnection: close\r\n\r\n").await;
            let _ = stream.shutdown().await;
            set(&|a, t| a.act_after_ms = Some(t));
            drain_tcp(&mut stream, Duration::from_secs(10)).await;
            set(&|a, t| a.peer_end_ms = Some(t));
        }
        Beh::Close0 | Beh::Close300 | Beh::CloseHold | Beh::Drop | Beh::Mute | Beh::Silent | Beh::Healthy | Beh::Garbage | Beh::GarbageReply => {
            let mut ws = match tokio_tungstenite::accept_hdr_async(stream, echo_subprotocol).await {
                Ok(ws) => ws,
                Err(e) => {
                    let e = format!("{e:?}");
                    sh.with(|l| l.attempts[j].hs_err = Some(e));
                    return;
                }
            };
            set(&|a, t| a.hs_done_ms = Some(t));
            match beh {
                Beh::Close0 | Beh::Close300 => {
                    if beh == Beh::Close300 {
                        tokio::time::sleep(Duration::from_millis(300)).await;
                    }
                    set(&|a, t| a.act_before_ms = Some(t));
                    let _ = ws.send(Message::Close(None)).await;
                    set(&|a, t| a.act_after_ms = Some(t));
                    // orderly: wait for the peer's Close / EOF, then drop
                    let _ = tokio::time::timeout(Duration::from_secs(30), async { while let Some(Ok(_)) = ws.next().await {} }).await;
                    set(&|a, t| a.peer_end_ms = Some(t));
                }
                Beh::CloseHold => {
                    set(&|a, t| a.act_before_ms = Some(t));
                    let _ = ws.send(Message::Close(None)).await;
                    set(&|a, t| a.act_after_ms = Some(t));
                    // reads the client's answer, then neither closes the TCP connection nor says anything any more
                    let _ = tokio::time::timeout(Duration::from_secs(30), async { while let Some(Ok(_)) = ws.next().await {} }).await;
                    set(&|a, t| a.peer_end_ms = Some(t));
                    tokio::time::sleep(Duration::from_secs(120)).await;
                    drop(ws);
                }
                Beh::Drop => {
                    set(&|a, t| a.act_before_ms = Some(t));
                    if sh.abortive.load(std::sync::atomic::Ordering::SeqCst) {
                        let _ = ws.get_ref().set_linger(Some(Duration::ZERO));
                    }
                    drop(ws);
                    set(&|a, t| a.act_after_ms = Some(t));
                }
                Beh::Silent => {
                    // answers Pings for a short while (tungstenite queues the Pong when the Ping
                    // is read; it is written by the flush below), then neither reads nor writes
                    // any more while the TCP connection stays open
                    let started = Instant::now();
                    let mut pongs = 0u32;
                    while pongs < SILENT_PONGS {
                        let left = SILENT_ANSWERS_FOR.saturating_sub(started.elapsed());
                        if left.is_zero() {
                            break;
                        }
                        match tokio::time::timeout(left, ws.next()).await {
                            Err(_) => break,
                            Ok(Some(Ok(Message::Ping(_)))) => {
                                let before = sh.now_ms();
                                let ok = ws.flush().await.is_ok();
                                let after = sh.now_ms();
                                if ok {
                                    pongs += 1;
                                    sh.with(|l| {
                                        let a = &mut l.attempts[j];
                                        a.pongs = pongs;
                                        a.pong_before_ms = Some(before);
                                        a.pong_after_ms = Some(after);
                                    });
                                }
                            }
                            Ok(Some(Ok(m))) => {
                                if matches!(m, Message::Binary(_)) {
                                    let t = sh.now_ms();
                                    sh.with(|l| {
                                        let a = &mut l.attempts[j];
                                        if a.first_bin_ms.is_none() {
                                            a.first_bin_ms = Some(t);
                                        }
                                    });
                                }
                            }
                            Ok(Some(Err(_)) | None) => {
                                set(&|a, t| a.peer_end_ms = Some(t));
                                return;
                            }
                        }
                    }
                    set(&|a, t| a.silent_ms = Some(t));
                    tokio::time::sleep(Duration::from_secs(120)).await;
                    drop(ws);
                }
                Beh::Garbage | Beh::GarbageReply => {
                    if beh == Beh::GarbageReply {
                        // waits for the client's first binary message (the `Connect` of a local connection)
                        let first = tokio::time::timeout(Duration::from_secs(120), async {
                            loop {
                                match ws.next().await {
                                    Some(Ok(Message::Binary(_))) => break true,
                                    Some(Ok(_)) => {}
                                    Some(Err(_)) | None => break false,
                                }
                            }
                        })
                        .await;
                        if !matches!(first, Ok(true)) {
                            set(&|a, t| a.peer_end_ms = Some(t));
                            return;
                        }
                        set(&|a, t| a.first_bin_ms = Some(t));
                    }
                    // one binary message that is not a frame of the protocol ...
                    set(&|a, t| a.act_before_ms = Some(t));
                    let _ = ws.send(Message::Binary(GARBAGE.to_vec().into())).await;
                    set(&|a, t| a.act_after_ms = Some(t));
                    // ... then reads until the peer ends the connection (the server does not tear it down)
                    let _ = tokio::time::timeout(Duration::from_secs(120), async { while let Some(Ok(_)) = ws.next().await {} }).await;
                    set(&|a, t| a.peer_end_ms = Some(t));
                }
                Beh::Mute => {
                    // reads everything, never answers a `Connect`
                    let _ = tokio::time::timeout(Duration::from_secs(120), async {
                        while let Some(Ok(m)) = ws.next().await {
                            if matches!(m, Message::Binary(_)) {
                                let t = sh.now_ms();
                                sh.with(|l| {
                                    let a = &mut l.attempts[j];
                                    if a.first_bin_ms.is_none() {
                                        a.first_bin_ms = Some(t);
                                    }
                                });
                            }
                        }
                    })
                    .await;
                    set(&|a, t| a.peer_end_ms = Some(t));
                }
                _ => healthy(ws, j, &sh).await,
            }
        }
    }
}

// ---------------------------------------------------------------------------------------
// the client under test
// ---------------------------------------------------------------------------------------

fn panic_text(e: &(dyn std::any::Any + Send)) -> String {
    if let Some(s) = e.downcast_ref::<String>() {
        s.clone()
    } else if let Some(s) = e.downcast_ref::<&str>() {
        (*s).to_string()
    } else {
        "panic".into()
    }
}

#[allow(unreachable_patterns)]
fn classify(e: &client::Error) -> String {
    use client::Error as E;
    match e {
        E::MaxRetryCountReached(_) => "max-retry".into(),
        E::RemoteHandlerExited(_) => "remote-handler-exited".into(),
        E::InvalidDomainName(_) => "invalid-domain-name".into(),
        E::Tungstenite(tokio_tungstenite::tungstenite::Error::Http(_)) => "http-error".into(),
        E::Tungstenite(_) => "tungstenite".into(),
        E::TcpConnect(_) => "tcp-connect".into(),
        E::Tls(_) => "tls".into(),
        E::Mux(penguin_mux::Error::InvalidFrame(_)) => "invalid-frame".into(),
        E::Mux(_) => "mux".into(),
        E::HandshakeTimeout => "handshake-timeout".into(),
        E::Cancelled => "cancelled".into(),
        E::StreamRequestTimeout => "stream-request-timeout".into(),
        E::ServerDisconnected => "server-disconnected".into(),
        _ => "other".into(),
    }
}

/// What the client under test is started with (everything else is the default).
#[derive(Clone, Copy, Debug)]
pub struct ClientCfg {
    pub sport: u16,
    pub lport: u16,
    pub max_retry_count: u32,
    pub max_retry_interval_ms: u64,
    /// `--keepalive` / `--keepalive-timeout` in ms (None: keepalive off)
    pub keepalive_ms: Option<(u64, u64)>,
    /// `wss://` server URL with `--tls-skip-verify` instead of `ws://`
    pub wss: bool,
    pub handshake_timeout_ms: u64,
    pub channel_timeout_ms: u64,
    /// a second remote: UDP, `127.0.0.1:<port>` -> TARGET
    pub udp_lport: Option<u16>,
    /// a second TCP remote `127.0.0.1:<port>` -> TARGET (family L: several local connections pending at once)
    pub lport2: Option<u16>,
    /// family M: the (first) local entry on `lport` is a SOCKS listener (`127.0.0.1:<lport>:socks`) instead of a TCP remote
    pub socks: bool,
}

/// Spawn the real `client_main_inner` with one TCP remote `127.0.0.1:lport -> TARGET` (family M: or one SOCKS listener
/// on `127.0.0.1:lport`) and, optionally, a second TCP remote and / or a UDP remote to the same target.
pub fn spawn_client(cfg: ClientCfg, sh: Arc<Shared>) -> tokio::task::JoinHandle<()> {
    let ClientCfg { sport, lport, .. } = cfg;
    let ms = |x: u64| OptionalDuration::from(Duration::from_millis(x));
    let args = ClientArgs {
        server: ServerUrl::from_str(&format!("{}://127.0.0.1:{sport}/ws", if cfg.wss { "wss" } else { "ws" })).expect("server url"),
        remote: {
            let mut v = vec![if cfg.socks { Remote::from_str(&format!("127.0.0.1:{lport}:socks")).expect("socks remote") } else { Remote::from_str(&format!("127.0.0.1:{lport}:{TARGET_HOST}:{TARGET_PORT}")).expect("remote") }];
            if let Some(l2) = cfg.lport2 {
                v.push(Remote::from_str(&format!("127.0.0.1:{l2}:{TARGET_HOST}:{TARGET_PORT}")).expect("second remote"));
            }
            if let Some(u) = cfg.udp_lport {
                v.push(Remote::from_str(&format!("127.0.0.1:{u}:{TARGET_HOST}:{TARGET_PORT}/udp")).expect("udp remote"));
            }
            v
        },
        keepalive: cfg.keepalive_ms.map_or(OptionalDuration::NONE, |(i, _)| ms(i)),
        keepalive_timeout: cfg.keepalive_ms.map_or(OptionalDuration::NONE, |(_, t)| ms(t)),
        max_retry_count: cfg.max_retry_count,
        max_retry_interval: cfg.max_retry_interval_ms,
        handshake_timeout: ms(cfg.handshake_timeout_ms),
        channel_timeout: ms(cfg.channel_timeout_ms),
        tls_skip_verify: cfg.wss,
        ..Default::default()
    };
    let args: &'static ClientArgs = Box::leak(Box::new(args));
    let (hr, srx, drx) = client::HandlerResources::create();
    let hr: &'static client::HandlerResources = Box::leak(Box::new(hr));
    tokio::spawn(async move {
        let r = AssertUnwindSafe(client::client_main_inner(args, hr, srx, drx)).catch_unwind().await;
        let (class, text) = match &r {
            Ok(Ok(())) => ("ok".to_string(), "Ok(())".to_string()),
            Ok(Err(e)) => (classify(e), format!("{e:?}")),
            Err(p) => ("panic".to_string(), panic_text(&**p)),
        };
        let t_ms = sh.now_ms();
        sh.with(|l| l.client_end = Some(ClientEnd { t_ms, class, text: text.chars().take(300).collect() }));
    })
}

/// A port that was free a moment ago (the subject binds its local listener itself, so
/// the port cannot be read back; the caller retries the scenario on `AddrInUse`).
pub fn free_port() -> std::io::Result<u16> {
    let l = std::net::TcpListener::bind("127.0.0.1:0")?;
    Ok(l.local_addr()?.port())
}

// ---------------------------------------------------------------------------------------
// local connections (the users of the tunnel)
// ---------------------------------------------------------------------------------------

/// (the times are evidence: they are printed with the observation)
#[allow(dead_code)]
#[derive(Clone, Debug)]
pub enum LocalRes {
    /// the token came back unmodified
    Echo { connected_ms: f64, echo_ms: f64 },
    /// the listener refused the connection
    Refused { t_ms: f64, err: String, startup: bool },
    /// the connection was closed / reset by the client before the whole token came back
    Closed { connected_ms: f64, closed_ms: f64, got: usize, err: String },
    /// bytes came back, but not the token
    Corrupt { connected_ms: f64, got_hex: String },
}

#[allow(dead_code)]
pub struct LocalConn {
    /// why it was opened: "down", "timeout", "nudge", "probe", "several" (family L)
    pub origin: &'static str,
    /// which TCP remote of the client it was made to (0: the first, 1: the second)
    pub remote: usize,
    /// its stream request went through a `mute` connection (and timed out there)
    pub through_mute: bool,
    /// taken before `connect()` was called
    pub open_before_ms: f64,
    pub token: Vec<u8>,
    pub task: tokio::task::JoinHandle<LocalRes>,
    /// filled by the controller once it has waited for the result
    pub result: Option<LocalRes>,
    pub deadline_hit: bool,
}

/// Open a local connection, send a token, wait for its echo. `startup` allows
/// `ConnectionRefused` for a while (the client binds its listener asynchronously).
///
/// `socks`: the local entry is a SOCKS listener: the connection first asks for TARGET with a SOCKS5 CONNECT in lock-step
/// (greeting, method reply, request, reply) and needs a well-formed success reply before the token travels.
pub fn open_local(lport: u16, socks: bool, origin: &'static str, idx: usize, listener_seen: Arc<AtomicBool>, sh: &Arc<Shared>) -> LocalConn {
    let token: Vec<u8> = format!("C19-token-{origin}-{idx}-{lport}-0123456789abcdef").into_bytes();
    let open_before_ms = sh.now_ms();
    let sh2 = sh.clone();
    let tok = token.clone();
    let task = tokio::spawn(async move {
        let sh = sh2;
        let started = Instant::now();
        // the client binds its listener asynchronously: refusals are part of the start-up
        // until some local connection has been accepted once
        let startup = !listener_seen.load(Ordering::SeqCst);
        let mut s = loop {
            match TcpStream::connect(("127.0.0.1", lport)).await {
                Ok(s) => break s,
                Err(e) if e.kind() == std::io::ErrorKind::ConnectionRefused && !listener_seen.load(Ordering::SeqCst) && started.elapsed() < Duration::from_secs(20) => {
                    tokio::time::sleep(Duration::from_millis(20)).await;
                }
                Err(e) => return LocalRes::Refused { t_ms: sh.now_ms(), err: e.to_string(), startup: startup && !listener_seen.load(Ordering::SeqCst) },
            }
        };
        listener_seen.store(true, Ordering::SeqCst);
        let connected_ms = sh.now_ms();
        if socks {
            match socks5_connect(&mut s).await {
                Ok(()) => {}
                Err(SocksFail::Io(err)) => return LocalRes::Closed { connected_ms, closed_ms: sh.now_ms(), got: 0, err },
                Err(SocksFail::Malformed(got_hex)) => return LocalRes::Corrupt { connected_ms, got_hex },
            }
        }
        if let Err(e) = s.write_all(&tok).await {
            return LocalRes::Closed { connected_ms, closed_ms: sh.now_ms(), got: 0, err: format!("write: {e}") };
        }
        let mut got = Vec::new();
        let mut buf = [0u8; 256];
        while got.len() < tok.len() {
            match s.read(&mut buf).await {
                Ok(0) => return LocalRes::Closed { connected_ms, closed_ms: sh.now_ms(), got: got.len(), err: "eof".into() },
                Err(e) => return LocalRes::Closed { connected_ms, closed_ms: sh.now_ms(), got: got.len(), err: e.to_string() },
                Ok(n) => got.extend_from_slice(&buf[..n]),
            }
        }
        if got == tok { LocalRes::Echo { connected_ms, echo_ms: sh.now_ms() } } else { LocalRes::Corrupt { connected_ms, got_hex: crate::report::hex(&got[..got.len().min(64)]) } }
    });
    LocalConn { origin, remote: 0, through_mute: false, open_before_ms, token, task, result: None, deadline_hit: false }
}

impl LocalConn {
    /// Wait (bounded) for the outcome of this connection.
    pub async fn settle(&mut self, wait_ms: u64) {
        if self.result.is_some() {
            return;
        }
        match tokio::time::timeout(Duration::from_millis(wait_ms), &mut self.task).await {
            Ok(Ok(r)) => self.result = Some(r),
            Ok(Err(e)) => self.result = Some(LocalRes::Closed { connected_ms: -1.0, closed_ms: -1.0, got: 0, err: format!("harness task: {e}") }),
            Err(_) => self.deadline_hit = true,
        }
    }
    /// Non-blocking look at the outcome (used for connections that may legitimately stay pending).
    pub async fn peek(&mut self) {
        if self.result.is_none() && self.task.is_finished() {
            self.settle(1000).await;
        }
    }
}

// ---------------------------------------------------------------------------------------
// family M: SOCKS5 on the local side, and the local client that goes away while its request waits
// ---------------------------------------------------------------------------------------

/// `05 01 00`: version 5, one method, NO AUTHENTICATION REQUIRED
pub const SOCKS5_GREETING: [u8; 3] = [5, 1, 0];

/// `05 01 00 01 <target ip> <target port>`: CONNECT to TARGET (IPv4)
pub fn socks5_request() -> Vec<u8> {
    let ip: std::net::Ipv4Addr = TARGET_HOST.parse().expect("TARGET_HOST is an IPv4 address");
    let mut v = vec![5, 1, 0, 1];
    v.extend_from_slice(&ip.octets());
    v.extend_from_slice(&TARGET_PORT.to_be_bytes());
    v
}

enum SocksFail {
    /// the connection ended / failed, or the proxy refused (REP != 0): not served
    Io(String),
    /// bytes that are not a SOCKS5 answer
    Malformed(String),
}

/// SOCKS5 CONNECT to TARGET in lock-step; `Ok` after a well-formed success reply (RFC 1928 section 6: VER 5, REP 0,
/// RSV 0, ATYP 1 / 3 / 4 with an address of the matching length and a port) has been read completely.
async fn socks5_connect(s: &mut TcpStream) -> Result<(), SocksFail> {
    let io = |what: &str, e: std::io::Error| SocksFail::Io(format!("socks {what}: {}", if e.kind() == std::io::ErrorKind::UnexpectedEof { "eof".to_string() } else { e.to_string() }));
    s.write_all(&SOCKS5_GREETING).await.map_err(|e| io("greeting", e))?;
    let mut m = [0u8; 2];
    s.read_exact(&mut m).await.map_err(|e| io("method reply", e))?;
    if m != [5, 0] {
        return Err(SocksFail::Malformed(format!("method reply {}", crate::report::hex(&m))));
    }
    s.write_all(&socks5_request()).await.map_err(|e| io("request", e))?;
    let mut h = [0u8; 4];
    s.read_exact(&mut h).await.map_err(|e| io("reply", e))?;
    if h[0] != 5 || h[2] != 0 || !matches!(h[3], 1 | 3 | 4) {
        return Err(SocksFail::Malformed(format!("reply {}", crate::report::hex(&h))));
    }
    if h[1] != 0 {
        return Err(SocksFail::Io(format!("socks reply: REP={:#04x}", h[1])));
    }
    let alen = match h[3] {
        1 => 4,
        4 => 16,
        _ => {
            let mut l = [0u8; 1];
            s.read_exact(&mut l).await.map_err(|e| io("reply address", e))?;
            usize::from(l[0])
        }
    };
    let mut rest = vec![0u8; alen + 2];
    s.read_exact(&mut rest).await.map_err(|e| io("reply address", e))?;
    Ok(())
}

/// How the local client of family M goes away while its stream request waits in the client.
#[derive(Clone, Copy, Debug, PartialEq, Eq, Hash)]
pub enum GoAway {
    /// orderly close: everything that had arrived was read, then `close()` (FIN)
    Fin,
    /// abortive close: SO_LINGER 0, then `close()` (RST)
    RstLinger,
    /// `close()` while received data is unread (the SOCKS method reply): the kernel sends a RST instead of a FIN.
    /// SOCKS entry only: a TCP remote sends nothing to the local client while the tunnel is down
    RstUnread,
}

impl GoAway {
    pub const ALL: [GoAway; 3] = [GoAway::Fin, GoAway::RstLinger, GoAway::RstUnread];
    pub fn name(self) -> &'static str {
        match self {
            GoAway::Fin => "fin",
            GoAway::RstLinger => "rst-linger0",
            GoAway::RstUnread => "rst-unread-data",
        }
    }
    pub fn parse(s: &str) -> Option<Self> {
        Self::ALL.into_iter().find(|g| g.name() == s)
    }
}

/// What the local client that goes away did (evidence; nothing is owed to it).
#[derive(Clone, Debug, Default)]
pub struct GoerLog {
    pub open_before_ms: f64,
    pub connected_ms: Option<f64>,
    /// everything it had to say was written (SOCKS: greeting ++ CONNECT request in one write; TCP remote: a few octets)
    pub sent_ms: Option<f64>,
    /// SOCKS: the method reply (`05 00`) had arrived -- read, or (rst-unread-data) seen and left unread -- i.e. the
    /// client's SOCKS handler had the connection and was past the greeting when the local client went away
    pub method_reply: Option<String>,
    /// taken after `close()` returned
    pub gone_ms: Option<f64>,
    pub err: Option<String>,
}

/// The local client A of family M: connects to the local entry, says what it has to say at once (SOCKS: greeting and
/// CONNECT request in ONE write without waiting for the method reply; TCP remote: a few octets of payload), waits
/// until the client's handler can be taken to have its stream request under way (SOCKS: the method reply has arrived;
/// then a moment more), and goes away in the given way.  It never waits for the tunnel.
pub async fn run_goer(lport: u16, socks: bool, how: GoAway, listener_seen: Arc<AtomicBool>, sh: Arc<Shared>) -> GoerLog {
    let mut g = GoerLog { open_before_ms: sh.now_ms(), ..Default::default() };
    let started = Instant::now();
    let mut s = loop {
        match TcpStream::connect(("127.0.0.1", lport)).await {
            Ok(s) => break s,
            Err(e) if e.kind() == std::io::ErrorKind::ConnectionRefused && !listener_seen.load(Ordering::SeqCst) && started.elapsed() < Duration::from_secs(20) => {
                tokio::time::sleep(Duration::from_millis(10)).await;
            }
            Err(e) => {
                g.err = Some(format!("connect: {e}"));
                return g;
            }
        }
    };
    listener_seen.store(true, Ordering::SeqCst);
    g.connected_ms = Some(sh.now_ms());
    let hello: Vec<u8> = if socks {
        let mut v = SOCKS5_GREETING.to_vec();
        v.extend_from_slice(&socks5_request());
        v
    } else {
        b"C19-going-away".to_vec()
    };
    match s.write_all(&hello).await {
        Ok(()) => g.sent_ms = Some(sh.now_ms()),
        Err(e) => g.err = Some(format!("write: {e}")),
    }
    if socks && g.err.is_none() {
        // the method reply: read (so that nothing is unread at the close), or only waited for and left in the socket
        let mut m = [0u8; 2];
        let r = tokio::time::timeout(Duration::from_secs(20), async {
            if how == GoAway::RstUnread {
                loop {
                    match s.peek(&mut m).await {
                        Ok(2) => break Ok(()),
                        Ok(0) => break Err("eof".to_string()),
                        Ok(_) => tokio::time::sleep(Duration::from_millis(2)).await,
                        Err(e) => break Err(e.to_string()),
                    }
                }
            } else {
                s.read_exact(&mut m).await.map(|_| ()).map_err(|e| e.to_string())
            }
        })
        .await;
        match r {
            Ok(Ok(())) => g.method_reply = Some(crate::report::hex(&m)),
            Ok(Err(e)) => g.err = Some(format!("method reply: {e}")),
            Err(_) => g.err = Some("method reply: none within 20 s".into()),
        }
    }
    // (the handler takes the request out of its buffer and asks the main loop for a stream: microseconds)
    tokio::time::sleep(Duration::from_millis(40)).await;
    if how == GoAway::RstLinger {
        #[allow(deprecated)]
        if let Err(e) = s.set_linger(Some(Duration::ZERO)) {
            g.err = Some(format!("SO_LINGER: {e}"));
        }
    }
    drop(s);
    g.gone_ms = Some(sh.now_ms());
    g
}
