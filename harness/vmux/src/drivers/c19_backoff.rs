//! C19 (back-off half) — `penguin_mux::timing::Backoff` against the closed form.
//!
//! For every (initial, max, multiplier, max_count) tuple of the bound and
//! every sequence over {advance, reset} up to the length bound, the k-th
//! `advance` since construction or the last `reset` (k counted from 0) must
//! return `Some(min(initial * mult^k, max))`, or `None` once `max_count`
//! advances have been granted (`max_count == 0`: never `None`); `reset`
//! starts again from the shortest delay.

use crate::report::Report;
use core::time::Duration;
use penguin_mux::timing::Backoff;
use serde_json::{Value, json};
use std::panic::{AssertUnwindSafe, catch_unwind};

/// The closed form, in nanoseconds, saturating (only compared below `max`).
fn closed_form(initial: Duration, max: Duration, mult: u32, k: u32) -> Duration {
    let mut v: u128 = initial.as_nanos();
    let cap: u128 = max.as_nanos();
    for _ in 0..k {
        v = v.saturating_mul(u128::from(mult));
        if v > cap {
            // min(.., max) is absorbing for mult >= 1; for mult == 0 the product is 0 from here on
            if mult >= 1 {
                return max;
            }
        }
    }
    let v = v.min(cap);
    Duration::new((v / 1_000_000_000) as u64, (v % 1_000_000_000) as u32)
}

#[derive(Clone, Copy)]
struct Params {
    initial: Duration,
    max: Duration,
    mult: u32,
    max_count: u32,
}

fn replay_json(p: Params, ops: &[bool]) -> Value {
    json!({
        "kind": "backoff",
        "initial_ns": p.initial.as_nanos() as u64,
        "max_ns": p.max.as_nanos() as u64,
        "mult": p.mult,
        "max_count": p.max_count,
        "ops": ops.iter().map(|&a| if a { "advance" } else { "reset" }).collect::<Vec<_>>(),
    })
}

/// Run one sequence (`true` = advance, `false` = reset). Returns the
/// observations and the first violation, if any, as (key, description).
fn run_seq(p: Params, ops: &[bool]) -> (Vec<Option<Duration>>, Option<(String, String)>) {
    let mut seen = Vec::new();
    let r = catch_unwind(AssertUnwindSafe(|| {
        let mut b = Backoff::new(p.initial, p.max, p.mult, p.max_count);
        let mut k: u32 = 0; // advances granted since construction / the last reset
        for (i, &adv) in ops.iter().enumerate() {
            if !adv {
                b.reset();
                k = 0;
                continue;
            }
            // a copy must behave like the original (the type is `Copy`)
            let mut copy = b;
            let got = b.advance();
            let got_copy = copy.advance();
            seen.push(got);
            let want = if p.max_count != 0 && k >= p.max_count { None } else { Some(closed_form(p.initial, p.max, p.mult, k)) };
            if got != want {
                let key = match (got, want) {
                    (None, Some(_)) => "backoff.gives-up-early",
                    (Some(_), None) => "backoff.gives-up-late",
                    _ if k == 0 => "backoff.first-delay",
                    _ => "backoff.delay",
                };
                return Some((
                    key.to_string(),
                    format!(
                        "Backoff::new({:?}, {:?}, {}, {}): operation #{i} is advance number {k} since the last reset and returns {got:?}; the closed form min(initial*mult^k, max) with the retry limit gives {want:?}",
                        p.initial, p.max, p.mult, p.max_count
                    ),
                ));
            }
            if got_copy != got {
                return Some(("backoff.copy-differs".to_string(), format!("a copy of the generator returns {got_copy:?} where the original returns {got:?}")));
            }
            if want.is_some() {
                k += 1;
            }
        }
        None
    }));
    match r {
        Ok(v) => (seen, v),
        Err(e) => {
            let m = crate::sim::take_last_panic().unwrap_or_else(|| e.downcast_ref::<String>().cloned().unwrap_or_else(|| "<panic>".into()));
            (seen, Some(("backoff.panic".to_string(), format!("Backoff::new({:?}, {:?}, {}, {}) panicked during {:?}: {m}", p.initial, p.max, p.mult, p.max_count, ops))))
        }
    }
}

/// Re-run one recorded case twice; adds its violation (if any) to `rep`.
pub fn replay_backoff(rep: &mut Report, v: &Value) {
    let ns = |k: &str| Duration::from_nanos(v[k].as_u64().unwrap_or_else(|| panic!("replay: {k}")));
    let p = Params { initial: ns("initial_ns"), max: ns("max_ns"), mult: v["mult"].as_u64().expect("mult") as u32, max_count: v["max_count"].as_u64().expect("max_count") as u32 };
    let ops: Vec<bool> = v["ops"].as_array().expect("ops").iter().map(|o| o.as_str() == Some("advance")).collect();
    let (o1, v1) = run_seq(p, &ops);
    let (o2, _) = run_seq(p, &ops);
    rep.evaluations += 2;
    rep.distinct_nontrivial += 1;
    rep.extra.insert("backoff_observation".into(), json!(format!("{o1:?}")));
    if o1 != o2 {
        rep.machinery_error = Some("back-off replay is not deterministic".into());
    }
    if let Some((k, d)) = v1 {
        rep.violation(k, d, replay_json(p, &ops));
    }
}

/// Exhaustive check of the back-off generator; adds counters, bounds and violations to `rep`.
pub fn run_backoff(rep: &mut Report, thorough: bool) {
    crate::sim::install_quiet_panic_hook();
    let ms = Duration::from_millis;
    let mut initials = vec![ms(1), ms(2), ms(200)];
    let mut maxes = vec![ms(1), ms(3), ms(1000), Duration::from_nanos(500_000)]; // the last one is < every initial
    let mut mults = vec![1u32, 2, 3];
    let mut counts = vec![0u32, 1, 2, 5];
    let mut max_len = 10usize;
    if thorough {
        initials.extend([Duration::ZERO, Duration::from_nanos(1), ms(7), Duration::from_secs(1)]);
        maxes.extend([Duration::ZERO, ms(200), ms(1600), Duration::from_secs(300), Duration::from_secs(86_400 * 365)]);
        mults.extend([0, 4, 10, 1000]);
        counts.extend([3, 4, 11, 12, 13, u32::MAX]);
        max_len = 12;
    }
    let mut evals = 0u64;
    let mut nones = 0u64;
    let mut somes = 0u64;
    let mut clamped = 0u64;
    let mut tuples = 0u64;
    let mut found: Vec<(String, String, Value, u64, usize)> = Vec::new();
    for &initial in &initials {
        for &max in &maxes {
            for &mult in &mults {
                for &max_count in &counts {
                    tuples += 1;
                    let p = Params { initial, max, mult, max_count };
                    for len in 0..=max_len {
                        for code in 0u32..(1 << len) {
                            let ops: Vec<bool> = (0..len).map(|i| code >> i & 1 == 1).collect();
                            evals += 1;
                            let (seen, bad) = run_seq(p, &ops);
                            for s in &seen {
                                match s {
                                    None => nones += 1,
                                    Some(d) => {
                                        somes += 1;
                                        if *d == max && initial < max {
                                            clamped += 1;
                                        }
                                    }
                                }
                            }
                            if let Some((k, d)) = bad {
                                match found.iter_mut().find(|f| f.0 == k) {
                                    Some(f) => {
                                        f.3 += 1;
                                        if ops.len() < f.4 {
                                            *f = (k, d, replay_json(p, &ops), f.3, ops.len());
                                        }
                                    }
                                    None => found.push((k, d, replay_json(p, &ops), 1, ops.len())),
                                }
                            }
                        }
                    }
                }
            }
        }
    }
    // ---- long outages: many consecutive failures without a success (the stored delay must not
    // keep growing past `max`), and resets at various phases; deterministic patterns, all tuples
    // with a retry limit of 0 (never give up) or beyond the pattern
    let long_n = if thorough { 2000usize } else { 400 };
    let mut long_runs = 0u64;
    for &initial in &initials {
        for &max in &maxes {
            for &mult in &mults {
                for max_count in [0u32, u32::MAX, (long_n as u32) + 1] {
                    let p = Params { initial, max, mult, max_count };
                    for period in [0usize, 1, 7, 66, 67, 68, 129] {
                        // `period` advances, then a reset, repeated; 0 = never reset
                        let ops: Vec<bool> = (0..long_n).map(|i| period == 0 || (i + 1) % (period + 1) != 0).collect();
                        evals += 1;
                        long_runs += 1;
                        let (_, bad) = run_seq(p, &ops);
                        if let Some((k, d)) = bad {
                            let k = format!("{k}.long-outage");
                            // keep the replay short: only the prefix up to the failing operation is interesting, but the
                            // pattern is regular, so record its parameters
                            let r = json!({"kind": "backoff", "initial_ns": p.initial.as_nanos() as u64, "max_ns": p.max.as_nanos() as u64, "mult": p.mult, "max_count": p.max_count,
                                "ops": ops.iter().map(|&a| if a { "advance" } else { "reset" }).collect::<Vec<_>>()});
                            match found.iter_mut().find(|f| f.0 == k) {
                                Some(f) => f.3 += 1,
                                None => found.push((k, d, r, 1, ops.len())),
                            }
                        }
                    }
                }
            }
        }
    }
    rep.bounds.insert("backoff_long_outage_runs".into(), json!(long_runs));
    rep.bounds.insert("backoff_long_outage_length".into(), json!(long_n));
    rep.evaluations += evals;
    rep.distinct_nontrivial += evals; // (tuple, sequence) pairs, distinct by construction
    rep.bounds.insert("backoff_tuples".into(), json!(tuples));
    rep.bounds.insert("backoff_initial_ns".into(), json!(initials.iter().map(|d| d.as_nanos() as u64).collect::<Vec<_>>()));
    rep.bounds.insert("backoff_max_ns".into(), json!(maxes.iter().map(|d| d.as_nanos() as u64).collect::<Vec<_>>()));
    rep.bounds.insert("backoff_mult".into(), json!(mults));
    rep.bounds.insert("backoff_max_count".into(), json!(counts));
    rep.bounds.insert("backoff_max_sequence_len".into(), json!(max_len));
    rep.bounds.insert("backoff_sequences".into(), json!(evals));
    rep.extra.insert("backoff_observed".into(), json!({"some": somes, "none": nones, "clamped_to_max": clamped}));
    rep.sample(replay_json(Params { initial: ms(200), max: ms(1000), mult: 2, max_count: 5 }, &[true, true, true, false, true]));
    for (k, d, r, n, _) in found {
        rep.violation_n(k, d, r, n);
    }
    if nones == 0 || somes == 0 || clamped == 0 {
        rep.machinery_error = Some("vacuous back-off run: the domain never reached the retry limit / never produced a delay / never hit the cap".into());
    }
}
