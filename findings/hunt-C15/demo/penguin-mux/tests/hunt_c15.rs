//! C15 hunt: bind requests must resolve exactly once with the peer's decision.
//!
//! All tests drive two real `Multiplexor`s (public API only) over an in-memory
//! `WebSocket` pair whose B->A direction can be held back, which models nothing more
//! than network latency.
//
// SPDX-License-Identifier: Apache-2.0 OR GPL-3.0-or-later
#![allow(clippy::unwrap_used, clippy::pedantic, clippy::nursery, missing_docs)]

use penguin_mux::config::Options;
use penguin_mux::frame::BindType;
use penguin_mux::ws::{Message, WebSocket};
use penguin_mux::{Error, Multiplexor};
use std::collections::VecDeque;
use std::convert::Infallible;
use std::sync::{Arc, Mutex};
use std::task::{Context, Poll, Waker};
use std::time::{Duration, Instant};
use tokio::io::AsyncWriteExt;

const OP_RESET: u8 = 2;
const OP_FINISH: u8 = 3;
const OP_BIND: u8 = 5;

/// One direction of the in-memory connection.
#[derive(Default)]
struct Dir {
    queue: VecDeque<Message>,
    closed: bool,
    /// `None`: messages are delivered as soon as they are sent.
    /// `Some(n)`: only `n` more messages are delivered, the rest stay "on the wire".
    budget: Option<usize>,
    waker: Option<Waker>,
    /// `(opcode, flow_id)` of every frame ever sent in this direction
    log: Vec<(u8, u32)>,
}

#[derive(Clone, Default)]
struct Link(Arc<Mutex<Dir>>);

impl Link {
    fn hold(&self) {
        self.0.lock().unwrap().budget = Some(0);
    }
    fn deliver(&self, n: usize) {
        let mut d = self.0.lock().unwrap();
        d.budget = Some(n);
        if let Some(w) = d.waker.take() {
            w.wake();
        }
    }
    fn release(&self) {
        let mut d = self.0.lock().unwrap();
        d.budget = None;
        if let Some(w) = d.waker.take() {
            w.wake();
        }
    }
    fn log(&self) -> Vec<(u8, u32)> {
        self.0.lock().unwrap().log.clone()
    }
    fn in_flight(&self) -> usize {
        self.0.lock().unwrap().queue.len()
    }
}

struct MemWs {
    tx: Link,
    rx: Link,
}

impl WebSocket for MemWs {
    fn poll_ready_unpin(&mut self, _cx: &mut Context<'_>) -> Poll<Result<(), Error>> {
        if self.tx.0.lock().unwrap().closed {
            Poll::Ready(Err(Error::Closed))
        } else {
            Poll::Ready(Ok(()))
        }
    }
    fn start_send_unpin(&mut self, item: Message) -> Result<(), Error> {
        let mut d = self.tx.0.lock().unwrap();
        if d.closed {
            return Err(Error::Closed);
        }
        if let Message::Binary(b) = &item {
            let id = u32::from_be_bytes([b[1], b[2], b[3], b[4]]);
            d.log.push((b[0] & 0x0f, id));
        }
        d.queue.push_back(item);
        if let Some(w) = d.waker.take() {
            w.wake();
        }
        Ok(())
    }
    fn poll_flush_unpin(&mut self, _cx: &mut Context<'_>) -> Poll<Result<(), Error>> {
        Poll::Ready(Ok(()))
    }
    fn poll_close_unpin(&mut self, _cx: &mut Context<'_>) -> Poll<Result<(), Error>> {
        let mut d = self.tx.0.lock().unwrap();
        d.closed = true;
        if let Some(w) = d.waker.take() {
            w.wake();
        }
        Poll::Ready(Ok(()))
    }
    fn poll_next_unpin(&mut self, cx: &mut Context<'_>) -> Poll<Option<Result<Message, Error>>> {
        let mut d = self.rx.0.lock().unwrap();
        let may_deliver = d.budget.is_none_or(|n| n > 0);
        if may_deliver {
            if let Some(m) = d.queue.pop_front() {
                if let Some(n) = d.budget.as_mut() {
                    *n -= 1;
                }
                return Poll::Ready(Some(Ok(m)));
            }
            if d.closed {
                return Poll::Ready(None);
            }
        }
        d.waker = Some(cx.waker().clone());
        Poll::Pending
    }
}

/// Dropping the socket closes the connection, as it does for a TCP socket.
impl Drop for MemWs {
    fn drop(&mut self) {
        let mut d = self.tx.0.lock().unwrap();
        d.closed = true;
        if let Some(w) = d.waker.take() {
            w.wake();
        }
    }
}

/// Returns (A's end, B's end, link A->B, link B->A)
fn pair() -> (MemWs, MemWs, Link, Link) {
    let a_to_b = Link::default();
    let b_to_a = Link::default();
    (
        MemWs {
            tx: a_to_b.clone(),
            rx: b_to_a.clone(),
        },
        MemWs {
            tx: b_to_a.clone(),
            rx: a_to_b.clone(),
        },
        a_to_b,
        b_to_a,
    )
}

/// Flow IDs are drawn from this list, in order (then it counts up from 0x7000_0000).
struct Scripted(VecDeque<u32>, u32);

impl Scripted {
    fn new(ids: &[u32]) -> Self {
        Self(ids.iter().copied().collect(), 0x7000_0000)
    }
}

impl rand::TryRng for Scripted {
    type Error = Infallible;
    fn try_next_u32(&mut self) -> Result<u32, Infallible> {
        Ok(self.0.pop_front().unwrap_or_else(|| {
            self.1 += 1;
            self.1
        }))
    }
    fn try_next_u64(&mut self) -> Result<u64, Infallible> {
        Ok(u64::from(self.try_next_u32()?))
    }
    fn try_fill_bytes(&mut self, dst: &mut [u8]) -> Result<(), Infallible> {
        for c in dst.chunks_mut(4) {
            let v = self.try_next_u32()?.to_le_bytes();
            c.copy_from_slice(&v[..c.len()]);
        }
        Ok(())
    }
}

/// Let every spawned task run until it has nothing left to do.
async fn settle() {
    for _ in 0..20 {
        for _ in 0..50 {
            tokio::task::yield_now().await;
        }
        tokio::time::sleep(Duration::from_millis(5)).await;
    }
}

const X: u32 = 0x0c15_0c15;

/// Finding 1a.
///
/// Both applications finish a stream in the ordinary way (`shutdown()` then drop) at about the
/// same time, so both endpoints have completely let go of flow X while B's `Finish` is still
/// on the wire. A's next flow ID draw is X again and it is used for a `Bind` request. B is NOT
/// configured to accept binds at all, so the request must resolve to `false`.
#[tokio::test]
async fn f1a_stale_finish_of_a_fully_released_flow_accepts_a_bind_nobody_accepted() {
    let (a_ws, b_ws, a_to_b, b_to_a) = pair();
    let (a_mux, a_task) =
        Multiplexor::new_detailed::<_, Instant>(a_ws, Options::new(), Scripted::new(&[X, X]));
    a_task.spawn(None);
    let a_mux = Arc::new(a_mux);
    // B: default options => `bind_buffer_size == 0` => binds are refused
    let b_mux = Multiplexor::new_with_opt(b_ws, Options::new(), None);

    let (a_stream, b_stream) = tokio::join!(
        a_mux.new_stream_channel(b"example.com", 80),
        b_mux.accept_stream_channel()
    );
    let (mut a_stream, mut b_stream) = (a_stream.unwrap(), b_stream.unwrap());
    settle().await;

    // From now on, what B sends takes a while to arrive at A.
    b_to_a.hold();
    // Both applications are done with the stream.
    a_stream.shutdown().await.unwrap();
    drop(a_stream);
    b_stream.shutdown().await.unwrap();
    drop(b_stream);
    settle().await;
    assert!(a_to_b.log().contains(&(OP_FINISH, X)));
    assert!(b_to_a.log().contains(&(OP_FINISH, X)));
    assert!(b_to_a.in_flight() >= 1, "B's `Finish` should still be in flight");

    // A requests a bind; its RNG happens to hand out X again (X is free at A *and* at B).
    let requester = {
        let a_mux = a_mux.clone();
        tokio::spawn(async move { a_mux.request_bind(b"0.0.0.0", 8080, BindType::Stream).await })
    };
    settle().await;
    assert!(
        a_to_b.log().contains(&(OP_BIND, X)),
        "test precondition: the bind request reuses flow id X; log: {:x?}",
        a_to_b.log()
    );
    // B refused the request
    assert_eq!(b_to_a.log().last(), Some(&(OP_RESET, X)));
    assert!(matches!(
        b_mux.next_bind_request().await,
        Err(Error::UnsupportedOperation)
    ));

    // The delayed frames arrive.
    b_to_a.release();
    let result = tokio::time::timeout(Duration::from_secs(5), requester)
        .await
        .expect("bind request never resolved")
        .unwrap()
        .unwrap();
    assert!(
        !result,
        "request_bind() returned `true` although the peer does not accept binds at all \
         (frames B->A: {:x?})",
        b_to_a.log()
    );
}

/// Finding 1b.
///
/// B's application drops a stream while A is in the middle of a burst. B answers every `Push`
/// that arrives after that with another `Reset`. A's application drops its end when it sees the
/// first `Reset`. Both endpoints have let go of X. A draws X again for a `Bind` request, B's
/// application sees exactly that request and accepts it, so the request must resolve to `true`.
#[tokio::test]
async fn f1b_stale_reset_of_a_fully_released_flow_rejects_a_bind_the_peer_accepted() {
    let (a_ws, b_ws, a_to_b, b_to_a) = pair();
    let (a_mux, a_task) =
        Multiplexor::new_detailed::<_, Instant>(a_ws, Options::new(), Scripted::new(&[X, X]));
    a_task.spawn(None);
    let a_mux = Arc::new(a_mux);
    let b_mux = Multiplexor::new_with_opt(b_ws, Options::new().bind_buffer_size(4), None);

    let (a_stream, b_stream) = tokio::join!(
        a_mux.new_stream_channel(b"example.com", 80),
        b_mux.accept_stream_channel()
    );
    let (mut a_stream, b_stream) = (a_stream.unwrap(), b_stream.unwrap());
    settle().await;

    b_to_a.hold();
    // B's application gives up on the stream ...
    drop(b_stream);
    settle().await;
    assert_eq!(b_to_a.log().last(), Some(&(OP_RESET, X)));
    // ... while A is still sending
    for _ in 0..3 {
        a_stream.write_all(b"data").await.unwrap();
    }
    settle().await;
    assert_eq!(b_to_a.in_flight(), 4, "one `Reset` for the drop, one per late `Push`");

    // The first `Reset` arrives: A's application notices and drops its end.
    b_to_a.deliver(1);
    settle().await;
    assert!(a_stream.write_all(b"data").await.is_err());
    drop(a_stream);
    settle().await;

    // Both applications have dropped their ends, both endpoints have freed X.
    let requester = {
        let a_mux = a_mux.clone();
        tokio::spawn(async move { a_mux.request_bind(b"0.0.0.0", 8080, BindType::Stream).await })
    };
    settle().await;
    assert!(
        a_to_b.log().contains(&(OP_BIND, X)),
        "test precondition: the bind request reuses flow id X; log: {:x?}",
        a_to_b.log()
    );
    // B's application is shown that very request and accepts it
    let request = b_mux.next_bind_request().await.unwrap();
    assert_eq!(request.flow_id(), X);
    assert_eq!(request.host(), b"0.0.0.0");
    assert_eq!(request.port(), 8080);
    assert_eq!(request.bind_type(), BindType::Stream);
    request.reply(true).unwrap();
    drop(request);
    settle().await;

    b_to_a.release();
    let result = tokio::time::timeout(Duration::from_secs(5), requester)
        .await
        .expect("bind request never resolved")
        .unwrap()
        .unwrap();
    assert!(
        result,
        "request_bind() returned `false` although the peer application accepted that very \
         request (frames B->A: {:x?})",
        b_to_a.log()
    );
}

/// Finding 2.
///
/// No flow ID games here. B accepts binds with `bind_buffer_size == 1` and is busy: it has not
/// called `next_bind_request()` yet. A sends two bind requests. B itself requests a bind from
/// A, A's application accepts it at once. B's request must resolve to `true` no matter what
/// happens to A's own, unrelated requests.
#[tokio::test]
async fn f2_unanswered_incoming_binds_block_the_answer_to_our_own_bind() {
    let (a_ws, b_ws, a_to_b, _b_to_a) = pair();
    let a_mux = Arc::new(Multiplexor::new_with_opt(
        a_ws,
        Options::new().bind_buffer_size(16),
        None,
    ));
    let b_mux = Arc::new(Multiplexor::new_with_opt(
        b_ws,
        Options::new().bind_buffer_size(1),
        None,
    ));

    // A: two concurrent bind requests towards B
    let mut a_requests = Vec::new();
    for port in [1001, 1002] {
        let a_mux = a_mux.clone();
        a_requests.push(tokio::spawn(async move {
            a_mux.request_bind(b"::", port, BindType::Stream).await
        }));
    }
    settle().await;

    // B: one bind request towards A ...
    let b_request = {
        let b_mux = b_mux.clone();
        tokio::spawn(async move { b_mux.request_bind(b"::", 2001, BindType::Datagram).await })
    };
    // ... which A's application accepts right away
    let request = a_mux.next_bind_request().await.unwrap();
    assert_eq!(request.port(), 2001);
    assert_eq!(request.bind_type(), BindType::Datagram);
    let b_request_id = request.flow_id();
    request.reply(true).unwrap();
    drop(request);
    settle().await;
    // A's answer is on its way to B
    assert!(a_to_b.log().contains(&(OP_FINISH, b_request_id)));
    eprintln!(
        "messages sent by A that B's task has not read yet: {}",
        a_to_b.in_flight()
    );

    let result = tokio::time::timeout(Duration::from_secs(3), b_request).await;
    // (for the report) show that it is only stuck behind A's unrelated requests
    if result.is_err() {
        let r1 = b_mux.next_bind_request().await.unwrap();
        eprintln!(
            "B's request {b_request_id:08x} accepted by A did not resolve within 3 s; \
             B's application now takes A's request for port {}",
            r1.port()
        );
    }
    let result = result
        .expect(
            "B's bind request was accepted by A's application but did not resolve: B's task \
             is blocked handing A's second, unrelated bind request to B's application",
        )
        .unwrap()
        .unwrap();
    assert!(result);
    for r in a_requests {
        r.abort();
    }
}

/// Finding 3.
///
/// A's multiplexor task was spawned into the caller's `JoinSet` (`Multiplexor::new_with_opt`),
/// and the caller aborts it while a bind request is waiting for B's answer. That ends the
/// connection (B notices), so the request must resolve with `false` or `Closed`.
#[tokio::test]
async fn f3_pending_bind_never_resolves_when_the_task_is_aborted() {
    let (a_ws, b_ws, _a_to_b, _b_to_a) = pair();
    let mut a_tasks = tokio::task::JoinSet::new();
    let a_mux = Arc::new(Multiplexor::new_with_opt(
        a_ws,
        Options::new(),
        Some(&mut a_tasks),
    ));
    let b_mux = Multiplexor::new_with_opt(b_ws, Options::new().bind_buffer_size(4), None);

    let requester = {
        let a_mux = a_mux.clone();
        tokio::spawn(async move { a_mux.request_bind(b"::", 3001, BindType::Stream).await })
    };
    // B's application has the request and is still making up its mind
    let undecided = b_mux.next_bind_request().await.unwrap();
    assert_eq!(undecided.port(), 3001);

    a_tasks.abort_all();
    while a_tasks.join_next().await.is_some() {}
    settle().await;
    // The connection is over: B has noticed, and A refuses new requests
    assert!(matches!(
        b_mux.next_bind_request().await,
        Err(Error::Closed)
    ));
    assert!(matches!(
        a_mux.request_bind(b"::", 3002, BindType::Stream).await,
        Err(Error::Closed)
    ));

    let result = tokio::time::timeout(Duration::from_secs(3), requester)
        .await
        .expect("the connection has ended but the pending bind request never resolved")
        .unwrap();
    assert!(matches!(result, Ok(false) | Err(Error::Closed)), "{result:?}");
    drop(undecided);
}
