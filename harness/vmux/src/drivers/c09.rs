//! C09 — wire format: encode/decode inverse, total, exactly PROTOCOL.md.
//! Bounded-exhaustive enumeration against the reference codec (`codec.rs`).

use crate::Args;
use crate::codec::{self, RFrame};
use crate::report::{Report, hex};
use bytes::Bytes;
use cow_bytes::CowBytes;
use penguin_mux::frame::{BindType, Frame, append_push_data};
use penguin_mux::ws::Message;
use serde_json::json;
use std::collections::HashSet;
use std::panic::{AssertUnwindSafe, catch_unwind};
use std::sync::Mutex;

fn bt(b: u8) -> BindType {
    if b == 1 { BindType::Stream } else { BindType::Datagram }
}

/// Build the frame through the *borrowed* public constructors.
fn build_borrowed(r: &RFrame) -> Frame<'_> {
    match r {
        RFrame::Connect { id, rwnd, port, host } => Frame::new_connect(host, *port, *id, *rwnd),
        RFrame::Acknowledge { id, n } => Frame::new_acknowledge(*id, *n),
        RFrame::Reset { id } => Frame::new_reset(*id),
        RFrame::Finish { id } => Frame::new_finish(*id),
        RFrame::Push { id, data } => Frame::new_push(*id, data),
        RFrame::Bind { id, btype, port, host } => Frame::new_bind(*id, bt(*btype), host, *port),
        RFrame::Datagram { id, port, host, data } => Frame::new_datagram(*id, host, *port, data),
    }
}

/// Build through the *owned* constructors where they exist.
fn build_owned(r: &RFrame) -> Option<Frame<'static>> {
    match r {
        RFrame::Push { id, data } => Some(Frame::new_push_owned(*id, Bytes::from(data.clone()))),
        RFrame::Datagram { id, port, host, data } => Some(Frame::new_datagram_owned(
            *id,
            Bytes::from(host.clone()),
            *port,
            Bytes::from(data.clone()),
        )),
        _ => None,
    }
}

fn payload_of(len: usize, salt: u8) -> Vec<u8> {
    (0..len).map(|i| (i as u8).wrapping_mul(31).wrapping_add(salt)).collect()
}

struct Ctx<'a> {
    rep: &'a Mutex<Report>,
}

impl Ctx<'_> {
    fn viol(&self, key: String, desc: String, input: &[u8]) {
        let mut r = self.rep.lock().unwrap();
        let shown = if input.len() > 64 { &input[..64] } else { input };
        r.violation(key, desc, json!({"kind": "bytes", "hex": hex(shown), "len": input.len()}));
    }
}

/// All splits of `data` into at most 3 pieces (empty pieces allowed).
fn splits3(data: &[u8]) -> Vec<Vec<&[u8]>> {
    let n = data.len();
    let mut out = vec![vec![data]];
    for i in 0..=n {
        out.push(vec![&data[..i], &data[i..]]);
        for j in i..=n {
            out.push(vec![&data[..i], &data[i..j], &data[j..]]);
        }
    }
    out
}

fn check_encode_one(cx: &Ctx<'_>, r: &RFrame, distinct: &mut HashSet<Vec<u8>>) -> u64 {
    let mut evals = 0;
    let want = codec::encode(r);
    let name = r.name();
    let mut frames: Vec<(&'static str, Frame<'_>)> = vec![("borrowed", build_borrowed(r))];
    if let Some(o) = build_owned(r) {
        frames.push(("owned", o));
    }
    for (how, f) in &frames {
        evals += 1;
        let res = catch_unwind(AssertUnwindSafe(|| {
            let v = Vec::<u8>::from(f);
            let b = Bytes::from(f);
            let m = Message::from(f.clone());
            (v, b, m)
        }));
        let Ok((v, b, m)) = res else {
            cx.viol(format!("encode.panic.{name}"), format!("encoding a {name} frame ({how}) panicked"), &want);
            continue;
        };
        if v != want {
            cx.viol(
                format!("encode.layout.{name}"),
                format!("{name} ({how}) encodes to {} but PROTOCOL.md prescribes {}", hex(&v[..v.len().min(48)]), hex(&want[..want.len().min(48)])),
                &want,
            );
        }
        if b.as_ref() != v.as_slice() || m != Message::Binary(Bytes::from(v.clone())) {
            cx.viol(format!("encode.variants.{name}"), format!("Vec/Bytes/Message encodings of a {name} frame differ"), &want);
        }
        if f.opcode() as u8 != (codec::VER << 4 | r.op()) || f.id != r.id() {
            cx.viol(format!("encode.accessors.{name}"), format!("opcode()/id of a built {name} frame are wrong"), &want);
        }
        // decode the reference bytes three ways; must equal the original
        let d1 = catch_unwind(AssertUnwindSafe(|| Frame::try_from(want.as_slice()).map(|x| x == *f)));
        let d2 = catch_unwind(AssertUnwindSafe(|| Frame::try_from(Bytes::from(want.clone())).map(|x| x == *f)));
        let d3 = catch_unwind(AssertUnwindSafe(|| Frame::try_from(want.clone()).map(|x| x == *f)));
        for (which, d) in [("slice", d1), ("Bytes", d2), ("Vec", d3)] {
            match d {
                Err(_) => cx.viol(format!("roundtrip.panic.{name}"), format!("decoding ({which}) an encoded {name} frame panicked"), &want),
                Ok(Err(e)) => cx.viol(
                    format!("roundtrip.reject.{name}.{}", discriminator(r)),
                    format!("decoding ({which}) a valid encoded {name} frame [{}] fails with {e:?}", describe(r)),
                    &want,
                ),
                Ok(Ok(false)) => cx.viol(format!("roundtrip.differs.{name}"), format!("decode({which})(encode(f)) != f for {name} [{}]", describe(r)), &want),
                Ok(Ok(true)) => {}
            }
        }
    }
    distinct.insert(want.clone());
    // vectored pushes: every split of small payloads
    if let RFrame::Push { id, data } = r {
        if data.len() <= 4 {
            for sp in splits3(data) {
                evals += 1;
                let pieces: Vec<CowBytes<'_>> = sp.iter().map(|p| CowBytes::Temporary(p)).collect();
                let f = Frame::new_push_vectored(*id, pieces);
                let v = Vec::<u8>::from(&f);
                if v != want {
                    cx.viol("encode.layout.PushVectored".into(), format!("vectored Push {:?} encodes to {}", sp, hex(&v)), &want);
                }
                match Frame::try_from(want.as_slice()) {
                    Ok(d) if d == f && f == d => {}
                    Ok(_) => cx.viol("roundtrip.differs.PushVectored".into(), format!("decoded vectored Push != original for split {sp:?}"), &want),
                    Err(e) => cx.viol("roundtrip.reject.PushVectored".into(), format!("{e:?}"), &want),
                }
            }
            // two vectored frames are equal iff their payloads are the same octets, however they are cut
            let sps = splits3(data);
            for a in &sps {
                let fa = Frame::new_push_vectored(*id, a.iter().map(|p| CowBytes::Temporary(p)).collect::<Vec<_>>());
                for b in &sps {
                    evals += 1;
                    let fb = Frame::new_push_vectored(*id, b.iter().map(|p| CowBytes::Temporary(p)).collect::<Vec<_>>());
                    if fa != fb {
                        cx.viol("eq.vectored-splits-differ".into(), format!("vectored Push frames with the same payload cut as {a:?} and as {b:?} compare unequal"), &want);
                    }
                }
                if !data.is_empty() {
                    evals += 1;
                    let mut other = data.clone();
                    let last = other.len() - 1;
                    other[last] ^= 1;
                    let fo = Frame::new_push_vectored(*id, vec![CowBytes::Temporary(&other[..last]), CowBytes::Temporary(&other[last..])]);
                    if fa == fo {
                        cx.viol("eq.vectored-different-payloads-equal".into(), format!("vectored Push frames with payloads {} and {} compare equal", hex(data), hex(&other)), &want);
                    }
                }
            }
        }
        // append_push_data == encoding the concatenation
        for cut in [0, data.len() / 2, data.len()] {
            evals += 1;
            let mut v = Vec::<u8>::from(Frame::new_push(*id, &data[..cut]));
            append_push_data(&mut v, &data[cut..]);
            if v != want {
                cx.viol("encode.append_push_data".into(), format!("append_push_data at {cut} of {} differs from encoding the whole", data.len()), &want);
            }
        }
    }
    evals
}

fn describe(r: &RFrame) -> String {
    match r {
        RFrame::Connect { id, rwnd, port, host } => format!("id={id:#x} rwnd={rwnd} port={port} host_len={}", host.len()),
        RFrame::Acknowledge { id, n } => format!("id={id:#x} n={n}"),
        RFrame::Reset { id } | RFrame::Finish { id } => format!("id={id:#x}"),
        RFrame::Push { id, data } => format!("id={id:#x} data_len={}", data.len()),
        RFrame::Bind { id, btype, port, host } => format!("id={id:#x} type={btype} port={port} host_len={}", host.len()),
        RFrame::Datagram { id, port, host, data } => format!("id={id:#x} port={port} host_len={} data_len={}", host.len(), data.len()),
    }
}

/// Coarse class of the input, so that different failing inputs get different keys.
fn discriminator(r: &RFrame) -> String {
    match r {
        RFrame::Datagram { data, .. } => format!("datalen{}", data.len().min(4)),
        RFrame::Connect { host, .. } | RFrame::Bind { host, .. } => format!("hostlen{}", host.len().min(2)),
        RFrame::Push { data, .. } => format!("datalen{}", data.len().min(2)),
        _ => "x".into(),
    }
}

fn encode_domain(thorough: bool) -> Vec<RFrame> {
    let ids = [0u32, 1, 0x7fff_ffff, 0xffff_ffff];
    let ports = [0u16, 1, 0xff00, 0xffff];
    let u32s = [0u32, 1, 1 << 31, u32::MAX];
    let host_lens = [0usize, 1, 2, 254, 255];
    let connect_host_lens = [0usize, 1, 2, 255, 256, 300];
    let mut pay_lens: Vec<usize> = (0..=8).collect();
    pay_lens.extend([255, 256, 65535, 65536]);
    if thorough {
        pay_lens.extend([9, 15, 16, 17, 1499, 1500, 4096]);
    }
    let mut v = Vec::new();
    for &id in &ids {
        v.push(RFrame::Reset { id });
        v.push(RFrame::Finish { id });
        for &n in &u32s {
            v.push(RFrame::Acknowledge { id, n });
        }
        for &port in &ports {
            for &rwnd in &u32s {
                for &hl in &connect_host_lens {
                    v.push(RFrame::Connect { id, rwnd, port, host: payload_of(hl, 0x80) });
                }
            }
            for bt in [1u8, 3] {
                for &hl in &connect_host_lens {
                    v.push(RFrame::Bind { id, btype: bt, port, host: payload_of(hl, 0x7f) });
                }
            }
            for &hl in &host_lens {
                for &pl in &pay_lens {
                    v.push(RFrame::Datagram { id, port, host: payload_of(hl, 3), data: payload_of(pl, 0xf0) });
                }
            }
        }
        for &pl in &pay_lens {
            v.push(RFrame::Push { id, data: payload_of(pl, 1) });
        }
    }
    v
}

/// Check one arbitrary byte string against the reference decoder.
fn check_decode(cx: &Ctx<'_>, input: &[u8]) -> bool {
    let want = codec::decode(input);
    let got_slice = catch_unwind(AssertUnwindSafe(|| Frame::try_from(input).map(|f| (Vec::<u8>::from(&f), f.id, f.opcode() as u8))));
    let got_bytes = catch_unwind(AssertUnwindSafe(|| {
        Frame::try_from(Bytes::copy_from_slice(input)).map(|f| (Vec::<u8>::from(&f), f.id, f.opcode() as u8))
    }));
    let got_vec = catch_unwind(AssertUnwindSafe(|| Frame::try_from(input.to_vec()).map(|f| (Vec::<u8>::from(&f), f.id, f.opcode() as u8))));
    let opname = if input.is_empty() { "none".to_string() } else { format!("op{:x}", input[0] & 0x0f) };
    for (which, got) in [("slice", got_slice), ("Bytes", got_bytes), ("Vec", got_vec)] {
        match (got, &want) {
            (Err(_), _) => cx.viol(format!("decode.panic.{opname}.len{}", input.len().min(12)), format!("decoding ({which}) {} panicked", hex(input)), input),
            (Ok(Ok(_)), Err(e)) => cx.viol(
                format!("decode.accept-invalid.{opname}.{e:?}"),
                format!("decode({which}) accepts {} which PROTOCOL.md makes invalid ({e:?})", hex(input)),
                input,
            ),
            (Ok(Err(e)), Ok(r)) => cx.viol(
                format!("decode.reject-valid.{}.{}", r.name(), discriminator(r)),
                format!("decode({which}) rejects {} with {e:?}; it is a valid {} [{}]", hex(input), r.name(), describe(r)),
                input,
            ),
            (Ok(Ok((re, id, op))), Ok(r)) => {
                // fields: re-encoding must equal the reference encoding of the reference's fields
                let canon = codec::encode(r);
                if re != canon || id != r.id() || op & 0x0f != r.op() {
                    cx.viol(
                        format!("decode.fields.{}", r.name()),
                        format!("decode({which}) of {} yields fields that re-encode to {} instead of {}", hex(input), hex(&re), hex(&canon)),
                        input,
                    );
                }
                // and the decoded frame equals the one built from the prescribed fields
                let built = build_borrowed(r);
                if let Ok(f) = Frame::try_from(input) {
                    if f != built {
                        cx.viol(format!("decode.eq.{}", r.name()), format!("decoded frame of {} != frame built from the prescribed fields", hex(input)), input);
                    }
                }
            }
            (Ok(Err(_)), Err(_)) => {}
        }
    }
    want.is_ok()
}

pub fn run(args: &Args) -> Report {
    let mut rep = Report::new("C09", &args.tier, "enum", "exploration");
    rep.rule = "encode: exhaustive product of boundary field values per opcode x borrowed/owned/vectored constructors; decode: every byte string b0(256) . id(2) . tail over {00,01,03,04,ff} (thorough: {00,01,02,03,04,80,ff}) up to length L (6; thorough 8), every string of length < 5 over that alphabet x first-byte set, every truncation of every encoded frame; a case is non-trivial/distinct when its byte string is distinct".into();
    let thorough = args.thorough();
    let rep = Mutex::new(rep);
    let cx = Ctx { rep: &rep };

    // ---- encode domain
    let dom = encode_domain(thorough);
    let mut distinct: HashSet<Vec<u8>> = HashSet::new();
    let mut evals: u64 = 0;
    for r in &dom {
        evals += check_encode_one(&cx, r, &mut distinct);
    }
    let encode_frames = dom.len();
    // ---- truncations of every encoded frame (small ones fully, large ones near the fixed header)
    let mut trunc = 0u64;
    let mut valid_inputs = 0u64;
    for r in &dom {
        let e = codec::encode(r);
        let lim = e.len().min(5 + 3 + 260 + 8);
        for cut in 0..lim {
            trunc += 1;
            if check_decode(&cx, &e[..cut]) {
                valid_inputs += 1;
            }
        }
    }
    // ---- decode domain
    let alphabet: &[u8] = if thorough { &[0x00u8, 0x01, 0x02, 0x03, 0x04, 0x80, 0xff] } else { &[0x00u8, 0x01, 0x03, 0x04, 0xff] };
    let tail_max = if thorough { 8 } else { 6 };
    let idpats: [[u8; 4]; 2] = [[0, 0, 0, 1], [0xff, 0x00, 0x03, 0x04]];
    let counters = Mutex::new((0u64, 0u64));
    std::thread::scope(|s| {
        let chunk = 256usize.div_ceil(args.threads.max(1));
        for t in 0..args.threads.max(1) {
            let lo = t * chunk;
            let hi = ((t + 1) * chunk).min(256);
            if lo >= hi {
                continue;
            }
            let cx = &cx;
            let counters = &counters;
            s.spawn(move || {
                let mut n = 0u64;
                let mut nv = 0u64;
                let mut buf: Vec<u8> = Vec::with_capacity(16);
                for b0 in lo..hi {
                    for idp in &idpats {
                        for len in 0..=tail_max {
                            let total = alphabet.len().pow(len as u32);
                            for mut code in 0..total {
                                buf.clear();
                                buf.push(b0 as u8);
                                buf.extend_from_slice(idp);
                                for _ in 0..len {
                                    buf.push(alphabet[code % alphabet.len()]);
                                    code /= alphabet.len();
                                }
                                n += 1;
                                if check_decode(cx, &buf) {
                                    nv += 1;
                                }
                            }
                        }
                    }
                }
                let mut c = counters.lock().unwrap();
                c.0 += n;
                c.1 += nv;
            });
        }
    });
    // strings shorter than the 5-byte header
    let firsts = [0x00u8, 0x06, 0x07, 0x10, 0x70, 0x74, 0x76, 0x77, 0x7f, 0x80, 0xff];
    let mut short = 0u64;
    short += 1;
    check_decode(&cx, &[]);
    for &f in &firsts {
        for len in 0..4usize {
            let total = alphabet.len().pow(len as u32);
            for mut code in 0..total {
                let mut b = vec![f];
                for _ in 0..len {
                    b.push(alphabet[code % alphabet.len()]);
                    code /= alphabet.len();
                }
                short += 1;
                check_decode(&cx, &b);
            }
        }
    }
    let (n_dec, n_valid) = *counters.lock().unwrap();
    let mut rep = rep.into_inner().unwrap();
    rep.evaluations = evals + trunc + n_dec + short;
    rep.distinct_nontrivial = distinct.len() as u64 + n_dec + short;
    rep.exhaustive = true;
    rep.bounds.insert("encode_frames".into(), json!(encode_frames));
    rep.bounds.insert("encode_evaluations".into(), json!(evals));
    rep.bounds.insert("truncation_inputs".into(), json!(trunc));
    rep.bounds.insert("decode_strings".into(), json!(n_dec));
    rep.bounds.insert("decode_tail_max_len".into(), json!(tail_max));
    rep.bounds.insert("decode_alphabet".into(), json!(alphabet.iter().map(|b| format!("{b:02x}")).collect::<Vec<_>>()));
    rep.bounds.insert("short_strings".into(), json!(short));
    rep.extra.insert("decode_strings_valid_per_reference".into(), json!(n_valid + valid_inputs));
    rep.extra.insert("build_profile".into(), json!(if cfg!(debug_assertions) { "checked" } else { "release" }));
    for r in [&dom[0], &dom[dom.len() / 2], &dom[dom.len() - 1]] {
        rep.sample(json!({"frame": describe(r), "op": r.name(), "bytes_prefix": hex(&codec::encode(r)[..codec::encode(r).len().min(24)])}));
    }
    rep.sample(json!({"decode_input": "74 ff000304 01 ff 00 03 (one of the enumerated strings)"}));
    rep.assumptions.push("reference codec written from PROTOCOL.md; payload bytes beyond the boundary alphabet are not enumerated (the decoder never branches on them)".into());
    rep.assumptions.push("production (release) semantics: debug_assert!s in frame.rs are compiled out, as the property speaks of production builds".into());
    if n_valid == 0 || n_valid == n_dec {
        rep.machinery_error = Some("vacuous decode domain (all valid or all invalid)".into());
    }
    rep
}
