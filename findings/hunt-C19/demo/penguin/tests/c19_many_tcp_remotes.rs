//! C19 demo 3 (adjacent to the property: the "listeners queue requests through a bounded
//! channel" mechanism, `handle_remote/tcp.rs:26-48`; the configuration varied here is the
//! number of remotes, which the property's quantifier does not list).
//!
//! Every plain TCP listener takes a permit of the 64-slot stream request channel BEFORE it
//! calls `accept()` and keeps it while it is idle. With more than 64 TCP remotes (the CLI
//! allows 65535) the idle listeners hold all permits, and a listener that has just served
//! a connection queues up behind the other permit-less listeners: it does not accept its
//! next connection until enough OTHER remotes have had traffic. The tunnel is healthy the
//! whole time; the listener is bound, the local `connect()` succeeds, and nothing happens.
//
// SPDX-License-Identifier: Apache-2.0 OR GPL-3.0-or-later
#![allow(clippy::all, clippy::pedantic)]

use penguin_mux::timing::OptionalDuration;
use rusty_penguin_lib::arg::{ClientArgs, Remote, ServerUrl};
use rusty_penguin_lib::client::{self, HandlerResources};
use std::str::FromStr;
use std::time::Duration;
use tokio::io::{AsyncReadExt, AsyncWriteExt};
use tokio::net::{TcpListener, TcpStream};
use tokio_tungstenite::tungstenite::handshake::server::{Request, Response};

fn cb(req: &Request, mut resp: Response) -> Result<Response, http::Response<Option<String>>> {
    if let Some(p) = req.headers().get("sec-websocket-protocol") {
        resp.headers_mut()
            .insert("sec-websocket-protocol", p.clone());
    }
    Ok(resp)
}

/// A healthy server: a `penguin_mux::Multiplexor` that echoes on every stream.
async fn echo_server() -> std::net::SocketAddr {
    let listener = TcpListener::bind("127.0.0.1:0").await.unwrap();
    let addr = listener.local_addr().unwrap();
    tokio::spawn(async move {
        loop {
            let (tcp, _) = listener.accept().await.unwrap();
            tokio::spawn(async move {
                let ws = tokio_tungstenite::accept_hdr_async(tcp, cb).await.unwrap();
                let mux = penguin_mux::Multiplexor::new(ws);
                while let Ok(mut s) = mux.accept_stream_channel().await {
                    tokio::spawn(async move {
                        let mut buf = vec![0u8; 4096];
                        while let Ok(n) = s.read(&mut buf).await {
                            if n == 0 || s.write_all(&buf[..n]).await.is_err() {
                                break;
                            }
                        }
                        s.shutdown().await.ok();
                    });
                }
            });
        }
    });
    addr
}

async fn echo_once(lport: u16, msg: &[u8]) -> Result<(), String> {
    let fut = async {
        let mut s = TcpStream::connect(("127.0.0.1", lport))
            .await
            .map_err(|e| format!("connect: {e}"))?;
        s.write_all(msg).await.map_err(|e| format!("write: {e}"))?;
        let mut buf = vec![0u8; msg.len()];
        s.read_exact(&mut buf)
            .await
            .map_err(|e| format!("read: {e}"))?;
        Ok(())
    };
    tokio::time::timeout(Duration::from_secs(3), fut)
        .await
        .map_err(|_| "no answer within 3 s".to_string())?
}

/// The two tests pick free ports and release them before the client binds them: do not
/// let them run at the same time.
static SERIAL: tokio::sync::Mutex<()> = tokio::sync::Mutex::const_new(());

async fn run(n_remotes: usize) -> Vec<Result<(), String>> {
    let _serial = SERIAL.lock().await;
    let server = echo_server().await;
    // Free local ports
    let holders = {
        let mut v = vec![];
        for _ in 0..n_remotes {
            v.push(TcpListener::bind("127.0.0.1:0").await.unwrap());
        }
        v
    };
    let ports: Vec<u16> = holders
        .iter()
        .map(|l| l.local_addr().unwrap().port())
        .collect();
    drop(holders);
    let args: &'static ClientArgs = Box::leak(Box::new(ClientArgs {
        server: ServerUrl::from_str(&format!("ws://{server}/ws")).unwrap(),
        remote: ports
            .iter()
            .map(|p| Remote::from_str(&format!("127.0.0.1:{p}:127.0.0.1:9")).unwrap())
            .collect(),
        keepalive: OptionalDuration::NONE,
        max_retry_count: 0,
        max_retry_interval: 1000,
        handshake_timeout: OptionalDuration::from_secs(5),
        channel_timeout: OptionalDuration::from_secs(5),
        ..Default::default()
    }));
    let (hr, stream_command_rx, datagram_rx) = HandlerResources::create();
    let hr: &'static HandlerResources = Box::leak(Box::new(hr));
    let client = tokio::spawn(client::client_main_inner(
        args,
        hr,
        stream_command_rx,
        datagram_rx,
    ));
    tokio::time::sleep(Duration::from_secs(1)).await;
    // Every remote works once ...
    for p in &ports {
        echo_once(*p, b"once").await.expect("first use of a remote");
    }
    // ... and then the same remote is used three times in a row
    let mut results = vec![];
    for _ in 0..3 {
        results.push(echo_once(ports[0], b"again").await);
    }
    assert!(!client.is_finished());
    client.abort();
    results
}

/// Control: 60 remotes. Passes.
#[tokio::test(flavor = "multi_thread", worker_threads = 2)]
async fn control_60_tcp_remotes() {
    let results = run(60).await;
    assert!(results.iter().all(Result::is_ok), "{results:?}");
}

/// The demo: 70 remotes. FAILS on the unmodified tree: `[Ok(()), Err("no answer within 3 s"), Err(..)]`
#[tokio::test(flavor = "multi_thread", worker_threads = 2)]
async fn more_than_64_tcp_remotes() {
    let results = run(70).await;
    assert!(
        results.iter().all(Result::is_ok),
        "tunnel healthy, listener bound, but consecutive connections to one remote are not \
         accepted: {results:?}"
    );
}
