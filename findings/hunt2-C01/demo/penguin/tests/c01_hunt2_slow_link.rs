//! C01 (round 2): a TCP upload through the tunnel is silently truncated when the link between the
//! penguin client and the penguin server is slower than the local writer.
//!
//! The link is modelled by a rate-limited TCP relay between client and server (4 MiB/s, about
//! 33 Mbit/s). Everything else is the real client (`client_main_inner`) and the real server
//! (`server_main`) on loopback, with a plain fixed-target TCP remote.
//!
//! Run inside a private network namespace (fixed loopback ports):
//!   unshare -n bash -c 'ip link set lo up; \
//!     cargo test --offline -p rusty-penguin --test c01_hunt2_slow_link -- --nocapture'
//! and the one that uses the default keepalive settings (takes 75 s to fail, 100 s to pass):
//!   ... --test c01_hunt2_slow_link -- --ignored --nocapture

use penguin_mux::timing::OptionalDuration;
use rusty_penguin_lib::arg::{ClientArgs, Remote, ServerArgs, ServerUrl};
use rusty_penguin_lib::client::{HandlerResources, client_main_inner};
use rusty_penguin_lib::server::server_main;
use std::str::FromStr;
use std::time::{Duration, Instant};
use tokio::io::{AsyncRead, AsyncReadExt, AsyncWrite, AsyncWriteExt};
use tokio::net::{TcpListener, TcpStream};

const LINK_BYTES_PER_SEC: usize = 4 << 20;

/// One direction of the slow link
async fn pump(mut r: impl AsyncRead + Unpin, mut w: impl AsyncWrite + Unpin, rate: usize) {
    let mut buf = vec![0u8; rate / 100];
    loop {
        let start = tokio::time::Instant::now();
        let n = match r.read(&mut buf).await {
            Ok(0) | Err(_) => break,
            Ok(n) => n,
        };
        if w.write_all(&buf[..n]).await.is_err() {
            break;
        }
        tokio::time::sleep_until(start + Duration::from_secs_f64(n as f64 / rate as f64)).await;
    }
    let _ = w.shutdown().await;
}

/// A TCP relay that forwards at most `rate` bytes per second in each direction
async fn slow_link(listen: String, upstream: String, rate: usize) {
    let listener = TcpListener::bind(&listen).await.unwrap();
    tokio::spawn(async move {
        loop {
            let (a, _) = listener.accept().await.unwrap();
            let Ok(b) = TcpStream::connect(&upstream).await else {
                continue;
            };
            let (ar, aw) = a.into_split();
            let (br, bw) = b.into_split();
            tokio::spawn(pump(ar, bw, rate));
            tokio::spawn(pump(br, aw, rate));
        }
    });
}

/// Server on `base`, slow link on `base + 5`, target on `base + 1`, local entry point on `base + 2`
async fn start(base: u16, keepalive: u64, keepalive_timeout: u64, channel_timeout: u64) {
    rusty_penguin_lib::tls::init_crypto_provider();
    let sargs: &'static ServerArgs = Box::leak(Box::new(ServerArgs {
        host: vec!["127.0.0.1".to_string()],
        port: vec![base],
        not_found_resp: "404".to_string(),
        timeout: OptionalDuration::from_secs(60),
        ..Default::default()
    }));
    let cargs: &'static ClientArgs = Box::leak(Box::new(ClientArgs {
        server: ServerUrl::from_str(&format!("ws://127.0.0.1:{}/ws", base + 5)).unwrap(),
        remote: vec![
            Remote::from_str(&format!("127.0.0.1:{}:127.0.0.1:{}", base + 2, base + 1)).unwrap(),
        ],
        // the values `penguin client` uses when the options are not given, unless stated otherwise
        keepalive: OptionalDuration::from_secs(keepalive),
        keepalive_timeout: OptionalDuration::from_secs(keepalive_timeout),
        channel_timeout: OptionalDuration::from_secs(channel_timeout),
        handshake_timeout: OptionalDuration::from_secs(10),
        max_retry_count: 0,
        max_retry_interval: 300_000,
        ..Default::default()
    }));
    let (hr, stream_command_rx, datagram_rx) = HandlerResources::create();
    let hr: &'static HandlerResources = Box::leak(Box::new(hr));
    slow_link(
        format!("127.0.0.1:{}", base + 5),
        format!("127.0.0.1:{base}"),
        LINK_BYTES_PER_SEC,
    )
    .await;
    tokio::spawn(server_main(sargs));
    // (a loaded machine can take a while to start the server)
    drop(connect_retrying(base).await);
    tokio::spawn(client_main_inner(cargs, hr, stream_command_rx, datagram_rx));
    tokio::time::sleep(Duration::from_secs(1)).await;
}

/// Connect to a loopback port as soon as somebody listens on it
async fn connect_retrying(port: u16) -> TcpStream {
    for _ in 0..600 {
        if let Ok(s) = TcpStream::connect(("127.0.0.1", port)).await {
            return s;
        }
        tokio::time::sleep(Duration::from_millis(50)).await;
    }
    panic!("nobody listens on port {port}");
}

/// The receiving end: count what arrives on one connection until its end
async fn sink(who: &str, mut s: TcpStream, t0: Instant) -> (usize, bool) {
    let mut total = 0usize;
    let mut buf = vec![0u8; 1 << 16];
    loop {
        match s.read(&mut buf).await {
            Ok(0) => {
                eprintln!("[{:.1?}] {who}: end of stream after {total} bytes", t0.elapsed());
                return (total, true);
            }
            Ok(n) => total += n,
            Err(e) => {
                eprintln!("[{:.1?}] {who}: {e} after {total} bytes", t0.elapsed());
                return (total, false);
            }
        }
    }
}

/// The sending end: write `total` bytes, half-close, wait for the end of the other direction.
/// Returns the number of bytes the socket accepted and whether everything went without error.
async fn upload(who: &str, mut c: TcpStream, total: usize, t0: Instant) -> (usize, bool) {
    let chunk = vec![0x5au8; 1 << 20];
    let mut sent = 0usize;
    while sent < total {
        if let Err(e) = c.write_all(&chunk).await {
            eprintln!("[{:.1?}] {who}: write error {e} after {sent} bytes", t0.elapsed());
            return (sent, false);
        }
        sent += chunk.len();
    }
    eprintln!("[{:.1?}] {who}: wrote all {sent} bytes", t0.elapsed());
    c.shutdown().await.unwrap();
    let mut b = [0u8; 1];
    let r = c.read(&mut b).await;
    eprintln!("[{:.1?}] {who}: after half-close, read -> {r:?}", t0.elapsed());
    (sent, matches!(r, Ok(0)))
}

/// One local client uploads 80 MiB (20 s on this link); two seconds later a second local client
/// connects to the same entry point and says hello. A direct connection pair behaves the same on
/// any link: the upload arrives completely, the hello arrives.
#[tokio::test(flavor = "multi_thread", worker_threads = 4)]
async fn upload_survives_a_second_local_connection() {
    const TOTAL: usize = 80 << 20;
    let base = 46100;
    let target = TcpListener::bind(("127.0.0.1", base + 1)).await.unwrap();
    // all defaults: --keepalive 25 --keepalive-timeout 60 --channel-timeout 10
    start(base, 25, 60, 10).await;
    let t0 = Instant::now();
    let target_task = tokio::spawn(async move {
        let (s1, _) = target.accept().await.unwrap();
        let first = tokio::spawn(sink("target", s1, t0));
        let (mut s2, _) = target.accept().await.unwrap();
        let mut hello = [0u8; 5];
        s2.read_exact(&mut hello).await.unwrap();
        eprintln!("[{:.1?}] target: second connection said hello", t0.elapsed());
        (first.await.unwrap(), hello)
    });
    let c1 = connect_retrying(base + 2).await;
    let upload_task = tokio::spawn(upload("local", c1, TOTAL, t0));
    tokio::time::sleep(Duration::from_secs(2)).await;
    let mut c2 = connect_retrying(base + 2).await;
    c2.write_all(b"hello").await.unwrap();
    let (accepted, local_clean) = tokio::time::timeout(Duration::from_secs(90), upload_task)
        .await
        .expect("local client left hanging")
        .unwrap();
    let ((arrived, target_clean), hello) = tokio::time::timeout(Duration::from_secs(90), target_task)
        .await
        .expect("target left hanging")
        .unwrap();
    assert_eq!(&hello, b"hello");
    assert_eq!(
        (accepted, arrived),
        (TOTAL, TOTAL),
        "the local client was told that all {accepted} bytes were taken and that the target closed \
         normally ({local_clean}); the target saw a normal end of stream ({target_clean}) after \
         {arrived} bytes"
    );
}

/// The same in the other direction: the target sends 80 MiB to the first local client; two seconds
/// later a second local client connects. (Here it is the server's answer to the `Connect` that waits
/// behind the bulk data.)
#[tokio::test(flavor = "multi_thread", worker_threads = 4)]
async fn download_survives_a_second_local_connection() {
    const TOTAL: usize = 80 << 20;
    let base = 46400;
    let target = TcpListener::bind(("127.0.0.1", base + 1)).await.unwrap();
    start(base, 25, 60, 10).await;
    let t0 = Instant::now();
    let target_task = tokio::spawn(async move {
        let (s1, _) = target.accept().await.unwrap();
        let first = tokio::spawn(upload("target", s1, TOTAL, t0));
        let (mut s2, _) = target.accept().await.unwrap();
        let mut hello = [0u8; 5];
        let hello = s2.read_exact(&mut hello).await.map(|_| hello);
        (first.await.unwrap(), hello)
    });
    let c1 = connect_retrying(base + 2).await;
    let download_task = tokio::spawn(async move {
        // `c1` is closed at the end, which ends the target's side as well
        sink("local", c1, t0).await
    });
    tokio::time::sleep(Duration::from_secs(2)).await;
    let mut c2 = connect_retrying(base + 2).await;
    c2.write_all(b"hello").await.unwrap();
    let (arrived, local_clean) = tokio::time::timeout(Duration::from_secs(90), download_task)
        .await
        .expect("local client left hanging")
        .unwrap();
    let ((accepted, _), hello) = tokio::time::timeout(Duration::from_secs(90), target_task)
        .await
        .expect("target left hanging")
        .unwrap();
    assert_eq!(
        (accepted, arrived),
        (TOTAL, TOTAL),
        "the target's socket took all {accepted} bytes; the local client saw a normal end of stream \
         ({local_clean}) after {arrived} bytes; second connection: {hello:?}"
    );
    assert_eq!(hello.unwrap(), *b"hello");
}

/// A single local client uploads 80 MiB; nothing else happens. The keepalive is `--keepalive 5
/// --keepalive-timeout 10` here only to keep the test short; `..._default_keepalive` below is the
/// same with the defaults.
#[tokio::test(flavor = "multi_thread", worker_threads = 4)]
async fn upload_survives_the_keepalive() {
    single_upload(46200, 80 << 20, 5, 10).await;
}

/// A single local client uploads 400 MiB (100 s on this link) with the default options of
/// `penguin client` (`--keepalive 25 --keepalive-timeout 60`).
#[tokio::test(flavor = "multi_thread", worker_threads = 4)]
#[ignore = "takes 75 s to fail and 100 s to pass"]
async fn upload_survives_the_default_keepalive() {
    single_upload(46300, 400 << 20, 25, 60).await;
}

async fn single_upload(base: u16, total: usize, keepalive: u64, keepalive_timeout: u64) {
    let target = TcpListener::bind(("127.0.0.1", base + 1)).await.unwrap();
    start(base, keepalive, keepalive_timeout, 10).await;
    let t0 = Instant::now();
    let target_task = tokio::spawn(async move {
        let (s1, _) = target.accept().await.unwrap();
        sink("target", s1, t0).await
    });
    let c1 = connect_retrying(base + 2).await;
    let (accepted, local_clean) = tokio::time::timeout(Duration::from_secs(200), upload("local", c1, total, t0))
        .await
        .expect("local client left hanging");
    let (arrived, target_clean) = tokio::time::timeout(Duration::from_secs(200), target_task)
        .await
        .expect("target left hanging")
        .unwrap();
    assert_eq!(
        (accepted, arrived),
        (total, total),
        "the local client was told that all {accepted} bytes were taken and that the target closed \
         normally ({local_clean}); the target saw a normal end of stream ({target_clean}) after \
         {arrived} bytes"
    );
}
