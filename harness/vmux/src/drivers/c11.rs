//! C11 — datagram service: at most once, unmodified, ordered, never blocking.

use super::c05::push_viol;
use super::common::{Case, Plan, run_cases};
use crate::Args;
use crate::apps::{EndPlan, Ev, Op, SideCfg, World, dgram, opts};
use crate::codec::RFrame;
use crate::explore::{Cost, RunOutput, choose_n};
use crate::link::UNBOUNDED_CAP;
use crate::report::Report;
use crate::sim::{Fnv, Step};
use crate::wiremon::WireMon;
use penguin_mux::Datagram;
use std::collections::BTreeMap;
use std::time::Duration;

/// flow id the opener's generator draws for the stream in the `same_flow` scenarios
const STREAM_FLOW: u32 = 0x5151;
const W_DROPPED_FULL: u64 = 1;
const W_HOST_TOO_LONG: u64 = 2;
const W_SHORT_PAYLOAD: u64 = 4;
const W_STREAM_DONE: u64 = 8;
const W_ALL_DELIVERED: u64 = 16;

#[derive(Clone, Debug)]
struct D {
    flow: u32,
    host: Vec<u8>,
    port: u16,
    data: Vec<u8>,
}

#[derive(Clone, Debug)]
struct Scn {
    name: String,
    list: Vec<D>,
    /// datagram_buffer_size of the receiving side
    buf: usize,
    /// the receiver only starts reading once the burst has fully arrived
    late_reader: bool,
    /// a stream transfer runs on the same connection
    with_stream: bool,
    cap: usize,
    /// two application tasks wait in get_datagram at the same time (the method takes &self), one datagram each
    two_readers: bool,
    /// the datagrams carry the flow id of the STREAM that runs on the same connection (the id space is shared: a UDP
    /// bind even requires it); what happens to a datagram must never happen to the stream of the same number
    same_flow: bool,
    /// the receiving endpoint's connection task does not get to run until the whole burst has arrived at its socket (a
    /// busy executor): it then finds a long backlog ready at once
    backlog: bool,
    /// the receiving application waits in a select-like loop: a fresh `get_datagram` future for every poll, dropped when
    /// it is not ready (the call is documented as cancel safe)
    restart: bool,
}

fn mk(d: &D) -> Datagram {
    dgram(d.flow, &d.host, d.port, &d.data)
}

fn exec(sc: &Scn, render: bool) -> RunOutput {
    let _restart = crate::apps::RestartWaits::set(sc.restart);
    let a = SideCfg { opts: opts(2, 1).datagram_buffer_size(4), rng: if sc.same_flow { vec![STREAM_FLOW] } else { vec![] } };
    // (the accept queue is sized differently from the datagram queue, so that mixing the two options up shows)
    let b = SideCfg { opts: opts(2, 1).datagram_buffer_size(sc.buf).stream_buffer_size(if sc.buf >= 2 { 1 } else { 4 }), rng: vec![] };
    let mut w = World::two(if sc.cap == 0 { UNBOUNDED_CAP } else { sc.cap }, &a, &b);
    w.spawn_dgram_sender(0, "dgsend.a", sc.list.iter().map(mk).collect(), 0, false);
    if sc.two_readers {
        w.spawn_dgram_receiver(1, "dgrecv1.b", 1, false);
        w.spawn_dgram_receiver(1, "dgrecv2.b", 1, false);
    } else if !sc.late_reader {
        w.spawn_dgram_receiver(1, "dgrecv.b", usize::MAX, false);
    }
    if sc.with_stream {
        let mut plans = BTreeMap::new();
        plans.insert(1u8, EndPlan::Split(vec![Op::Burst(4, 2), Op::Shutdown], vec![Op::ReadToEof(3)]));
        w.spawn_acceptor(1, 1, plans);
        w.spawn_opener(0, 1, vec![1], 1, EndPlan::Split(vec![Op::Burst(5, 1), Op::Shutdown], vec![Op::ReadToEof(64)]));
    }
    let mut mon = WireMon::new();
    let mut viol: Vec<(String, String)> = Vec::new();
    let mut fps = Vec::new();
    let mut wit = 0u64;
    // reference model of the receiving side's bounded queue. Which datagram is sacrificed when one arrives at a full
    // queue (the arriving one, the oldest one ...) is not fixed by the property, the OCCUPANCY is the same either way:
    // `processed` = every datagram the receiving task took in, `overflow_at` = positions in it at which the queue was full
    let mut processed: Vec<RFrame> = Vec::new();
    let mut overflow_at: Vec<usize> = Vec::new();
    let mut seen_consumed = 0usize;
    let mut horizon = false;
    let mut phase = 0;
    let mut hold_b = sc.backlog;
    loop {
        if w.sim.steps >= 20_000 {
            horizon = true;
            break;
        }
        let mut en = w.sim.enabled();
        if hold_b {
            en.retain(|s| !matches!(s, Step::Poll(i) if w.sim.tasks[*i].name == "taskB"));
            if en.is_empty() {
                hold_b = false;
                continue;
            }
        }
        if en.is_empty() {
            if sc.late_reader && phase == 0 {
                phase = 1;
                // nobody has taken a datagram out yet and nothing is left to run: whatever does not fit has been
                // discarded, and the stream that shares the connection must be through -- datagrams never block it
                if sc.with_stream {
                    let obs = w.obs.borrow();
                    for dir in 0..2u8 {
                        let d = obs.dirs.get(&(1, dir)).cloned().unwrap_or_default();
                        if !(d.shutdown && d.eof && d.read == d.written && !d.written.is_empty()) {
                            push_viol(&mut viol, "stream.blocked-by-datagrams", format!("a burst of {} datagrams sits unread at the receiver (buffer {}); the system is quiescent and the stream sharing the connection has not completed (dir {dir}: written {} read {} shutdown={} eof={}): it waits for the application to take datagrams out", sc.list.len(), sc.buf, d.written.len(), d.read.len(), d.shutdown, d.eof));
                        }
                    }
                }
                w.spawn_dgram_receiver(1, "dgrecv.b", usize::MAX, false);
                continue;
            }
            break;
        }
        let c = choose_n(en.len(), Cost::Sched);
        let step: Step = en[c].clone();
        let item = w.sim.apply(&step);
        {
            let l = w.sim.link.lock();
            mon.absorb(&l);
        }
        if let (Step::Deliver(d), Some(it)) = (&step, item.as_ref()) {
            mon.on_delivered(*d, it);
        }
        {
            let l = w.sim.link.lock();
            mon.absorb_consumed(&l);
        }
        let obs = w.obs.borrow();
        let deq = obs.events.iter().filter(|e| matches!(e, Ev::DgramGot { side: 1, .. })).count();
        // datagrams that B's task took in during this step: the queue cannot have been drained in between
        let deq_before_step = deq - if matches!(&step, Step::Poll(i) if w.sim.tasks[*i].name == "dgrecv.b") { obs.events.iter().rev().take_while(|e| matches!(e, Ev::DgramGot { side: 1, .. })).count().min(deq) } else { 0 };
        let _ = deq_before_step;
        while seen_consumed < mon.consumed_log.len() {
            let (dir, f) = mon.consumed_log[seen_consumed].clone();
            seen_consumed += 1;
            if dir == 0 {
                if let RFrame::Datagram { .. } = f {
                    if processed.len() - overflow_at.len() - deq.min(processed.len() - overflow_at.len()) >= sc.buf {
                        overflow_at.push(processed.len());
                        wit |= W_DROPPED_FULL;
                    }
                    processed.push(f);
                }
            }
        }
        // what the application received so far must be a subsequence of what the receiving task took in: in order,
        // at most once, all four fields unchanged
        let got: Vec<&Ev> = obs.events.iter().filter(|e| matches!(e, Ev::DgramGot { side: 1, .. })).collect();
        let mut at = 0usize;
        for (i, e) in got.iter().enumerate() {
            let Ev::DgramGot { flow, host, port, data, .. } = e else { continue };
            let same = |f: &RFrame| matches!(f, RFrame::Datagram { id, port: p, host: h, data: d } if id == flow && p == port && h == host && d == data);
            match processed[at.min(processed.len())..].iter().position(same) {
                Some(k) => at += k + 1,
                None => {
                    if processed.iter().any(same) {
                        push_viol(&mut viol, "datagram.modified-or-reordered", format!("datagram #{i} delivered as (flow {flow:#x}, host {} B, port {port}, data {} B) is out of order or a duplicate: it is not among the datagrams that arrived after the previously delivered one", host.len(), data.len()));
                    } else {
                        push_viol(&mut viol, "datagram.duplicate-or-phantom", format!("datagram #{i} delivered as (flow {flow:#x}, host {} B, port {port}, data {} B) matches none of the {} datagrams the receiving task took in (modified, or made up)", host.len(), data.len(), processed.len()));
                    }
                    break;
                }
            }
        }
        if got.len() > processed.len() {
            push_viol(&mut viol, "datagram.duplicate-or-phantom", format!("the application received {} datagrams but only {} reached the receiving task", got.len(), processed.len()));
        }
        let mut h = Fnv::default();
        h.u64(obs.events.len() as u64);
        h.u64(processed.len() as u64);
        h.u64(overflow_at.len() as u64);
        {
            let l = w.sim.link.lock();
            for d in 0..2 {
                h.u64(l.dirs[d].inflight.len() as u64);
                h.u64(l.dirs[d].ready.len() as u64);
            }
        }
        for side in 0..2 {
            if let Some(m) = w.mux[side].as_ref() {
                for f in m.verif_flow_digest() {
                    h.u64(u64::from(f.credit));
                    h.u64(f.queued as u64);
                    h.byte(f.kind | u8::from(f.finish_sent) << 2 | u8::from(f.read_open) << 3);
                }
            }
        }
        for (i, t) in w.sim.tasks.iter().enumerate() {
            h.byte(u8::from(t.done) | u8::from(w.sim.is_runnable(i)) << 1);
        }
        fps.push(h.0);
    }
    // ---- end
    let obs = w.obs.borrow();
    if horizon {
        push_viol(&mut viol, "livelock", "step horizon reached".into());
    }
    // sender results and "no other effect" of a refused datagram
    let mut expected_on_wire: Vec<RFrame> = Vec::new();
    for (i, d) in sc.list.iter().enumerate() {
        let res = obs.events.iter().find_map(|e| if let Ev::DgramSent { side: 0, n, res } = e { (*n == i as u32).then(|| res.clone()) } else { None });
        if d.host.len() > 255 {
            wit |= W_HOST_TOO_LONG;
            if res != Some(Err("DatagramHostTooLong".into())) {
                push_viol(&mut viol, "send.long-host-accepted", format!("send_datagram with a {}-byte host returned {res:?} instead of DatagramHostTooLong", d.host.len()));
            }
        } else {
            if d.data.len() < 4 {
                wit |= W_SHORT_PAYLOAD;
            }
            if res != Some(Ok(())) {
                push_viol(&mut viol, "send.refused", format!("send_datagram(flow {:#x}, host {} B, port {}, data {} B) returned {res:?}", d.flow, d.host.len(), d.port, d.data.len()));
            }
            expected_on_wire.push(RFrame::Datagram { id: d.flow, port: d.port, host: d.host.clone(), data: d.data.clone() });
        }
    }
    let on_wire: Vec<RFrame> = mon.frames.iter().filter(|(s, f)| *s == 0 && f.op() == 6).map(|(_, f)| f.clone()).collect();
    if on_wire != expected_on_wire {
        push_viol(&mut viol, "send.wire-mismatch", format!("datagram frames on the wire differ from the accepted datagrams (in order): {} on the wire, {} accepted; first difference at index {:?}", on_wire.len(), expected_on_wire.len(), on_wire.iter().zip(expected_on_wire.iter()).position(|(a, b)| a != b)));
    }
    // lost only when the receive buffer was full: every missing datagram must be accounted for by a moment, at or after
    // its arrival, at which a datagram arrived at a full queue (one loss per such moment)
    let got: Vec<&Ev> = obs.events.iter().filter(|e| matches!(e, Ev::DgramGot { side: 1, .. })).collect();
    let mut lost: Vec<usize> = Vec::new();
    {
        let mut gi = 0usize;
        for (pi, f) in processed.iter().enumerate() {
            let hit = got.get(gi).is_some_and(|e| matches!((e, f), (Ev::DgramGot { flow, host, port, data, .. }, RFrame::Datagram { id, port: p, host: h, data: d }) if id == flow && p == port && h == host && d == data));
            if hit {
                gi += 1;
            } else {
                lost.push(pi);
            }
        }
    }
    let accounted = lost.len() <= overflow_at.len() && lost.iter().rev().zip(overflow_at.iter().rev()).all(|(l, o)| l <= o);
    if !accounted && !horizon {
        push_viol(
            &mut viol,
            "datagram.lost-without-cause",
            format!("{} datagrams reached the receiving task, the application received {}; missing (positions) {lost:?}, but a datagram arrived at a full queue (buffer {}) only at positions {overflow_at:?}", processed.len(), got.len(), sc.buf),
        );
    }
    let got = got.len();
    if overflow_at.is_empty() && got == expected_on_wire.len() {
        wit |= W_ALL_DELIVERED;
    }
    if processed.len() != expected_on_wire.len() && !horizon {
        push_viol(&mut viol, "datagram.not-processed", format!("{} datagrams were transmitted but the receiving task processed only {}", expected_on_wire.len(), processed.len()));
    }
    // never terminates the connection, never disturbs stream traffic
    for side in 0..2 {
        if w.task_done(side) {
            push_viol(&mut viol, "connection.ended", format!("the connection task of side {side} ended: {:?}", w.task_result[side].borrow()));
        }
    }
    if sc.with_stream {
        let mut ok = true;
        for dir in 0..2u8 {
            let d = obs.dirs.get(&(1, dir)).cloned().unwrap_or_default();
            if !(d.shutdown && d.eof && d.read == d.written && !d.written.is_empty()) {
                ok = false;
                push_viol(&mut viol, "stream.disturbed", format!("the stream sharing the connection did not complete intact (dir {dir}: written {} read {} shutdown={} eof={})", d.written.len(), d.read.len(), d.shutdown, d.eof));
            }
        }
        if ok {
            wit |= W_STREAM_DONE;
        }
    }
    for t in &w.sim.tasks {
        if let Some(p) = &t.panicked {
            push_viol(&mut viol, "panic", format!("{} panicked: {p}", t.name));
        }
    }
    let mut h = Fnv::default();
    for e in &obs.events {
        match e {
            Ev::DgramGot { flow, host, port, data, .. } => {
                h.u64(u64::from(*flow));
                h.u64(host.len() as u64);
                h.u64(u64::from(*port));
                h.u64(data.len() as u64);
            }
            other => h.str(&format!("{other:?}")),
        }
    }
    drop(obs);
    let out = RunOutput { blocked: false, steps: w.sim.steps, fingerprints: fps, outcome: h.0, violations: viol, witnesses: wit, horizon, rendering: render.then(|| w.sim.render_log().join(" ")) };
    w.sim.teardown();
    out
}

pub fn run(args: &Args) -> Report {
    let mut rep = Report::new("C11", &args.tier, "psim", "model_checking");
    let thorough = args.thorough();
    let mut cases = Vec::new();
    // ---- field sweep
    let host_lens = [0usize, 1, 255, 256, 300];
    let pay_lens: Vec<usize> = if thorough { vec![0, 1, 2, 3, 4, 5, 1500, 65535, 65536] } else { vec![0, 1, 2, 3, 4, 5, 1500, 65536] };
    for &hl in &host_lens {
        for &pl in &pay_lens {
            let mut list = Vec::new();
            for flow in [0u32, 1, u32::MAX] {
                for port in [0u16, 65535] {
                    list.push(D { flow, host: (0..hl).map(|i| (i as u8) | 0x80).collect(), port, data: (0..pl).map(|i| (i % 251) as u8).collect() });
                }
            }
            // a well-formed datagram after the sweep point: refused ones must have no other effect
            list.push(D { flow: 42, host: b"ok".to_vec(), port: 7, data: b"after".to_vec() });
            let sc = Scn { name: format!("field sweep host_len={hl} payload_len={pl}"), list, buf: 8, late_reader: false, with_stream: false, cap: 0, two_readers: false, same_flow: false, backlog: false, restart: false };
            cases.push(Case { try_unbounded: false, max_k: u32::MAX, label: sc.name.clone(), exec: Box::new(move |r| exec(&sc, r)) });
        }
    }
    // ---- bursts relative to the buffer, ordering, interference with a stream
    for buf in [1usize, 2, 3] {
        for late in [false, true] {
            for with_stream in [false, true] {
                // (a link that takes one message at a time: the sending task meets a sink that is not ready)
                for cap in if thorough { vec![0usize, 1, 2] } else { vec![0usize, 1] } {
                    let n = buf + 2;
                    let list = (0..n).map(|i| D { flow: 100 + (i as u32 % 2), host: vec![b'h', i as u8], port: 9, data: vec![i as u8; 1 + i % 3] }).collect();
                    let sc = Scn { name: format!("burst of {n} into buffer {buf} late_reader={late} with_stream={with_stream} cap={cap}"), list, buf, late_reader: late, with_stream, cap, two_readers: false, same_flow: false, backlog: false, restart: false };
                    cases.push(Case { try_unbounded: false, max_k: u32::MAX, label: sc.name.clone(), exec: Box::new(move |r| exec(&sc, r)) });
                }
            }
        }
    }
    // ---- the burst carries the flow id of the stream next to it
    for buf in [1usize, 2] {
        for late in [false, true] {
            let n = buf + 2;
            let list = (0..n).map(|i| D { flow: STREAM_FLOW, host: vec![b's', i as u8], port: 9, data: vec![i as u8; 1 + i % 3] }).collect();
            let sc = Scn { name: format!("burst of {n} into buffer {buf} late_reader={late} on the flow id of the stream sharing the connection"), list, buf, late_reader: late, with_stream: true, cap: 0, two_readers: false, same_flow: true, backlog: false, restart: false };
            cases.push(Case { try_unbounded: false, max_k: u32::MAX, label: sc.name.clone(), exec: Box::new(move |r| exec(&sc, r)) });
        }
    }
    // ---- the receiving application takes datagrams (and accepts the stream) inside a select-like loop
    for buf in [1usize, 3] {
        for with_stream in [false, true] {
            for cap in [0usize, 1] {
                let n = buf + 2;
                let list = (0..n).map(|i| D { flow: 100 + (i as u32 % 2), host: vec![b'r', i as u8], port: 9, data: vec![i as u8; 1 + i % 3] }).collect();
                let sc = Scn { name: format!("burst of {n} into buffer {buf} with_stream={with_stream} cap={cap}, the receiver re-creates its get_datagram / accept future at every poll"), list, buf, late_reader: false, with_stream, cap, two_readers: false, same_flow: false, backlog: false, restart: true };
                cases.push(Case { try_unbounded: false, max_k: u32::MAX, label: sc.name.clone(), exec: Box::new(move |r| exec(&sc, r)) });
            }
        }
    }
    // ---- a long backlog: the receiving task is kept from running until 1100 datagrams (and the Connect of a stream
    // behind them) have arrived; the buffer holds them all, so every one is owed to the application, and the stream
    // completes
    {
        let n = 1100usize;
        let list = (0..n).map(|i| D { flow: 300 + (i as u32 % 2), host: vec![b'b', (i % 251) as u8, (i / 251) as u8], port: 9, data: vec![(i % 256) as u8; 1 + i % 3] }).collect();
        let sc = Scn { name: format!("backlog: {n} datagrams and a stream request arrive before the receiving task runs, buffer 2048"), list, buf: 2048, late_reader: false, with_stream: true, cap: 0, two_readers: false, same_flow: false, backlog: true, restart: false };
        cases.push(Case { try_unbounded: false, max_k: 0, label: sc.name.clone(), exec: Box::new(move |r| exec(&sc, r)) });
    }
    // ---- two application tasks waiting in get_datagram at once: each datagram that arrives must reach one of them
    for n in [2usize] {
        let list = (0..n).map(|i| D { flow: 200 + i as u32, host: vec![], port: 1, data: vec![i as u8] }).collect();
        let sc = Scn { name: format!("{n} datagrams for two tasks waiting in get_datagram at the same time"), list, buf: 4, late_reader: false, with_stream: false, cap: 0, two_readers: true, same_flow: false, backlog: false, restart: false };
        cases.push(Case { try_unbounded: false, max_k: u32::MAX, label: sc.name.clone(), exec: Box::new(move |r| exec(&sc, r)) });
    }
    let plan = Plan {
        ks: if thorough { vec![0, 1, 2, 3, 4] } else { vec![0, 1, 2] },
        env: 0,
        fault: 0,
        total_wall: Duration::from_secs(if thorough { 1200 } else { 100 }),
        max_execs_per_case: 1_000_000,
        required_witnesses: W_DROPPED_FULL | W_HOST_TOO_LONG | W_SHORT_PAYLOAD | W_STREAM_DONE | W_ALL_DELIVERED,
        adaptive: thorough,
        witness_names: &[("dropped_because_buffer_full", W_DROPPED_FULL), ("host_too_long_refused", W_HOST_TOO_LONG), ("payload_shorter_than_4_bytes", W_SHORT_PAYLOAD), ("stream_completed_alongside", W_STREAM_DONE), ("burst_fully_delivered", W_ALL_DELIVERED)],
    };
    rep.rule = "psim: two real endpoints. Field sweep: host length {0,1,255,256,300} x payload length {0..5,1500,65535,65536} x flow id {0,1,2^32-1} x port {0,65535}, followed by a well-formed datagram. Bursts of size+2 numbered datagrams into datagram_buffer_size {1,2,3}, reader concurrent or late, with and without a stream transfer on the same connection, every schedule <= k deviations. Oracle: send result (DatagramHostTooLong iff host > 255, then nothing on the wire), frames on the wire equal the accepted datagrams in order, and against a reference model of the bounded receive queue (a datagram is queued iff the queue has room when the receiving task takes it in): the application receives exactly the queued datagrams, in order, all four fields equal; connection tasks never end; the stream completes intact".into();
    rep.assumptions = vec!["payload/host bytes are patterns; only lengths and boundary values are enumerated".into()];
    run_cases(args, &mut rep, cases, &plan);
    rep
}
