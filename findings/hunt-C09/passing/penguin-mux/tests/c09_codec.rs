//! C09: reference codec written from PROTOCOL.md, compared with `penguin_mux::frame`.
use bytes::Bytes;
use cow_bytes::CowBytes;
use penguin_mux::frame::{BindType, Frame, OpCode};
use std::panic::{AssertUnwindSafe, catch_unwind};

#[derive(Clone, Debug, PartialEq, Eq)]
enum Ref {
    Connect { id: u32, rwnd: u32, port: u16, host: Vec<u8> },
    Acknowledge { id: u32, n: u32 },
    Reset { id: u32 },
    Finish { id: u32 },
    Push { id: u32, data: Vec<u8> },
    Bind { id: u32, ty: u8, port: u16, host: Vec<u8> },
    Datagram { id: u32, port: u16, host: Vec<u8>, data: Vec<u8> },
}

fn be32(b: &[u8]) -> u32 {
    u32::from_be_bytes([b[0], b[1], b[2], b[3]])
}
fn be16(b: &[u8]) -> u16 {
    u16::from_be_bytes([b[0], b[1]])
}

fn ref_decode(b: &[u8]) -> Option<Ref> {
    if b.len() < 5 {
        return None;
    }
    let ver = b[0] >> 4;
    if ver != 7 && ver != 0 {
        return None;
    }
    let id = be32(&b[1..5]);
    let d = &b[5..];
    match b[0] & 0x0f {
        0 => {
            if d.len() < 6 {
                return None;
            }
            Some(Ref::Connect { id, rwnd: be32(&d[0..4]), port: be16(&d[4..6]), host: d[6..].to_vec() })
        }
        1 => {
            if d.len() < 4 {
                return None;
            }
            Some(Ref::Acknowledge { id, n: be32(&d[0..4]) })
        }
        2 => Some(Ref::Reset { id }),
        3 => Some(Ref::Finish { id }),
        4 => Some(Ref::Push { id, data: d.to_vec() }),
        5 => {
            if d.len() < 3 {
                return None;
            }
            if d[0] != 1 && d[0] != 3 {
                return None;
            }
            Some(Ref::Bind { id, ty: d[0], port: be16(&d[1..3]), host: d[3..].to_vec() })
        }
        6 => {
            if d.len() < 3 {
                return None;
            }
            let hl = usize::from(d[0]);
            if d.len() < 3 + hl {
                return None;
            }
            Some(Ref::Datagram { id, port: be16(&d[1..3]), host: d[3..3 + hl].to_vec(), data: d[3 + hl..].to_vec() })
        }
        _ => None,
    }
}

fn ref_encode(r: &Ref) -> Vec<u8> {
    let mut v = Vec::new();
    match r {
        Ref::Connect { id, rwnd, port, host } => {
            v.push(0x70);
            v.extend(id.to_be_bytes());
            v.extend(rwnd.to_be_bytes());
            v.extend(port.to_be_bytes());
            v.extend(host);
        }
        Ref::Acknowledge { id, n } => {
            v.push(0x71);
            v.extend(id.to_be_bytes());
            v.extend(n.to_be_bytes());
        }
        Ref::Reset { id } => {
            v.push(0x72);
            v.extend(id.to_be_bytes());
        }
        Ref::Finish { id } => {
            v.push(0x73);
            v.extend(id.to_be_bytes());
        }
        Ref::Push { id, data } => {
            v.push(0x74);
            v.extend(id.to_be_bytes());
            v.extend(data);
        }
        Ref::Bind { id, ty, port, host } => {
            v.push(0x75);
            v.extend(id.to_be_bytes());
            v.push(*ty);
            v.extend(port.to_be_bytes());
            v.extend(host);
        }
        Ref::Datagram { id, port, host, data } => {
            v.push(0x76);
            v.extend(id.to_be_bytes());
            v.push(u8::try_from(host.len()).unwrap());
            v.extend(port.to_be_bytes());
            v.extend(host);
            v.extend(data);
        }
    }
    v
}

fn ref_opcode(r: &Ref) -> OpCode {
    match r {
        Ref::Connect { .. } => OpCode::Connect,
        Ref::Acknowledge { .. } => OpCode::Acknowledge,
        Ref::Reset { .. } => OpCode::Reset,
        Ref::Finish { .. } => OpCode::Finish,
        Ref::Push { .. } => OpCode::Push,
        Ref::Bind { .. } => OpCode::Bind,
        Ref::Datagram { .. } => OpCode::Datagram,
    }
}

/// Build the frame through the public constructors (borrowed variants)
fn build(r: &Ref) -> Frame<'_> {
    match r {
        Ref::Connect { id, rwnd, port, host } => Frame::new_connect(host, *port, *id, *rwnd),
        Ref::Acknowledge { id, n } => Frame::new_acknowledge(*id, *n),
        Ref::Reset { id } => Frame::new_reset(*id),
        Ref::Finish { id } => Frame::new_finish(*id),
        Ref::Push { id, data } => Frame::new_push(*id, data),
        Ref::Bind { id, ty, port, host } => {
            Frame::new_bind(*id, if *ty == 1 { BindType::Stream } else { BindType::Datagram }, host, *port)
        }
        Ref::Datagram { id, port, host, data } => Frame::new_datagram(*id, host, *port, data),
    }
}

/// Other constructor flavours that must be equal and encode identically
fn build_alt(r: &Ref, split: usize) -> Option<Frame<'static>> {
    match r {
        Ref::Push { id, data } => {
            let s = split.min(data.len());
            let (a, b) = data.split_at(s);
            Some(Frame::new_push_vectored(
                *id,
                vec![
                    CowBytes::Static(Bytes::copy_from_slice(a)),
                    CowBytes::Static(Bytes::new()),
                    CowBytes::Static(Bytes::copy_from_slice(b)),
                ],
            ))
        }
        Ref::Datagram { id, port, host, data } => Some(Frame::new_datagram_owned(
            *id,
            Bytes::copy_from_slice(host),
            *port,
            Bytes::copy_from_slice(data),
        )),
        _ => None,
    }
}

fn decode_all(b: &[u8]) -> [Result<Result<Frame<'static>, penguin_mux::frame::Error>, ()>; 3] {
    // borrowed
    let r1 = catch_unwind(AssertUnwindSafe(|| {
        Frame::try_from(b).map(|f| {
            // make it 'static via encode/decode is cheating; re-encode instead below
            let enc = Vec::from(&f);
            Frame::try_from(enc).expect("re-decode of own encoding")
        })
    }))
    .map_err(|_| ());
    let r2 = catch_unwind(AssertUnwindSafe(|| Frame::try_from(Bytes::copy_from_slice(b)))).map_err(|_| ());
    let r3 = catch_unwind(AssertUnwindSafe(|| Frame::try_from(b.to_vec()))).map_err(|_| ());
    [r1, r2, r3]
}

fn check_bytes(b: &[u8], fails: &mut Vec<String>) {
    let want = ref_decode(b);
    // borrowed decode, checked directly against the reference
    let borrowed = catch_unwind(AssertUnwindSafe(|| Frame::try_from(b)));
    match (&want, &borrowed) {
        (Some(r), Ok(Ok(f))) => {
            if *f != build(r) || f.opcode() != ref_opcode(r) || f.id != build(r).id {
                fails.push(format!("borrowed decode of {b:02x?}: got {f:?}, want {r:?}"));
            }
            let enc = Vec::from(f);
            if enc != ref_encode(r) {
                fails.push(format!("re-encode of {b:02x?}: got {enc:02x?}, want {:02x?}", ref_encode(r)));
            }
        }
        (None, Ok(Err(_))) => {}
        (None, Err(_)) if cfg!(debug_assertions) => {} // debug_assert in check_remaining
        (w, g) => fails.push(format!("borrowed decode of {b:02x?}: want {w:?}, got {:?}", g.as_ref().map_err(|_| "PANIC"))),
    }
    for (i, got) in decode_all(b).into_iter().enumerate() {
        match (&want, &got) {
            (Some(r), Ok(Ok(f))) => {
                if *f != build(r) || f.opcode() != ref_opcode(r) {
                    fails.push(format!("decode#{i} of {b:02x?}: got {f:?}, want {r:?}"));
                }
                let enc = Vec::from(f);
                if enc != ref_encode(r) {
                    fails.push(format!("re-encode#{i} of {b:02x?}: got {enc:02x?}"));
                }
                let enc2 = Bytes::from(f);
                if enc2 != ref_encode(r) {
                    fails.push(format!("re-encode(Bytes)#{i} of {b:02x?}: got {enc2:02x?}"));
                }
            }
            (None, Ok(Err(_))) => {}
            (None, Err(())) if cfg!(debug_assertions) => {}
            (w, g) => fails.push(format!("decode#{i} of {b:02x?}: want {w:?}, got {:?}", g.as_ref().map(|x| x.as_ref().map(|_| "frame")))),
        }
    }
}

fn check_ref(r: &Ref, fails: &mut Vec<String>) {
    let f = build(r);
    let want = ref_encode(r);
    let enc = Vec::from(&f);
    if enc != want {
        fails.push(format!("encode {r:?}: got {enc:02x?} want {want:02x?}"));
    }
    if Bytes::from(&f) != want {
        fails.push(format!("encode(Bytes) {r:?}"));
    }
    let m: penguin_mux::ws::Message = f.clone().into();
    if m != penguin_mux::ws::Message::Binary(Bytes::from(want.clone())) {
        fails.push(format!("encode(Message) {r:?}"));
    }
    for split in [0usize, 1, 2, 1000] {
        if let Some(alt) = build_alt(r, split) {
            if alt != f {
                fails.push(format!("alt constructor not equal for {r:?}"));
            }
            if Vec::from(&alt) != want {
                fails.push(format!("alt encode {r:?}: got {:02x?}", Vec::from(&alt)));
            }
        }
    }
    match Frame::try_from(&enc[..]) {
        Ok(back) if back == f => {}
        other => fails.push(format!("borrowed roundtrip of {r:?}: {other:?}")),
    }
    match Frame::try_from(Bytes::from(enc.clone())) {
        Ok(back) if back == f => {}
        other => fails.push(format!("owned roundtrip of {r:?}: {other:?}")),
    }
    if ref_decode(&enc).as_ref() != Some(r) {
        fails.push(format!("reference self-check failed for {r:?}"));
    }
}

struct Rng(u64);
impl Rng {
    fn next(&mut self) -> u64 {
        self.0 ^= self.0 << 13;
        self.0 ^= self.0 >> 7;
        self.0 ^= self.0 << 17;
        self.0
    }
    fn pick<T: Copy>(&mut self, xs: &[T]) -> T {
        xs[(self.next() % xs.len() as u64) as usize]
    }
    fn bytes(&mut self, n: usize) -> Vec<u8> {
        (0..n).map(|_| self.next() as u8).collect()
    }
}

const U32S: [u32; 8] = [0, 1, 0xff, 0x100, 0x7fff_ffff, 0x8000_0000, 0xffff_fffe, 0xffff_ffff];
const U16S: [u16; 6] = [0, 1, 0xff, 0x100, 0x7fff, 0xffff];

fn report(fails: Vec<String>) {
    if !fails.is_empty() {
        for f in fails.iter().take(30) {
            eprintln!("{f}");
        }
        panic!("{} mismatches", fails.len());
    }
}

#[test]
fn frames_boundary_domains() {
    std::panic::set_hook(Box::new(|_| {}));
    let mut fails = Vec::new();
    let mut rng = Rng(0x9E37_79B9_7F4A_7C15);
    let host_lens = [0usize, 1, 2, 3, 4, 5, 127, 128, 254, 255];
    let data_lens = [0usize, 1, 2, 3, 4, 5, 6, 7, 8, 255, 256, 257, 4096, 65535, 65536, 70000];
    for &id in &U32S {
        check_ref(&Ref::Reset { id }, &mut fails);
        check_ref(&Ref::Finish { id }, &mut fails);
        for &n in &U32S {
            check_ref(&Ref::Acknowledge { id, n }, &mut fails);
        }
        for &port in &U16S {
            for &hl in &host_lens {
                let host = rng.bytes(hl);
                for &rwnd in &U32S {
                    check_ref(&Ref::Connect { id, rwnd, port, host: host.clone() }, &mut fails);
                }
                for ty in [1u8, 3] {
                    check_ref(&Ref::Bind { id, ty, port, host: host.clone() }, &mut fails);
                }
                for &dl in &data_lens[..12] {
                    let data = rng.bytes(dl);
                    check_ref(&Ref::Datagram { id, port, host: host.clone(), data }, &mut fails);
                }
            }
        }
        for &dl in &data_lens {
            let data = rng.bytes(dl);
            check_ref(&Ref::Push { id, data }, &mut fails);
        }
    }
    // long hosts for Connect / Bind (no length prefix there)
    for hl in [256usize, 257, 1000, 65536] {
        let host = rng.bytes(hl);
        check_ref(&Ref::Connect { id: 1, rwnd: 2, port: 3, host: host.clone() }, &mut fails);
        check_ref(&Ref::Bind { id: 1, ty: 3, port: 3, host }, &mut fails);
    }
    // hosts / data made of bytes that look like headers
    for fill in [0u8, 0x70, 0x76, 0xff] {
        for hl in 0..=8usize {
            for dl in 0..=8usize {
                check_ref(&Ref::Datagram { id: 0x7676_7676, port: 0x7676, host: vec![fill; hl], data: vec![fill; dl] }, &mut fails);
            }
        }
    }
    report(fails);
}

#[test]
fn frames_random() {
    std::panic::set_hook(Box::new(|_| {}));
    let mut fails = Vec::new();
    let mut rng = Rng(0xDEAD_BEEF_1234_5678);
    for _ in 0..200_000 {
        let id = if rng.next() % 2 == 0 { rng.pick(&U32S) } else { rng.next() as u32 };
        let port = if rng.next() % 2 == 0 { rng.pick(&U16S) } else { rng.next() as u16 };
        let hl = (rng.next() % 256) as usize;
        let dl = (rng.next() % 300) as usize;
        let r = match rng.next() % 7 {
            0 => Ref::Connect { id, rwnd: rng.next() as u32, port, host: rng.bytes(hl) },
            1 => Ref::Acknowledge { id, n: rng.next() as u32 },
            2 => Ref::Reset { id },
            3 => Ref::Finish { id },
            4 => Ref::Push { id, data: rng.bytes(dl) },
            5 => Ref::Bind { id, ty: rng.pick(&[1u8, 3]), port, host: rng.bytes(hl) },
            _ => Ref::Datagram { id, port, host: rng.bytes(hl), data: rng.bytes(dl) },
        };
        check_ref(&r, &mut fails);
    }
    report(fails);
}

#[test]
fn bytes_exhaustive_small() {
    std::panic::set_hook(Box::new(|_| {}));
    let mut fails = Vec::new();
    // every first byte; tail over a boundary alphabet
    let alpha = [0x00u8, 0x01, 0x02, 0x03, 0xff];
    for first in 0..=255u8 {
        // only descend for interesting first bytes to keep the count down
        let deep = matches!(first >> 4, 0 | 7) && (first & 0xf) <= 7 || first == 0x80 || first == 0xff;
        let maxlen = if deep { 9 } else { 6 };
        for len in 0..=maxlen {
            let mut idx = vec![0usize; len];
            loop {
                let mut b = Vec::with_capacity(len + 1);
                b.push(first);
                b.extend(idx.iter().map(|&i| alpha[i]));
                check_bytes(&b, &mut fails);
                // odometer
                let mut k = 0;
                while k < len {
                    idx[k] += 1;
                    if idx[k] < alpha.len() {
                        break;
                    }
                    idx[k] = 0;
                    k += 1;
                }
                if k == len {
                    break;
                }
            }
        }
        if fails.len() > 100 {
            break;
        }
    }
    check_bytes(&[], &mut fails);
    report(fails);
}

#[test]
fn bytes_random() {
    std::panic::set_hook(Box::new(|_| {}));
    let mut fails = Vec::new();
    let mut rng = Rng(0x0123_4567_89AB_CDEF);
    let firsts = [0x00u8, 0x01, 0x02, 0x03, 0x04, 0x05, 0x06, 0x07, 0x0f, 0x70, 0x71, 0x72, 0x73, 0x74, 0x75, 0x76, 0x77, 0x7f, 0x60, 0x80, 0x10, 0xf6];
    for _ in 0..300_000 {
        let len = (rng.next() % 40) as usize;
        let mut b = rng.bytes(len);
        if !b.is_empty() && rng.next() % 4 != 0 {
            b[0] = rng.pick(&firsts);
        }
        if b.len() > 5 && rng.next() % 2 == 0 {
            // steer bind type / host_len
            b[5] = rng.pick(&[0u8, 1, 2, 3, 4, 5, 10, 30, 31, 32, 33, 34, 35, 255]);
        }
        check_bytes(&b, &mut fails);
    }
    // datagrams around the host_len boundary, large
    for hl in [0usize, 1, 254, 255] {
        for extra in [-3i64, -2, -1, 0, 1, 2] {
            let total = (3 + hl as i64 + extra).max(0) as usize;
            let mut b = vec![0x76, 0, 0, 0, 9];
            let mut tail = rng.bytes(total);
            if !tail.is_empty() {
                tail[0] = hl as u8;
            }
            b.extend(tail);
            check_bytes(&b, &mut fails);
        }
    }
    report(fails);
}
