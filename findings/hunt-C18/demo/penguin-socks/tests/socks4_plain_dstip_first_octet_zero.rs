//! C18 demo: a plain SOCKS4 request whose DSTIP has a zero first octet but is NOT the SOCKS4a
//! marker `0.0.0.x, x != 0` (e.g. `0.0.0.0` or `0.1.2.3`) must be parsed as an IPv4 request that
//! ends at the NUL of USERID.  The reader must return that address and must not touch the bytes
//! that follow the request.
//
// SPDX-License-Identifier: Apache-2.0 OR GPL-3.0-or-later

use penguin_socks::v4;
use std::future::Future;
use std::io::Cursor;
use std::net::Ipv4Addr;
use std::pin::pin;
use std::task::{Context, Poll, Waker};
use tokio::io::{AsyncWriteExt, BufReader};

/// Independent reference for the SOCKS4 / SOCKS4a request grammar (the VN octet already consumed):
/// `CD(1) DSTPORT(2) DSTIP(4) USERID NUL [DOMAIN NUL iff DSTIP == 0.0.0.x && x != 0]`.
/// Returns (command, address, port, number of bytes of the request).
fn reference(b: &[u8]) -> Option<(u8, Vec<u8>, u16, usize)> {
    if b.len() < 7 {
        return None;
    }
    let ip = [b[3], b[4], b[5], b[6]];
    let mut end = 7 + b[7..].iter().position(|&c| c == 0)? + 1;
    let addr = if ip[..3] == [0, 0, 0] && ip[3] != 0 {
        let n = b[end..].iter().position(|&c| c == 0)?;
        let domain = b[end..end + n].to_vec();
        end += n + 1;
        domain
    } else {
        Ipv4Addr::from(ip).to_string().into_bytes()
    };
    Some((b[0], addr, u16::from_be_bytes([b[1], b[2]]), end))
}

fn request(ip: [u8; 4], user: &[u8], domain: Option<&[u8]>, trailing: &[u8]) -> Vec<u8> {
    let mut v = vec![0x01, 0x00, 0x50];
    v.extend(ip);
    v.extend(user);
    v.push(0);
    if let Some(d) = domain {
        v.extend(d);
        v.push(0);
    }
    v.extend(trailing);
    v
}

async fn check(input: Vec<u8>) {
    let (cmd, addr, port, len) = reference(&input).expect("the test input is a complete request");
    let mut reader = Cursor::new(input.clone());
    let got = v4::read_request(&mut reader).await;
    let consumed = usize::try_from(reader.position()).unwrap();
    match got {
        Ok((c, a, p)) => {
            assert_eq!(
                (c, String::from_utf8_lossy(&a).into_owned(), p, consumed),
                (cmd, String::from_utf8_lossy(&addr).into_owned(), port, len),
                "request {input:02x?}: (command, address, port, bytes consumed)"
            );
        }
        Err(e) => panic!(
            "request {input:02x?} is a well-formed SOCKS4 request for {}:{port} ({len} bytes) \
             but the reader failed with `{e}` after consuming {consumed} bytes",
            String::from_utf8_lossy(&addr)
        ),
    }
}

/// Control: the real SOCKS4a marker and ordinary addresses are handled (passes on the pinned tree).
#[tokio::test]
async fn control_socks4a_marker_and_ordinary_ip() {
    check(request([0, 0, 0, 1], b"u", Some(b"example.com"), b"")).await;
    check(request([0, 0, 0, 255], b"", Some(b""), b"payload")).await;
    check(request([127, 0, 0, 1], b"u", None, b"payload\0more")).await;
}

/// `04 01 0050 00.01.02.03 "u" 00` is a complete SOCKS4 (not 4a) request for 0.1.2.3:80.
#[tokio::test]
async fn plain_socks4_dstip_0_1_2_3() {
    check(request([0, 1, 2, 3], b"u", None, b"")).await;
}

/// DSTIP 0.0.0.0 is excluded from the SOCKS4a marker ("0.0.0.x with nonzero x").
#[tokio::test]
async fn plain_socks4_dstip_0_0_0_0() {
    check(request([0, 0, 0, 0], b"u", None, b"")).await;
}

/// The bytes after the request (the first payload bytes of a pipelining client) must stay unread;
/// here they happen to contain a NUL, so the pinned tree returns them as the "domain".
#[tokio::test]
async fn plain_socks4_does_not_swallow_following_payload() {
    check(request([0, 0, 1, 0], b"u", None, b"tail\0more")).await;
}

/// Sweep: every DSTIP class with first octet 0, several user ids and trailers.
#[tokio::test]
async fn sweep_first_octet_zero() {
    for ip in [[0, 0, 0, 0], [0, 0, 1, 0], [0, 0, 1, 1], [0, 1, 0, 0], [0, 255, 255, 255]] {
        for user in [&b""[..], b"a", b"user"] {
            for trailing in [&b""[..], b"\0", b"GET / HTTP/1.0\r\n\r\n", b"x\0y"] {
                check(request(ip, user, None, trailing)).await;
            }
        }
    }
}

/// On a live connection (no EOF after the request) the reader must complete once the whole request
/// has arrived; on the pinned tree it stays pending forever waiting for a domain name, so the
/// SOCKS4 client never gets any reply.
#[tokio::test]
async fn live_connection_request_completes() {
    let (mut client, server) = tokio::io::duplex(256);
    client
        .write_all(&request([0, 1, 2, 3], b"u", None, b""))
        .await
        .unwrap();
    let mut server = BufReader::new(server);
    let mut fut = pin!(v4::read_request(&mut server));
    let mut cx = Context::from_waker(Waker::noop());
    // All 9 bytes of the request are already in the pipe: a handful of polls is more than enough.
    for _ in 0..16 {
        if let Poll::Ready(r) = fut.as_mut().poll(&mut cx) {
            let (c, a, p) = r.unwrap();
            assert_eq!((c, a.as_slice(), p), (1, &b"0.1.2.3"[..], 80));
            drop(client);
            return;
        }
    }
    panic!("read_request is still pending although the complete SOCKS4 request has been delivered");
}
