//! C01 (round 2): one local connection too many ends every connection that goes through the tunnel.
//!
//! `accept()` on a client-side entry point fails with `EMFILE` when the process is at its limit of
//! open files (`ulimit -n`, 1024 on most systems; every tunnelled connection holds one descriptor in
//! the client). The listeners treat every `accept()` error as fatal, `client_main_inner` returns and
//! all established connections are cut. A direct connection to the target is not affected by how many
//! other connections exist.
//!
//! The test brings the process to its limit by opening `/dev/null`, so it needs no special `ulimit`.
//! Run inside a private network namespace (fixed loopback ports):
//!   unshare -n bash -c 'ip link set lo up; \
//!     cargo test --offline -p rusty-penguin --test c01_hunt2_fd_limit -- --nocapture'

use penguin_mux::timing::OptionalDuration;
use rusty_penguin_lib::arg::{ClientArgs, Remote, ServerArgs, ServerUrl};
use rusty_penguin_lib::client::{HandlerResources, client_main_inner};
use rusty_penguin_lib::server::server_main;
use std::str::FromStr;
use std::time::Duration;
use tokio::io::{AsyncReadExt, AsyncWriteExt};
use tokio::net::{TcpListener, TcpStream};

/// Connect to a loopback port as soon as somebody listens on it
async fn connect_retrying(port: u16) -> TcpStream {
    for _ in 0..600 {
        if let Ok(s) = TcpStream::connect(("127.0.0.1", port)).await {
            return s;
        }
        tokio::time::sleep(Duration::from_millis(50)).await;
    }
    panic!("nobody listens on port {port}");
}

async fn ping_pong(c: &mut TcpStream, what: &str) -> Result<(), String> {
    c.write_all(b"ping")
        .await
        .map_err(|e| format!("{what}: write: {e}"))?;
    let mut b = [0u8; 4];
    match tokio::time::timeout(Duration::from_secs(20), c.read_exact(&mut b)).await {
        Ok(Ok(_)) if &b == b"ping" => Ok(()),
        other => Err(format!("{what}: no echo through the tunnel: {other:?}")),
    }
}

#[tokio::test(flavor = "multi_thread", worker_threads = 4)]
async fn one_connection_too_many_does_not_cut_the_others() {
    let base = 46500u16;
    rusty_penguin_lib::tls::init_crypto_provider();
    // The target echoes
    let target = TcpListener::bind(("127.0.0.1", base + 1)).await.unwrap();
    tokio::spawn(async move {
        loop {
            // (the target is in this process too: do not die on EMFILE here)
            let Ok((mut s, _)) = target.accept().await else {
                tokio::time::sleep(Duration::from_millis(20)).await;
                continue;
            };
            tokio::spawn(async move {
                let (mut r, mut w) = s.split();
                let _ = tokio::io::copy(&mut r, &mut w).await;
            });
        }
    });
    let sargs: &'static ServerArgs = Box::leak(Box::new(ServerArgs {
        host: vec!["127.0.0.1".to_string()],
        port: vec![base],
        not_found_resp: "404".to_string(),
        timeout: OptionalDuration::from_secs(60),
        ..Default::default()
    }));
    let cargs: &'static ClientArgs = Box::leak(Box::new(ClientArgs {
        server: ServerUrl::from_str(&format!("ws://127.0.0.1:{base}/ws")).unwrap(),
        remote: vec![
            Remote::from_str(&format!("127.0.0.1:{}:127.0.0.1:{}", base + 2, base + 1)).unwrap(),
        ],
        keepalive: OptionalDuration::from_secs(25),
        keepalive_timeout: OptionalDuration::from_secs(60),
        channel_timeout: OptionalDuration::from_secs(10),
        handshake_timeout: OptionalDuration::from_secs(10),
        ..Default::default()
    }));
    let (hr, stream_command_rx, datagram_rx) = HandlerResources::create();
    let hr: &'static HandlerResources = Box::leak(Box::new(hr));
    tokio::spawn(server_main(sargs));
    // (a loaded machine can take a while to start the server)
    drop(connect_retrying(base).await);
    let client = tokio::spawn(client_main_inner(cargs, hr, stream_command_rx, datagram_rx));
    tokio::time::sleep(Duration::from_secs(1)).await;

    // Three local clients, connected through the tunnel and working
    let mut established = Vec::new();
    for i in 0..3 {
        let mut c = connect_retrying(base + 2).await;
        ping_pong(&mut c, &format!("connection {i} (before)")).await.unwrap();
        established.push(c);
    }

    // Bring the process to its limit of open files, then give back exactly one descriptor: the
    // next local client can create its socket, the penguin client cannot accept it.
    let mut ballast = Vec::new();
    while let Ok(f) = std::fs::File::open("/dev/null") {
        ballast.push(f);
    }
    ballast.pop();
    let one_too_many = TcpStream::connect(("127.0.0.1", base + 2)).await.unwrap();
    tokio::time::sleep(Duration::from_secs(1)).await;
    // Other connections have ended meanwhile, say: descriptors are available again
    drop(ballast);
    tokio::time::sleep(Duration::from_millis(500)).await;

    let mut problems = Vec::new();
    if client.is_finished() {
        problems.push(format!("the penguin client has exited: {:?}", client.await));
    }
    for (i, c) in established.iter_mut().enumerate() {
        if let Err(e) = ping_pong(c, &format!("connection {i} (after)")).await {
            problems.push(e);
        }
    }
    // (and the connection that could not be accepted at first is served once it can be)
    let mut late = one_too_many;
    if let Err(e) = ping_pong(&mut late, "the connection that came at the limit").await {
        problems.push(e);
    }
    assert!(problems.is_empty(), "{problems:#?}");
}
