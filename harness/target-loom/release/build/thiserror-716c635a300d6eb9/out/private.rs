#[doc(hidden)]
pub mod __private20 {
    #[doc(hidden)]
    pub use crate::private::*;
}
