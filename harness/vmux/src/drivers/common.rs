//! Shared runner of the psim drivers: a list of cases (one scenario
//! configuration each) is explored with iterative deviation bounding; results
//! are folded into the report.

use crate::Args;
use crate::explore::{self, Budget, RunOutput, with_prefix};
use crate::report::Report;
use serde_json::{Value, json};
use std::sync::Mutex;
use std::time::{Duration, Instant};

pub struct Case {
    pub label: String,
    pub exec: Box<dyn Fn(bool) -> RunOutput + Sync + Send>,
}

pub struct Plan {
    /// scheduling-deviation bounds to try, ascending (u32::MAX = unbounded)
    pub ks: Vec<u32>,
    pub env: u32,
    pub fault: u32,
    pub total_wall: Duration,
    pub max_execs_per_case: u64,
    /// witness bits that must have been observed somewhere in the run (vacuity guard)
    pub required_witnesses: u64,
    pub witness_names: &'static [(&'static str, u64)],
}

fn bound_str(k: Option<u32>) -> String {
    match k {
        None => "none".into(),
        Some(Budget::UNBOUNDED) => "unbounded".into(),
        Some(k) => k.to_string(),
    }
}

/// Re-run one recorded case twice and compare (replay mode).
fn replay(rep: &mut Report, cases: &[Case], rj: &Value) {
    let label = rj.get("case").and_then(Value::as_str).unwrap_or("");
    let choices: Vec<u16> = rj
        .get("choices")
        .and_then(Value::as_array)
        .map(|a| a.iter().filter_map(|x| x.as_u64().map(|x| x as u16)).collect())
        .unwrap_or_default();
    let Some(case) = cases.iter().find(|c| c.label == label) else {
        rep.machinery_error = Some(format!("replay: case '{label}' is not in this tier's case list (try --tier thorough)"));
        return;
    };
    let (o1, t1) = with_prefix(&choices, || (case.exec)(true));
    let (o2, t2) = with_prefix(&choices, || (case.exec)(true));
    let same = o1.outcome == o2.outcome && o1.fingerprints == o2.fingerprints && t1.len() == t2.len() && o1.violations == o2.violations;
    if !same {
        rep.machinery_error = Some("replay: two runs of the same schedule differ (nondeterminism not owned)".into());
        return;
    }
    println!("REPLAY case: {label}");
    println!("REPLAY schedule: {}", o1.rendering.clone().unwrap_or_default());
    for (k, d) in &o1.violations {
        println!("REPLAY violation {k}: {d}");
        rep.violation(k.clone(), format!("[{label}] {d}"), rj.clone());
    }
    rep.evaluations = 2;
    rep.distinct_nontrivial = 2;
    rep.states = o1.fingerprints.len() as u64;
    rep.transitions = o1.steps;
    rep.sample(json!({"case": label, "schedule": o1.rendering}));
}

pub fn run_cases(args: &Args, rep: &mut Report, cases: Vec<Case>, plan: &Plan) {
    if let Some(rj) = args.replay_json() {
        replay(rep, &cases, &rj);
        return;
    }
    let start = Instant::now();
    let ncases = cases.len().max(1);
    let threads = args.threads.max(1);
    let across = ncases >= threads; // parallelise over cases when there are many
    let results: Mutex<Vec<(usize, explore::Deepening)>> = Mutex::new(Vec::new());
    let next = std::sync::atomic::AtomicUsize::new(0);
    let run_case = |i: usize, inner_threads: usize| {
        // fair share of what is left
        let elapsed = start.elapsed();
        let left = plan.total_wall.saturating_sub(elapsed);
        let done = i.min(ncases - 1);
        let share = if across {
            // cases run `threads` at a time
            left.mul_f64((threads as f64 / (ncases - done) as f64).min(1.0))
        } else {
            left.mul_f64(1.0 / (ncases - done) as f64)
        }
        .max(Duration::from_millis(300));
        let c = &cases[i];
        let d = explore::iterative(&c.label, &plan.ks, plan.env, plan.fault, inner_threads, plan.max_execs_per_case, share, || (c.exec)(false));
        results.lock().unwrap().push((i, d));
    };
    if across {
        std::thread::scope(|s| {
            for _ in 0..threads {
                s.spawn(|| {
                    loop {
                        let i = next.fetch_add(1, std::sync::atomic::Ordering::Relaxed);
                        if i >= cases.len() {
                            break;
                        }
                        run_case(i, 1);
                    }
                });
            }
        });
    } else {
        for i in 0..cases.len() {
            run_case(i, threads);
        }
    }
    let mut results = results.into_inner().unwrap();
    results.sort_by_key(|(i, _)| *i);
    let mut witnesses = 0u64;
    let mut min_bound: Option<u32> = Some(Budget::UNBOUNDED);
    let mut outcomes_total = 0u64;
    let mut horizons = 0u64;
    let mut table: Vec<Value> = Vec::new();
    let mut all_unbounded = true;
    for (i, d) in &results {
        let c = &cases[*i];
        let st = &d.stats;
        rep.evaluations += st.executions;
        rep.transitions += st.transitions;
        rep.states += st.states.len() as u64;
        outcomes_total += st.outcomes.len() as u64;
        witnesses |= st.witnesses;
        horizons += st.horizons;
        match (d.bound_completed, min_bound) {
            (None, _) => min_bound = None,
            (Some(k), Some(m)) if k < m => min_bound = Some(k),
            _ => {}
        }
        if d.bound_completed != Some(Budget::UNBOUNDED) {
            all_unbounded = false;
        }
        if let Some(n) = &d.note {
            if rep.caps_hit.len() < 12 {
                let short: String = c.label.chars().take(100).collect();
                rep.caps_hit.push(format!("{short}...: {n}"));
            }
        }
        for v in &st.violations {
            rep.violation_n(
                v.key.clone(),
                format!("[{}] {} (schedule with {} deviation(s), {} choice points)", c.label, v.desc, v.deviations, v.choices.len()),
                json!({"case": c.label, "choices": v.choices}),
                v.count,
            );
        }
        if table.len() < 400 {
            table.push(json!({
                "case": c.label,
                "bound_completed": bound_str(d.bound_completed),
                "executions": st.executions,
                "states": st.states.len(),
                "outcomes": st.outcomes.len(),
                "max_steps": st.max_steps,
                "levels": d.levels.iter().map(|(k, e, t)| json!([bound_str(Some(*k)), e, (t * 1000.0).round() / 1000.0])).collect::<Vec<_>>(),
            }));
        }
        if rep.samples.len() < 4 {
            if let Some(s) = st.samples.last() {
                // render this schedule once more, for the reader
                let (o, _) = with_prefix(s, || (c.exec)(true));
                rep.sample(json!({"case": c.label, "choices": s, "schedule": o.rendering}));
            }
        }
    }
    rep.distinct_nontrivial = outcomes_total.max(rep.states.min(rep.evaluations));
    rep.exhaustive = all_unbounded;
    rep.bounds.insert("cases".into(), json!(cases.len()));
    rep.bounds.insert("deviation_bounds_tried".into(), json!(plan.ks.iter().map(|k| bound_str(Some(*k))).collect::<Vec<_>>()));
    rep.bounds.insert("min_deviation_bound_completed_over_cases".into(), json!(bound_str(min_bound)));
    rep.bounds.insert("env_deviation_budget".into(), json!(plan.env));
    rep.bounds.insert("fault_budget".into(), json!(plan.fault));
    rep.extra.insert("distinct_outcomes".into(), json!(outcomes_total));
    rep.extra.insert("horizon_hits".into(), json!(horizons));
    rep.extra.insert("per_case".into(), json!(table));
    let mut wit = serde_json::Map::new();
    for (n, b) in plan.witness_names {
        wit.insert((*n).to_string(), json!(witnesses & b != 0));
    }
    rep.extra.insert("witnesses".into(), Value::Object(wit));
    if min_bound.is_none() {
        rep.machinery_error = Some("a case did not complete even the smallest deviation bound under the wall cap".into());
    }
    if witnesses & plan.required_witnesses != plan.required_witnesses && rep.violations.is_empty() {
        rep.machinery_error = Some(format!(
            "vacuous exploration: required witness bits {:#x} not all observed (got {:#x})",
            plan.required_witnesses, witnesses
        ));
    }
    if rep.evaluations > 0 && outcomes_total <= 1 && rep.violations.is_empty() {
        rep.machinery_error = Some("vacuous exploration: a single distinct outcome over all executions".into());
    }
}
