//! C08, part T — the connection ends under a REAL tungstenite WebSocket.
//! Same statement as `c08.rs`, but the two real endpoints talk through real `tokio_tungstenite::WebSocketStream`s
//! (client role / server role) over the in-memory byte pipes of `bytepipe.rs`, so the crate's tungstenite adapter
//! (`penguin-mux/src/ws.rs`) and tungstenite's own handling of Close, end of file and I/O errors are inside the
//! explored system. Faults are faults of the BYTE transport, per direction: end of file, reset, silent stall, and the
//! combinations in which one endpoint's inbound direction ends while its outbound direction is stuck.

use super::c05::push_viol;
use super::common::{Case, Plan, run_cases};
use crate::Args;
use crate::apps::{BindAnswer, EndPlan, Ev, Obs, Op, SideCfg, World, dgram, opts};
use crate::bytepipe::{BytePipe, UNBOUNDED_BYTES, scan_frames};
use crate::explore::{Cost, RunOutput, choose};
use crate::report::Report;
use crate::sim::{Fnv, Step};
use std::collections::BTreeMap;
use std::time::Duration;

/// every case label of this part starts with it (a replay file is routed to the part that owns the case)
pub const LABEL_PREFIX: &str = "tungstenite: ";

#[derive(Clone, Copy, Debug, PartialEq, Eq, Hash)]
enum Fault {
    EofA2B,
    EofB2A,
    ResetA2B,
    ResetB2A,
    StallA2B,
    StallB2A,
    EofBoth,
    ResetBoth,
    /// endpoint X's inbound direction ends (FIN, no Close frame) while X's outbound direction is silently stalled
    EofInStallOutA,
    EofInStallOutB,
    ResetInStallOutA,
    ResetInStallOutB,
    DropMuxA,
    DropMuxB,
    /// (two-fault cases only) a bare WebSocket Close frame appears on the named PEER's direction, at byte level, as if the
    /// peer's WebSocket stack (or a proxy in front of it) had closed the WebSocket; the peer's endpoint itself lives on
    BareCloseA,
    BareCloseB,
}
use Fault::*;
const FAULTS: [Fault; 14] = [EofA2B, EofB2A, ResetA2B, ResetB2A, StallA2B, StallB2A, EofBoth, ResetBoth, EofInStallOutA, EofInStallOutB, ResetInStallOutA, ResetInStallOutB, DropMuxA, DropMuxB];

const W_FAULT_TAKEN: u64 = 1;
const W_FAULT_WITH_BLOCKED_WRITER: u64 = 2;
const W_FAULT_WITH_PENDING_OPEN: u64 = 4;
const W_FAULT_WITH_PENDING_BIND: u64 = 8;
const W_FAULT_WITH_DGRAM_IN_FLIGHT: u64 = 16;
const W_BROKEN_PIPE: u64 = 32;
const W_CLOSED_SEEN: u64 = 64;
/// an endpoint was told (read: end of file / reset) that the connection is over while its send side was stuck on a
/// stalled, full pipe; `<< 1` for endpoint B (server role)
const W_EOF_WHILE_OUT_STUCK: u64 = 128;
const W_RESET_WHILE_OUT_STUCK: u64 = 8192;
/// tungstenite reported the end of the byte stream as an error / the close handshake completed and both tasks returned Ok
const W_TASK_ERR: u64 = 512;
const W_CLOSE_HANDSHAKE: u64 = 1024;
/// an execution in which an endpoint was never told anything (merely stalled): not judged
const W_UNJUDGED_ENDPOINT: u64 = 2048;
const W_PIPE_BACKPRESSURE: u64 = 4096;
/// the peer's Close was read by an endpoint whose send side was ALREADY stuck on a stalled, full pipe; `<< 1` for endpoint B
const W_CLOSE_WHILE_OUT_STUCK: u64 = 32768;

#[derive(Clone, Copy, Debug)]
struct Cfg {
    /// bytes per direction (0 = unbounded)
    cap: usize,
    /// the fault that may be injected (once) at any point. One case per fault: the cases are independent, so the runner
    /// gives each its own thread instead of sharing one work queue
    fault: Fault,
    /// two causes in one execution: `fault` is an orderly end of the connection by the PEER (it drops its Multiplexor, or a
    /// bare Close frame) and, at any point before or after it, the outbound direction of the endpoint that RECEIVES the
    /// Close stalls
    double: bool,
}

/// The peer that ends the connection in a two-fault case (the other endpoint receives the Close).
fn peer_of(f: Fault) -> usize {
    usize::from(!matches!(f, DropMuxA | BareCloseA))
}

fn build(cfg: &Cfg) -> World {
    // (a single attempt per stream request, so that a request pending when the connection ends is on its LAST attempt: it
    // must still report Closed, not "flow id rejected")
    let a = SideCfg { opts: opts(2, 1).bind_buffer_size(1).datagram_buffer_size(2).max_flow_id_retries(1), rng: vec![] };
    let b = SideCfg { opts: opts(2, 1).bind_buffer_size(1).datagram_buffer_size(2), rng: vec![] };
    let mut w = World::two_tungstenite(if cfg.cap == 0 { UNBOUNDED_BYTES } else { cfg.cap }, &a, &b);
    // B: accepts forever; stream 1 is read to its end before B answers, so A's reader stays blocked
    let mut plans_b = BTreeMap::new();
    plans_b.insert(1u8, EndPlan::SeqKeep(vec![Op::ReadToEof(16), Op::W(2), Op::Shutdown, Op::W(1)]));
    w.spawn_acceptor(1, usize::MAX, plans_b);
    let mut plans_a = BTreeMap::new();
    plans_a.insert(2u8, EndPlan::SeqKeep(vec![Op::ReadOnce(8), Op::W(1), Op::Shutdown, Op::ReadToEof(64), Op::W(1)]));
    w.spawn_acceptor(0, usize::MAX, plans_a);
    // A: stream 1, four writes against a window of two frames (the writer blocks on credit); 32 bytes each, so that two of
    // them do not fit into a 64-byte pipe (the send side of A backs up as soon as nothing is delivered any more)
    w.spawn_opener(0, 1, vec![1], 1, EndPlan::Split(vec![Op::Burst(4, 32), Op::Shutdown, Op::W(1)], vec![Op::ReadToEof(4)]));
    // B: opens stream 2 (its Connect is unanswered for a while), one write that together with B's acknowledgements
    // overruns a 64-byte pipe, half-close
    w.spawn_opener(1, 2, vec![2], 2, EndPlan::SeqKeep(vec![Op::W(40), Op::Shutdown]));
    // datagrams: A sends one, both sides wait for datagrams forever
    w.spawn_dgram_sender(0, "dgsend.a", vec![dgram(9, b"h", 53, b"d0")], 0, false);
    w.spawn_dgram_receiver(1, "dgrecv.b", usize::MAX, false);
    w.spawn_dgram_receiver(0, "dgrecv.a", usize::MAX, false);
    // a bind request that is never answered
    w.spawn_bind_responder(1, 1, vec![0], vec![BindAnswer::Never]);
    w.spawn_bind_requester(0, 0, 1, b"bind".to_vec(), 80);
    w
}

fn apply_fault(w: &mut World, p: &BytePipe, f: Fault) {
    match f {
        EofA2B => p.eof(0),
        EofB2A => p.eof(1),
        ResetA2B => p.reset(0),
        ResetB2A => p.reset(1),
        StallA2B => p.stall(0),
        StallB2A => p.stall(1),
        EofBoth => {
            p.eof(0);
            p.eof(1);
        }
        ResetBoth => {
            p.reset(0);
            p.reset(1);
        }
        EofInStallOutA => {
            p.stall(0);
            p.eof(1);
        }
        EofInStallOutB => {
            p.stall(1);
            p.eof(0);
        }
        ResetInStallOutA => {
            p.stall(0);
            p.reset(1);
        }
        ResetInStallOutB => {
            p.stall(1);
            p.reset(0);
        }
        DropMuxA => w.drop_mux(0),
        DropMuxB => w.drop_mux(1),
        // (a client's frames are masked: zero key, empty payload)
        BareCloseA => drop(p.inject(0, &[0x88, 0x80, 0, 0, 0, 0])),
        BareCloseB => drop(p.inject(1, &[0x88, 0x00])),
    }
}

fn side_of(name: &str) -> usize {
    usize::from(!(name.ends_with(".a") || name.contains(".a.")))
}

/// What kind of application future `name` is (one violation key per kind).
fn kind_of(name: &str, obs: &Obs) -> &'static str {
    if name.starts_with("open") {
        "open"
    } else if name.starts_with("accept") {
        "accept"
    } else if name.starts_with("dg") {
        "dgram"
    } else if name.starts_with("bind") {
        "bind"
    } else if name.ends_with(".r") {
        "read"
    } else if name.ends_with(".w") {
        "write"
    } else {
        // a sequential stream actor "s<tag>.<side>": what it is doing right now
        let tag = name[1..].split('.').next().and_then(|t| t.parse::<u8>().ok()).unwrap_or(0xff);
        match obs.current_op.get(&(tag, side_of(name))) {
            Some(Op::ReadToEof(_) | Op::ReadN(..) | Op::ReadOnce(_)) => "read",
            Some(Op::W(_) | Op::WV(_) | Op::Burst(..)) => "write",
            Some(Op::Shutdown | Op::Flush) => "shutdown",
            _ => "stream",
        }
    }
}

fn exec(cfg: &Cfg, render: bool) -> RunOutput {
    let mut w = build(cfg);
    let pipe = w.pipe.clone().expect("byte pipes");
    let mut viol: Vec<(String, String)> = Vec::new();
    let mut fps = Vec::new();
    let mut wit = 0u64;
    let mut fault: Option<Fault> = None;
    let mut horizon = false;
    // two-fault cases: the endpoint that receives the Close, whose outbound direction is the one that stalls
    let xside = 1 - peer_of(cfg.fault);
    let mut second = false;
    let mut stall_first = false;
    // close_end[d]: where the first Close frame on direction d ends; close_rx[x]: endpoint x has taken it in
    let mut close_end: [Option<u64>; 2] = [None; 2];
    let mut close_rx = [false; 2];
    let mut prev_stuck = [false; 2];
    loop {
        if w.sim.steps >= 6000 {
            horizon = true;
            break;
        }
        let en = w.sim.enabled();
        // alternatives: enabled steps (or "stay quiescent"), then the faults while none was injected
        let mut kinds: Vec<Cost> = vec![Cost::Sched; en.len().max(1)];
        // (a bare Close frame can only appear between two frames of the peer, and while the peer's sending side is open)
        let offer1 = fault.is_none()
            && (!matches!(cfg.fault, BareCloseA | BareCloseB) || {
                let l = pipe.lock();
                let d = &l.dirs[1 - xside];
                !d.wr_closed && !d.reset && scan_frames(&d.wlog).1
            });
        let offer2 = cfg.double && !second;
        if !offer1 && !offer2 && en.is_empty() {
            break;
        }
        kinds.extend(std::iter::repeat_n(Cost::Fault, usize::from(offer1) + usize::from(offer2)));
        let c = choose(&kinds);
        let nsched = en.len().max(1);
        if c >= nsched && !(offer1 && c == nsched) {
            // the second cause: the receiving endpoint's outbound direction goes silent
            pipe.stall(xside);
            second = true;
            stall_first = fault.is_none();
            w.sim.log.push(Step::Extra(1));
            continue;
        }
        if c >= nsched {
            let f = cfg.fault;
            // what was pending at the moment of the fault (vacuity witnesses)
            {
                let obs = w.obs.borrow();
                let pend = obs.pending();
                if pend.iter().any(|p| p.starts_with("open")) {
                    wit |= W_FAULT_WITH_PENDING_OPEN;
                }
                if pend.iter().any(|p| p.starts_with("bindreq")) && obs.events.iter().any(|e| matches!(e, Ev::BindSeen { .. })) {
                    wit |= W_FAULT_WITH_PENDING_BIND;
                }
                if let Some(m) = w.mux[0].as_ref() {
                    if m.verif_flow_digest().iter().any(|fl| fl.kind == 1 && fl.credit == 0 && !fl.finish_sent) && pend.iter().any(|p| p == "s1.a.w") {
                        wit |= W_FAULT_WITH_BLOCKED_WRITER;
                    }
                }
                if obs.events.iter().any(|e| matches!(e, Ev::DgramSent { side: 0, res: Ok(()), .. })) && !obs.events.iter().any(|e| matches!(e, Ev::DgramGot { side: 1, .. })) {
                    wit |= W_FAULT_WITH_DGRAM_IN_FLIGHT;
                }
            }
            apply_fault(&mut w, &pipe, f);
            fault = Some(f);
            wit |= W_FAULT_TAKEN;
            w.sim.log.push(Step::Extra(0));
            continue;
        }
        if en.is_empty() {
            // chose to stay quiescent without a fault: end of a fault-free execution
            break;
        }
        let step = en[c].clone();
        w.sim.apply(&step);
        if cfg.double {
            let l = pipe.lock();
            for x in 0..2 {
                let d = 1 - x;
                if close_end[d].is_none() {
                    close_end[d] = scan_frames(&l.dirs[d].wlog).0.map(|e| e as u64);
                }
                if !close_rx[x] && close_end[d].is_some_and(|e| l.dirs[d].consumed >= e) {
                    close_rx[x] = true;
                    if prev_stuck[x] {
                        wit |= W_CLOSE_WHILE_OUT_STUCK << x;
                    }
                }
            }
            prev_stuck = [l.dirs[0].stuck, l.dirs[1].stuck];
        }
        // fingerprint: application ledger, flow tables, what the pipes hold (lengths only: the client role masks its
        // frames with random keys, byte VALUES on the pipe are not owned and not observed), task states
        let mut h = Fnv::default();
        let obs = w.obs.borrow();
        h.u64(obs.events.len() as u64);
        for (n, d) in &obs.futures {
            h.str(n);
            h.byte(u8::from(*d));
        }
        for side in 0..2 {
            if let Some(m) = w.mux[side].as_ref() {
                for f in m.verif_flow_digest() {
                    h.u64(u64::from(f.id));
                    h.u64(u64::from(f.credit));
                    h.byte(f.kind | u8::from(f.finish_sent) << 2 | u8::from(f.read_open) << 3);
                    h.u64(f.queued as u64);
                }
            }
            h.byte(0xab);
        }
        {
            let l = pipe.lock();
            for d in &l.dirs {
                h.u64(d.inflight.len() as u64);
                h.u64(d.unread.len() as u64);
                h.u64(d.written);
                h.byte(u8::from(d.fin_inflight) | u8::from(d.fin_delivered) << 1 | u8::from(d.wr_closed) << 2 | u8::from(d.reset) << 3 | u8::from(d.stalled) << 4 | u8::from(d.reader_gone) << 5 | u8::from(d.stuck) << 6);
                if d.writer_waker.is_some() && !d.stalled {
                    wit |= W_PIPE_BACKPRESSURE;
                }
            }
            h.byte(u8::from(l.told_rd[0]) | u8::from(l.told_rd[1]) << 1 | u8::from(l.told_wr[0]) << 2 | u8::from(l.told_wr[1]) << 3);
        }
        h.byte(fault.map_or(0xff, |f| f as u8));
        if cfg.double {
            h.byte(u8::from(second) | u8::from(close_rx[0]) << 1 | u8::from(close_rx[1]) << 2);
        }
        for (i, t) in w.sim.tasks.iter().enumerate() {
            h.byte(u8::from(t.done) | u8::from(w.sim.is_runnable(i)) << 1);
        }
        fps.push(h.0);
        // reads never fail and always return a prefix of what was written
        for ((tag, dir), d) in &obs.dirs {
            if d.read.len() > d.written.len() || d.read[..] != d.written[..d.read.len()] {
                push_viol(&mut viol, "tung.integrity.prefix", format!("stream {tag} dir {dir}: read {:02x?} is not a prefix of written {:02x?}", d.read, d.written));
            }
            if let Some(e) = &d.read_err {
                push_viol(&mut viol, "tung.read.error", format!("stream {tag} dir {dir}: a read failed with {e}; reads must return the delivered data and then end-of-stream"));
            }
        }
    }
    // ------------------------------------------------------------ verdict at quiescence
    let obs = w.obs.borrow();
    if horizon {
        push_viol(&mut viol, "tung.livelock", "step horizon reached".into());
    }
    for t in &w.sim.tasks {
        if let Some(p) = &t.panicked {
            push_viol(&mut viol, "tung.panic", format!("{} panicked: {p}", t.name));
        }
    }
    let mut judged = [false; 2];
    if fault.is_some() || second {
        let stall = if xside == 0 { StallA2B } else { StallB2A };
        let f = match (fault, second) {
            (Some(f), false) => format!("{f:?}"),
            (Some(f), true) if stall_first => format!("{stall:?} and then {f:?}"),
            (Some(f), true) => format!("{f:?} and then {stall:?}"),
            (None, _) => format!("{stall:?}"),
        };
        let local_drop = matches!(fault, Some(DropMuxA | DropMuxB));
        let l = pipe.lock();
        for x in 0..2 {
            // a local drop over a healthy transport is announced to the peer (Close); a transport fault only concerns
            // the endpoints that were TOLD about it: a read that returned end of file or an error, a failed write / flush.
            // An endpoint that merely hears nothing any more from a silent peer is not judged
            // Two-fault cases: the transport is NOT healthy, so the endpoint that dropped its Multiplexor may wait for an
            // answer that is lost without anybody being told: there only an endpoint that has read the peer's Close frame
            // (or was told by the transport) is judged
            judged[x] = if cfg.double { close_rx[x] || l.told_rd[x] || l.told_wr[x] } else { local_drop || l.told_rd[x] || l.told_wr[x] };
            if !judged[x] {
                wit |= W_UNJUDGED_ENDPOINT;
            }
            if l.told_rd[x] && l.dirs[x].stuck {
                wit |= (if l.dirs[1 - x].reset { W_RESET_WHILE_OUT_STUCK } else { W_EOF_WHILE_OUT_STUCK }) << x;
            }
        }
        drop(l);
        let state = |x: usize| {
            let l = pipe.lock();
            format!("endpoint {} was told by a {} that the connection is over; its outbound pipe: stalled={} stuck-full={}, {} bytes accepted", ["A (client role)", "B (server role)"][x], if l.told_rd[x] { if l.dirs[1 - x].reset { "read error (ConnectionReset)" } else { "read that returned end of file" } } else if l.told_wr[x] { "failed write" } else { "Close frame" }, l.dirs[x].stalled, l.dirs[x].stuck, l.dirs[x].written)
        };
        for x in 0..2 {
            if !judged[x] || horizon {
                continue;
            }
            // (1) nothing blocks forever
            if !w.task_done(x) {
                push_viol(&mut viol, "tung.hang.task", format!("after {f} the system is quiescent but the connection task of side {x} never finished ({})", state(x)));
            }
            let pend: Vec<String> = obs.pending().into_iter().filter(|n| side_of(n) == x).collect();
            for n in &pend {
                push_viol(&mut viol, &format!("tung.hang.{}", kind_of(n, &obs)), format!("after {f} the system is quiescent but these operations of side {x} never completed: {pend:?} (connection task finished: {}; {})", w.task_done(x), state(x)));
            }
        }
        // (2) results are the documented ones
        for e in &obs.events {
            match e {
                Ev::Wrote { res: Err(k), .. } => {
                    wit |= W_BROKEN_PIPE;
                    if k != "BrokenPipe" {
                        push_viol(&mut viol, "tung.write.error-kind", format!("a write failed with {k} instead of BrokenPipe"));
                    }
                }
                Ev::OpenErr { err, .. } | Ev::AcceptErr { err, .. } | Ev::DgramErr { err, .. } | Ev::BindNextErr { err, .. } => {
                    wit |= W_CLOSED_SEEN;
                    if err != "Closed" {
                        push_viol(&mut viol, "tung.mux.error-kind", format!("a multiplexor call failed with {err} instead of Closed ({e:?})"));
                    }
                }
                Ev::BindResult { res: Err(err), .. } | Ev::DgramSent { res: Err(err), .. } => {
                    if err != "Closed" {
                        push_viol(&mut viol, "tung.mux.error-kind", format!("a multiplexor call failed with {err} instead of Closed ({e:?})"));
                    }
                }
                Ev::Shutdown { res: Err(err), .. } => {
                    push_viol(&mut viol, "tung.shutdown.error", format!("shutdown failed with {err}"));
                }
                _ => {}
            }
        }
        // the bind request that is never answered must not be reported as accepted
        if obs.events.iter().any(|e| matches!(e, Ev::BindResult { side: 0, n: 0, res: Ok(true) })) {
            push_viol(&mut viol, "tung.bind.spurious-true", "a bind request that the peer never answered resolved with true".into());
        }
        let res: Vec<Option<Result<(), String>>> = (0..2).map(|x| w.task_result[x].borrow().clone()).collect();
        if res.iter().any(|r| matches!(r, Some(Err(_)))) {
            wit |= W_TASK_ERR;
        }
        if local_drop && !second && res.iter().all(|r| matches!(r, Some(Ok(())))) {
            wit |= W_CLOSE_HANDSHAKE;
        }
    }
    let mut h = Fnv::default();
    for e in &obs.events {
        h.str(&format!("{e:?}"));
    }
    h.byte(fault.map_or(0xff, |f| f as u8));
    if cfg.double {
        h.byte(u8::from(second) | u8::from(stall_first) << 1 | u8::from(close_rx[0]) << 2 | u8::from(close_rx[1]) << 3);
    }
    for x in 0..2 {
        // (Ok / Err only: the error text of an I/O failure is tungstenite's business)
        h.byte(match &*w.task_result[x].borrow() {
            None => 0,
            Some(Ok(())) => 1,
            Some(Err(_)) => 2,
        });
        h.byte(u8::from(judged[x]));
    }
    drop(obs);
    let out = RunOutput {
        blocked: false,
        steps: w.sim.steps,
        fingerprints: fps,
        outcome: h.0,
        violations: viol,
        witnesses: wit,
        horizon,
        rendering: render.then(|| {
            w.sim
                .log
                .iter()
                .map(|s| match s {
                    Step::Extra(1) => format!("FAULT({:?})", if xside == 0 { StallA2B } else { StallB2A }),
                    Step::Extra(_) => format!("FAULT({:?})", cfg.fault),
                    o => w.sim.describe(o),
                })
                .collect::<Vec<_>>()
                .join(" ")
        }),
    };
    w.sim.teardown();
    out
}

pub fn run(args: &Args) -> Report {
    let mut rep = Report::new("C08", &args.tier, "psim", "fault_enumeration");
    let thorough = args.thorough();
    let mut cases = Vec::new();
    for cap in [0usize, 64] {
        for fault in FAULTS {
            let cfg = Cfg { cap, fault, double: false };
            cases.push(Case { try_unbounded: false, max_k: u32::MAX, label: format!("{LABEL_PREFIX}{fault:?} at any point of the lean scenario over real WebSocketStreams (A client role, B server role), byte pipes of capacity {}", if cap == 0 { "unbounded".to_string() } else { format!("{cap} bytes") }), exec: Box::new(move |r| exec(&cfg, r)) });
        }
    }
    // two causes: the PEER ends the connection in an orderly way (its application drops the Multiplexor, or a bare Close
    // frame at byte level) and the outbound direction of the endpoint that receives the Close stalls, in either order, each
    // at every point (quick: of the canonical schedule; thorough: k <= 1). 64-byte pipes: the receiving endpoint's send
    // side really backs up
    for fault in [DropMuxA, DropMuxB, BareCloseA, BareCloseB] {
        let cfg = Cfg { cap: 64, fault, double: true };
        let stall = if peer_of(fault) == 0 { StallB2A } else { StallA2B };
        cases.push(Case { try_unbounded: false, max_k: if thorough { 1 } else { 0 }, label: format!("{LABEL_PREFIX}two faults, {fault:?} (the peer ends the connection in an orderly way) and, at any point before or after it, {stall:?} (the outbound direction of the endpoint that receives the Close goes silent); lean scenario over real WebSocketStreams (A client role, B server role), byte pipes of capacity 64 bytes"), exec: Box::new(move |r| exec(&cfg, r)) });
    }
    let plan = Plan {
        ks: if thorough { vec![0, 1, 2] } else { vec![0, 1] },
        env: 0,
        // (the single-fault cases offer no second fault: for them this is a budget of 1)
        fault: 2,
        total_wall: Duration::from_secs(if thorough { 1200 } else { 45 }),
        max_execs_per_case: 20_000_000,
        required_witnesses: W_FAULT_TAKEN | W_FAULT_WITH_BLOCKED_WRITER | W_FAULT_WITH_PENDING_OPEN | W_FAULT_WITH_PENDING_BIND | W_FAULT_WITH_DGRAM_IN_FLIGHT | W_BROKEN_PIPE | W_CLOSED_SEEN | W_EOF_WHILE_OUT_STUCK | W_EOF_WHILE_OUT_STUCK << 1 | W_RESET_WHILE_OUT_STUCK | W_RESET_WHILE_OUT_STUCK << 1 | W_TASK_ERR | W_CLOSE_HANDSHAKE | W_UNJUDGED_ENDPOINT | W_PIPE_BACKPRESSURE | W_CLOSE_WHILE_OUT_STUCK | W_CLOSE_WHILE_OUT_STUCK << 1,
        adaptive: thorough,
        witness_names: &[
            ("fault_injected", W_FAULT_TAKEN),
            ("fault_while_writer_blocked_on_credit", W_FAULT_WITH_BLOCKED_WRITER),
            ("fault_while_open_request_pending", W_FAULT_WITH_PENDING_OPEN),
            ("fault_while_bind_request_pending", W_FAULT_WITH_PENDING_BIND),
            ("fault_while_datagram_in_flight", W_FAULT_WITH_DGRAM_IN_FLIGHT),
            ("broken_pipe_observed", W_BROKEN_PIPE),
            ("closed_observed", W_CLOSED_SEEN),
            ("client_role_inbound_eof_seen_while_send_side_stuck_on_stalled_full_pipe", W_EOF_WHILE_OUT_STUCK),
            ("server_role_inbound_eof_seen_while_send_side_stuck_on_stalled_full_pipe", W_EOF_WHILE_OUT_STUCK << 1),
            ("client_role_inbound_reset_seen_while_send_side_stuck_on_stalled_full_pipe", W_RESET_WHILE_OUT_STUCK),
            ("server_role_inbound_reset_seen_while_send_side_stuck_on_stalled_full_pipe", W_RESET_WHILE_OUT_STUCK << 1),
            ("task_returned_error", W_TASK_ERR),
            ("close_handshake_completed_both_tasks_ok", W_CLOSE_HANDSHAKE),
            ("merely_stalled_endpoint_not_judged", W_UNJUDGED_ENDPOINT),
            ("writer_parked_on_full_pipe", W_PIPE_BACKPRESSURE),
            ("client_role_close_received_while_send_side_stuck_on_stalled_full_pipe", W_CLOSE_WHILE_OUT_STUCK),
            ("server_role_close_received_while_send_side_stuck_on_stalled_full_pipe", W_CLOSE_WHILE_OUT_STUCK << 1),
        ],
    };
    rep.rule = "psim over REAL tungstenite: two real endpoints whose WebSocket is a real tokio_tungstenite::WebSocketStream (A client role, B server role, through the crate's adapter in ws.rs) over in-memory byte pipes (per direction: bytes in flight, explicit deliver steps, capacity unbounded / 64 bytes with partial writes). Lean scenario (stream with data in both directions, a writer blocked on credit with rwnd 2, a blocked reader, accept loops, get_datagram pending on both sides, a stream request whose Connect is unanswered, a bind request that is never answered, a datagram in flight); at EVERY scheduling point (and at quiescence) of every schedule with <= k deviations one fault of {eof(d), reset(d), stall(d) for d in a->b, b->a; eof both; reset both; eof / reset of X's inbound direction while X's outbound direction is stalled, X in A, B; drop Multiplexor A / B} is injected, then the system runs to quiescence: on every endpoint that was told that the connection is over (a read of the byte stream returned end of file or an error, a write or flush failed, or the peer's Close arrived after a local drop) the connection task has finished and no application future is pending; reads only ever return delivered prefix then 0, failed writes are BrokenPipe, failed multiplexor calls are Closed (bind: false/Closed), no panic. Two-fault cases (64-byte pipes; canonical schedule in the quick tier, k <= 1 thorough): the PEER ends the connection in an orderly way (drops its Multiplexor, or a bare Close frame appears on its direction at byte level) and, at any point before or after that, the outbound direction of the endpoint that receives the Close stalls; an endpoint that has read the peer's Close frame is judged by the same oracle although its own send side never drains".into();
    rep.assumptions = vec![
        "eof(d) is an orderly end of the byte stream of direction d (FIN behind the bytes already sent, a deliver step carries it), the sender's later writes fail with BrokenPipe; reset(d) discards what is buffered, the reader's next read and the sender's writes fail with ConnectionReset; stall(d) is a silent loss: nothing arrives any more and nobody is told; once the capacity is used up the sender's poll_write / poll_flush stay Pending".into(),
        "an endpoint that was told nothing (its peer just went silent) is not judged: without keepalive this is indistinguishable from a slow peer (C16's subject)".into(),
        "the client role masks its frames with keys from the thread RNG: byte values on the pipe are not owned; only lengths enter fingerprints and nothing the oracle looks at depends on them".into(),
        "one deliver step moves everything in flight on a direction (TCP segment boundaries inside a direction are not explored); the flush clause for local drops is judged on the message-level link (other part of C08)".into(),
    ];
    run_cases(args, &mut rep, cases, &plan);
    rep
}
