//! Machine-readable result of one check run; turned into the evidence file by
//! `/verif/check`.

use serde_json::{Map, Value, json};
use std::time::Instant;

#[derive(Clone, Debug)]
pub struct Violation {
    /// stable identification of *what* fails (used to match known findings)
    pub key: String,
    pub desc: String,
    /// everything needed to re-run exactly this case
    pub replay: Value,
    pub count: u64,
}

pub struct Report {
    pub property: String,
    pub tier: String,
    pub engine: String,
    pub level: String,
    pub start: Instant,
    pub evaluations: u64,
    pub distinct_nontrivial: u64,
    pub states: u64,
    pub transitions: u64,
    pub rule: String,
    pub samples: Vec<Value>,
    pub exhaustive: bool,
    pub bounds: Map<String, Value>,
    pub caps_hit: Vec<String>,
    pub assumptions: Vec<String>,
    pub violations: Vec<Violation>,
    pub extra: Map<String, Value>,
    /// set when the run cannot give a verdict (vacuous exploration, divergence ...)
    pub machinery_error: Option<String>,
}

impl Report {
    pub fn new(property: &str, tier: &str, engine: &str, level: &str) -> Self {
        Self {
            property: property.into(),
            tier: tier.into(),
            engine: engine.into(),
            level: level.into(),
            start: Instant::now(),
            evaluations: 0,
            distinct_nontrivial: 0,
            states: 0,
            transitions: 0,
            rule: String::new(),
            samples: Vec::new(),
            exhaustive: false,
            bounds: Map::new(),
            caps_hit: Vec::new(),
            assumptions: Vec::new(),
            violations: Vec::new(),
            extra: Map::new(),
            machinery_error: None,
        }
    }

    pub fn violation(&mut self, key: impl Into<String>, desc: impl Into<String>, replay: Value) {
        let key = key.into();
        if let Some(v) = self.violations.iter_mut().find(|v| v.key == key) {
            v.count += 1;
            return;
        }
        self.violations.push(Violation {
            key,
            desc: desc.into(),
            replay,
            count: 1,
        });
    }

    pub fn violation_n(&mut self, key: impl Into<String>, desc: impl Into<String>, replay: Value, n: u64) {
        let key = key.into();
        if let Some(v) = self.violations.iter_mut().find(|v| v.key == key) {
            v.count += n;
            return;
        }
        self.violations.push(Violation {
            key,
            desc: desc.into(),
            replay,
            count: n,
        });
    }

    pub fn sample(&mut self, v: Value) {
        if self.samples.len() < 6 {
            self.samples.push(v);
        }
    }

    pub fn to_json(&self) -> Value {
        json!({
            "property": self.property,
            "tier": self.tier,
            "engine": self.engine,
            "level": self.level,
            "wall_s": self.start.elapsed().as_secs_f64(),
            "evaluations": self.evaluations,
            "distinct_nontrivial": self.distinct_nontrivial,
            "states": self.states,
            "transitions": self.transitions,
            "rule": self.rule,
            "samples": self.samples,
            "exhaustive": self.exhaustive,
            "bounds": self.bounds,
            "caps_hit": self.caps_hit,
            "assumptions": self.assumptions,
            "violations": self.violations.iter().map(|v| json!({
                "key": v.key, "desc": v.desc, "replay": v.replay, "count": v.count
            })).collect::<Vec<_>>(),
            "extra": self.extra,
            "machinery_error": self.machinery_error,
        })
    }

    pub fn write(&self, path: &str) {
        let s = serde_json::to_string_pretty(&self.to_json()).expect("json");
        std::fs::write(path, s).expect("write report");
    }
}

pub fn hex(b: &[u8]) -> String {
    let mut s = String::with_capacity(b.len() * 2);
    for x in b {
        s.push_str(&format!("{x:02x}"));
    }
    s
}

pub fn unhex(s: &str) -> Vec<u8> {
    (0..s.len() / 2)
        .map(|i| u8::from_str_radix(&s[2 * i..2 * i + 2], 16).expect("hex"))
        .collect()
}
