//! C20 — CowBytes and LongChain behave exactly like a plain byte sequence.
//!
//! Bounded-exhaustive enumeration of operation sequences on `LongChain`
//! against a `Vec<u8>` model (every argument at, inside and one past every
//! boundary), and of every `CowBytes` accessor / comparison / hash / mutator on
//! all short byte strings in both variants.

use crate::Args;
use crate::report::{Report, hex, unhex};
use bytes::{Buf, Bytes};
use cow_bytes::{CowBytes, LongChain};
use serde_json::{Value, json};
use std::borrow::Borrow;
use std::cmp::Ordering;
use std::collections::{BTreeMap, HashMap};
use std::hash::{Hash, Hasher};
use std::panic::{AssertUnwindSafe, catch_unwind};
use std::sync::Mutex;
use std::sync::atomic::{AtomicUsize, Ordering as AO};

// ---------------------------------------------------------------- operations

#[derive(Clone, Copy, Debug, PartialEq, Eq, Hash)]
enum Op {
    Push { size: u8, st: bool },
    Insert { idx: u8, size: u8, st: bool },
    Pop,
    Remove(u8),
    SplitTo(u8),
    SplitOff(u8),
    Truncate(u8),
    Advance(u8),
    Clear,
}

impl Op {
    fn name(self) -> &'static str {
        match self {
            Op::Push { .. } => "push",
            Op::Insert { .. } => "insert",
            Op::Pop => "pop",
            Op::Remove(_) => "remove",
            Op::SplitTo(_) => "split_to",
            Op::SplitOff(_) => "split_off",
            Op::Truncate(_) => "truncate",
            Op::Advance(_) => "advance",
            Op::Clear => "clear",
        }
    }
    fn to_json(self) -> Value {
        match self {
            Op::Push { size, st } => json!({"op": "push", "size": size, "static": st}),
            Op::Insert { idx, size, st } => json!({"op": "insert", "index": idx, "size": size, "static": st}),
            Op::Pop => json!({"op": "pop"}),
            Op::Remove(i) => json!({"op": "remove", "index": i}),
            Op::SplitTo(n) => json!({"op": "split_to", "n": n}),
            Op::SplitOff(n) => json!({"op": "split_off", "n": n}),
            Op::Truncate(n) => json!({"op": "truncate", "n": n}),
            Op::Advance(n) => json!({"op": "advance", "n": n}),
            Op::Clear => json!({"op": "clear"}),
        }
    }
    fn from_json(v: &Value) -> Op {
        let n = |k: &str| v[k].as_u64().unwrap_or_else(|| panic!("replay: op lacks {k}")) as u8;
        let st = v["static"].as_bool().unwrap_or(false);
        match v["op"].as_str().expect("replay: op") {
            "push" => Op::Push { size: n("size"), st },
            "insert" => Op::Insert { idx: n("index"), size: n("size"), st },
            "pop" => Op::Pop,
            "remove" => Op::Remove(n("index")),
            "split_to" => Op::SplitTo(n("n")),
            "split_off" => Op::SplitOff(n("n")),
            "truncate" => Op::Truncate(n("n")),
            "advance" => Op::Advance(n("n")),
            "clear" => Op::Clear,
            other => panic!("replay: unknown op {other}"),
        }
    }
}

/// Bytes of the segment pushed/inserted at step `step`: distinct per step so
/// that any reordering or duplication shows in the contents.
static POOL: [u8; 48] = {
    let mut a = [0u8; 48];
    let mut i = 0;
    while i < 48 {
        a[i] = 0x10 + i as u8;
        i += 1;
    }
    a
};
const MAX_SEG: usize = 3;

fn seg_bytes(step: usize, size: u8) -> &'static [u8] {
    &POOL[step * MAX_SEG..step * MAX_SEG + usize::from(size)]
}

fn seg(step: usize, size: u8, st: bool) -> CowBytes<'static> {
    let b = seg_bytes(step, size);
    if st { CowBytes::Static(Bytes::copy_from_slice(b)) } else { CowBytes::Temporary(b) }
}

type Chain = LongChain<'static>;

/// The start states: the empty chain and three pre-built ones.
fn start_state(k: usize) -> (Chain, Vec<u8>) {
    let mut c = LongChain::new();
    match k {
        0 => (c, vec![]),
        1 => {
            c.push(CowBytes::Temporary(b"\x80\x81"));
            c.push(CowBytes::Static(Bytes::copy_from_slice(b"\x82\x83\x84")));
            (c, b"\x80\x81\x82\x83\x84".to_vec())
        }
        2 => {
            c.push(CowBytes::from_static(b"\x90"));
            c.push(CowBytes::Temporary(b"\x91"));
            c.push(CowBytes::Static(Bytes::copy_from_slice(b"\xaa\x92\x93\xbb").slice(1..3)));
            (c, b"\x90\x91\x92\x93".to_vec())
        }
        3 => {
            // reached through the chain's own in-range operations
            c.push(CowBytes::Static(Bytes::copy_from_slice(b"\xa0\xa1\xa2\xa3")));
            c.push(CowBytes::Temporary(b"\xa4\xa5"));
            c.advance(1);
            c.truncate(4);
            (c, b"\xa1\xa2\xa3\xa4".to_vec())
        }
        _ => panic!("no such start state"),
    }
}
const N_STARTS: usize = 4;

/// The alphabet at a state with `n` chunks and `len` bytes.
fn ops_at(n: usize, len: usize, out: &mut Vec<Op>) {
    out.clear();
    for size in 0..=MAX_SEG as u8 {
        for st in [false, true] {
            out.push(Op::Push { size, st });
        }
    }
    for idx in 0..=(n + 1) as u8 {
        for size in 0..=MAX_SEG as u8 {
            for st in [false, true] {
                out.push(Op::Insert { idx, size, st });
            }
        }
    }
    out.push(Op::Pop);
    for idx in 0..=(n + 1) as u8 {
        out.push(Op::Remove(idx));
    }
    for k in 0..=(len + 1) as u8 {
        out.push(Op::SplitTo(k));
        out.push(Op::SplitOff(k));
        out.push(Op::Truncate(k));
        out.push(Op::Advance(k));
    }
    out.push(Op::Clear);
}

// ---------------------------------------------------------------- oracle

/// First disagreement between a chain and the bytes it should hold.
fn observe(c: &Chain, want: &[u8]) -> Option<(&'static str, String)> {
    if c.len() != want.len() {
        return Some(("len", format!("len() = {} but the contents are {} bytes ({})", c.len(), want.len(), hex(want))));
    }
    if c.remaining() != want.len() {
        return Some(("remaining", format!("remaining() = {} but {} bytes remain", c.remaining(), want.len())));
    }
    if c.is_empty() != want.is_empty() {
        return Some(("is_empty", format!("is_empty() = {} with {} bytes", c.is_empty(), want.len())));
    }
    let chunks: &[CowBytes<'static>] = c.as_ref();
    let cat: Vec<u8> = chunks.iter().flat_map(|x| x.as_ref().iter().copied()).collect();
    if cat != want {
        return Some(("content", format!("chunks concatenate to {} instead of {}", hex(&cat), hex(want))));
    }
    if let Some(i) = chunks.iter().position(|x| x.as_ref().is_empty()) {
        return Some(("empty-chunk", format!("chunk {i} of {} is empty (chunk lengths {:?}, {} bytes remain)", chunks.len(), chunks.iter().map(|x| x.len()).collect::<Vec<_>>(), want.len())));
    }
    if c.chunk().is_empty() != want.is_empty() {
        return Some(("buf-contract", format!("chunk() has {} bytes while remaining() = {}", c.chunk().len(), c.remaining())));
    }
    if !want.starts_with(c.chunk()) {
        return Some(("buf-contract", format!("chunk() = {} is not a prefix of the remaining bytes {}", hex(c.chunk()), hex(want))));
    }
    // drain a clone chunk by chunk
    let mut d = c.clone();
    let mut got = Vec::with_capacity(want.len());
    for _ in 0..=want.len() + 4 {
        let ch = d.chunk();
        if ch.is_empty() {
            break;
        }
        let n = ch.len();
        got.extend_from_slice(ch);
        d.advance(n);
    }
    if got != want || d.remaining() != 0 || d.has_remaining() {
        return Some(("drain", format!("draining through Buf::chunk/advance yields {} (then remaining() = {}) instead of {}", hex(&got), d.remaining(), hex(want))));
    }
    // and byte by byte
    let mut d = c.clone();
    let mut got = Vec::with_capacity(want.len());
    for _ in 0..want.len() {
        let ch = d.chunk();
        if ch.is_empty() {
            break;
        }
        got.push(ch[0]);
        d.advance(1);
    }
    if got != want || d.remaining() != 0 || !d.chunk().is_empty() {
        return Some(("drain", format!("draining one byte at a time yields {} (then remaining() = {}) instead of {}", hex(&got), d.remaining(), hex(want))));
    }
    // the methods `Buf` provides on top of these (a type may override any of them): taken from the front, and consumed
    for k in [want.len() / 2, want.len()] {
        let mut d = c.clone();
        let b = d.copy_to_bytes(k);
        if b.as_ref() != &want[..k] || d.remaining() != want.len() - k || d.len() != want.len() - k {
            return Some(("buf-copy_to_bytes", format!("copy_to_bytes({k}) = {} and leaves remaining() = {}, len() = {} of {}", hex(b.as_ref()), d.remaining(), d.len(), hex(want))));
        }
        let mut d = c.clone();
        let mut buf = vec![0xeeu8; k];
        d.copy_to_slice(&mut buf);
        let rest: Vec<u8> = { let ch: &[CowBytes<'static>] = d.as_ref(); ch.iter().flat_map(|x| x.as_ref().iter().copied()).collect() };
        if buf != want[..k] || rest != want[k..] {
            return Some(("buf-copy_to_slice", format!("copy_to_slice([{k}]) = {} and leaves {} of {}", hex(&buf), hex(&rest), hex(want))));
        }
    }
    let mut io = [std::io::IoSlice::new(&[]); 16];
    let n = c.chunks_vectored(&mut io);
    let cat: Vec<u8> = io[..n].iter().flat_map(|x| x.iter().copied()).collect();
    // (the contract lets an implementation fill fewer slices than it could: a non-empty prefix is all that is owed)
    if !want.starts_with(&cat) || cat.is_empty() != want.is_empty() || io[..n].iter().any(|x| x.is_empty()) {
        return Some(("buf-chunks_vectored", format!("chunks_vectored() fills {n} slices holding {} of {}", hex(&cat), hex(want))));
    }
    None
}

/// What the subject returned from an operation.
enum Ret {
    Nothing,
    Seg(Option<CowBytes<'static>>),
    Half(Chain),
}

fn apply(c: &mut Chain, op: Op, step: usize) -> Ret {
    match op {
        Op::Push { size, st } => {
            c.push(seg(step, size, st));
            Ret::Nothing
        }
        Op::Insert { idx, size, st } => {
            c.insert(usize::from(idx), seg(step, size, st));
            Ret::Nothing
        }
        Op::Pop => Ret::Seg(c.pop()),
        Op::Remove(i) => Ret::Seg(Some(c.remove(usize::from(i)))),
        Op::SplitTo(n) => Ret::Half(c.split_to(usize::from(n))),
        Op::SplitOff(n) => Ret::Half(c.split_off(usize::from(n))),
        Op::Truncate(n) => {
            c.truncate(usize::from(n));
            Ret::Nothing
        }
        Op::Advance(n) => {
            c.advance(usize::from(n));
            Ret::Nothing
        }
        Op::Clear => {
            c.clear();
            Ret::Nothing
        }
    }
}

/// The `Vec<u8>` model. `lens` are the chunk lengths of the chain before the
/// operation (chunk-indexed operations are defined in terms of them).
/// Returns `None` for an out-of-range argument, else (new bytes, returned bytes).
enum Expect {
    OutOfRange(&'static str),
    Ok { after: Vec<u8>, ret: Option<Option<Vec<u8>>> },
}

fn model(bytes: &[u8], lens: &[usize], op: Op, step: usize) -> Expect {
    let len = bytes.len();
    let n = lens.len();
    let off = |i: usize| lens[..i].iter().sum::<usize>();
    match op {
        Op::Push { size: 0, .. } => Expect::OutOfRange("empty-seg"),
        Op::Insert { idx, size, .. } if usize::from(idx) > n => Expect::OutOfRange(if size == 0 { "past-end+empty-seg" } else { "past-end" }),
        Op::Insert { size: 0, .. } => Expect::OutOfRange("empty-seg"),
        Op::Push { size, .. } => {
            let mut v = bytes.to_vec();
            v.extend_from_slice(seg_bytes(step, size));
            Expect::Ok { after: v, ret: None }
        }
        Op::Insert { idx, size, .. } => {
            let at = off(usize::from(idx));
            let mut v = bytes.to_vec();
            v.splice(at..at, seg_bytes(step, size).iter().copied());
            Expect::Ok { after: v, ret: None }
        }
        Op::Pop => {
            if n == 0 {
                Expect::Ok { after: bytes.to_vec(), ret: Some(None) }
            } else {
                let k = lens[n - 1];
                Expect::Ok { after: bytes[..len - k].to_vec(), ret: Some(Some(bytes[len - k..].to_vec())) }
            }
        }
        Op::Remove(i) if usize::from(i) >= n => Expect::OutOfRange("past-end"),
        Op::Remove(i) => {
            let i = usize::from(i);
            let (a, k) = (off(i), lens[i]);
            let mut v = bytes.to_vec();
            let r: Vec<u8> = v.drain(a..a + k).collect();
            Expect::Ok { after: v, ret: Some(Some(r)) }
        }
        Op::SplitTo(k) | Op::SplitOff(k) | Op::Truncate(k) | Op::Advance(k) if usize::from(k) > len => Expect::OutOfRange("past-end"),
        Op::SplitTo(k) => Expect::Ok { after: bytes[usize::from(k)..].to_vec(), ret: Some(Some(bytes[..usize::from(k)].to_vec())) },
        Op::SplitOff(k) => Expect::Ok { after: bytes[..usize::from(k)].to_vec(), ret: Some(Some(bytes[usize::from(k)..].to_vec())) },
        Op::Truncate(k) => Expect::Ok { after: bytes[..usize::from(k)].to_vec(), ret: None },
        Op::Advance(k) => Expect::Ok { after: bytes[usize::from(k)..].to_vec(), ret: None },
        Op::Clear => Expect::Ok { after: vec![], ret: None },
    }
}

enum Step {
    /// the sequence may go on from (chain, bytes)
    Go(Chain, Vec<u8>),
    /// allowed panic on an out-of-range argument: the value is discarded
    AllowedPanic,
    /// violation (key suffix, description): the subtree is not explored
    Bad(String, String),
}

fn panic_text(e: &(dyn std::any::Any + Send)) -> String {
    crate::sim::take_last_panic().unwrap_or_else(|| {
        e.downcast_ref::<String>().cloned().or_else(|| e.downcast_ref::<&str>().map(|s| (*s).to_string())).unwrap_or_else(|| "<panic>".into())
    })
}

#[derive(Default)]
struct Acc {
    nodes: u64,
    cls: BTreeMap<String, u64>,
    viol: HashMap<String, (String, Value, usize, u64)>,
}

impl Acc {
    fn c(&mut self, k: &str) {
        match self.cls.get_mut(k) {
            Some(n) => *n += 1,
            None => {
                self.cls.insert(k.to_string(), 1);
            }
        }
    }
    fn v(&mut self, key: String, desc: String, size: usize, replay: impl FnOnce() -> Value) {
        match self.viol.get_mut(&key) {
            Some(e) => {
                e.3 += 1;
                if size <= e.2 {
                    let r = replay();
                    if size < e.2 || r.to_string() < e.1.to_string() {
                        *e = (desc, r, size, e.3);
                    }
                }
            }
            None => {
                self.viol.insert(key, (desc, replay(), size, 1));
            }
        }
    }
    fn merge(&mut self, o: Acc) {
        self.nodes += o.nodes;
        for (k, n) in o.cls {
            *self.cls.entry(k).or_default() += n;
        }
        for (k, (d, r, s, n)) in o.viol {
            match self.viol.get_mut(&k) {
                Some(e) => {
                    let total = e.3 + n;
                    if s < e.2 || (s == e.2 && r.to_string() < e.1.to_string()) {
                        *e = (d, r, s, total);
                    } else {
                        e.3 = total;
                    }
                }
                None => {
                    self.viol.insert(k, (d, r, s, n));
                }
            }
        }
    }
}

/// Apply `op` (the `step`-th of the sequence) to a copy of `chain` and judge it.
fn step(chain: &Chain, bytes: &[u8], op: Op, step: usize, acc: &mut Acc) -> Step {
    acc.nodes += 1;
    let lens: Vec<usize> = AsRef::<[CowBytes<'static>]>::as_ref(chain).iter().map(|x| x.len()).collect();
    let expect = model(bytes, &lens, op, step);
    let mut c = chain.clone();
    let applied = catch_unwind(AssertUnwindSafe(|| apply(&mut c, op, step)));
    let name = op.name();
    match (&expect, applied) {
        (Expect::OutOfRange(cls), Err(_)) => {
            let _ = crate::sim::take_last_panic();
            // the panic is allowed; the value that survives it (a caller may catch the unwind, a `Drop` may look at
            // it) must still be a value: its reported length agrees with what it holds, no empty chunk
            let judged = catch_unwind(AssertUnwindSafe(|| {
                let cat: Vec<u8> = AsRef::<[CowBytes<'static>]>::as_ref(&c).iter().flat_map(|x| x.as_ref().iter().copied()).collect();
                observe(&c, &cat)
            }));
            match judged {
                Ok(None) => {
                    acc.c(&format!("{name}.{cls}.panics"));
                    Step::AllowedPanic
                }
                Ok(Some((kind, d))) => {
                    acc.c(&format!("{name}.{cls}.PANIC-CORRUPTS"));
                    Step::Bad(format!("after-panic.{kind}.{name}.{cls}"), format!("{name} with an out-of-range argument ({cls}) panicked and left a value that disagrees with itself: {d}"))
                }
                Err(e) => {
                    let _ = crate::sim::take_last_panic();
                    acc.c(&format!("{name}.{cls}.PANIC-CORRUPTS"));
                    Step::Bad(format!("after-panic.invariant-panic.{name}.{cls}"), format!("{name} with an out-of-range argument ({cls}) panicked and an accessor of the surviving value panics: {}", panic_text(&*e)))
                }
            }
        }
        (Expect::Ok { .. }, Err(e)) => {
            acc.c(&format!("{name}.in-range.PANICS"));
            Step::Bad(format!("panic.{name}.in-range"), format!("{name} with an in-range argument panicked: {}", panic_text(&*e)))
        }
        (Expect::OutOfRange(cls), Ok(ret)) => {
            // tolerated only if the value is unchanged and whatever came back is coherent
            let judged = catch_unwind(AssertUnwindSafe(|| {
                if let Some((kind, d)) = observe(&c, bytes) {
                    return Some((kind, d));
                }
                match &ret {
                    Ret::Half(h) => {
                        let cat: Vec<u8> = AsRef::<[CowBytes<'static>]>::as_ref(h).iter().flat_map(|x| x.as_ref().iter().copied()).collect();
                        observe(h, &cat).map(|(k, d)| (k, format!("returned half: {d}")))
                    }
                    _ => None,
                }
            }));
            match judged {
                Err(e) => {
                    acc.c(&format!("{name}.{cls}.CORRUPTS"));
                    Step::Bad(format!("invariant-panic.{name}.{cls}"), format!("after {name} with an out-of-range argument ({cls}) that did not panic, an accessor panics: {}", panic_text(&*e)))
                }
                Ok(Some((kind, d))) => {
                    acc.c(&format!("{name}.{cls}.CORRUPTS"));
                    Step::Bad(format!("{kind}.{name}.{cls}"), format!("{name} with an out-of-range argument ({cls}) neither panicked nor left the value unchanged: {d}"))
                }
                Ok(None) => {
                    acc.c(&format!("{name}.{cls}.unchanged"));
                    Step::Go(c, bytes.to_vec())
                }
            }
        }
        (Expect::Ok { after, ret: want_ret }, Ok(ret)) => {
            let judged = catch_unwind(AssertUnwindSafe(|| {
                if let Some((kind, d)) = observe(&c, after) {
                    return Some((kind.to_string(), d));
                }
                match (&ret, want_ret) {
                    (Ret::Nothing, None) => None,
                    (Ret::Seg(None), Some(None)) => None,
                    (Ret::Seg(Some(s)), Some(Some(w))) => (s.as_ref() != w.as_slice() || s.len() != w.len()).then(|| ("ret".to_string(), format!("returned segment {} instead of {}", hex(s.as_ref()), hex(w)))),
                    (Ret::Seg(got), Some(w)) => Some(("ret".to_string(), format!("returned {:?} where {:?} was due", got.as_ref().map(|s| hex(s.as_ref())), w.as_ref().map(|w| hex(w))))),
                    (Ret::Half(h), Some(Some(w))) => observe(h, w).map(|(k, d)| (format!("ret-{k}"), format!("returned half: {d}"))),
                    _ => Some(("ret".to_string(), "return value of unexpected shape".to_string())),
                }
            }));
            match judged {
                Err(e) => {
                    acc.c(&format!("{name}.in-range.WRONG"));
                    Step::Bad(format!("invariant-panic.{name}.in-range"), format!("after an in-range {name} an accessor panics: {}", panic_text(&*e)))
                }
                Ok(Some((kind, d))) => {
                    acc.c(&format!("{name}.in-range.WRONG"));
                    Step::Bad(format!("{kind}.{name}.in-range"), format!("after an in-range {name}: {d}"))
                }
                Ok(None) => {
                    acc.c(&format!("{name}.in-range.ok"));
                    Step::Go(c, after.clone())
                }
            }
        }
    }
}

fn seq_json(start: usize, ops: &[Op]) -> Value {
    json!({"kind": "chain", "start": start, "ops": ops.iter().map(|o| o.to_json()).collect::<Vec<_>>()})
}

fn describe_seq(start: usize, ops: &[Op]) -> String {
    let s: Vec<String> = ops
        .iter()
        .enumerate()
        .map(|(k, o)| match o {
            Op::Push { size, st } => format!("push({}{})", if *st { "S" } else { "T" }, hex(seg_bytes(k, *size))),
            Op::Insert { idx, size, st } => format!("insert({idx}, {}{})", if *st { "S" } else { "T" }, hex(seg_bytes(k, *size))),
            Op::Pop => "pop()".into(),
            Op::Remove(i) => format!("remove({i})"),
            Op::SplitTo(n) => format!("split_to({n})"),
            Op::SplitOff(n) => format!("split_off({n})"),
            Op::Truncate(n) => format!("truncate({n})"),
            Op::Advance(n) => format!("advance({n})"),
            Op::Clear => "clear()".into(),
        })
        .collect();
    format!("start#{start}: {}", s.join("; "))
}

/// Depth-first over all sequences extending `prefix` up to `depth` operations.
fn dfs(start: usize, chain: &Chain, bytes: &[u8], prefix: &mut Vec<Op>, depth: usize, acc: &mut Acc) {
    if prefix.len() >= depth {
        return;
    }
    let n = AsRef::<[CowBytes<'static>]>::as_ref(chain).len();
    let mut ops = Vec::new();
    ops_at(n, bytes.len(), &mut ops);
    for op in ops {
        let k = prefix.len();
        prefix.push(op);
        match step(chain, bytes, op, k, acc) {
            Step::Go(c2, b2) => dfs(start, &c2, &b2, prefix, depth, acc),
            Step::AllowedPanic => {}
            Step::Bad(key, d) => {
                let desc = format!("{} — {d} [model before the last operation: {}]", describe_seq(start, prefix), hex(bytes));
                let p: &[Op] = prefix;
                // prefer short examples, and among them ones where bytes remain
                        acc.v(format!("chain.{key}"), desc, 2 * p.len() + usize::from(bytes.is_empty()), || seq_json(start, p));
            }
        }
        prefix.pop();
    }
}

/// Build start state `start`; a panic while doing so (in-range operations only) is a violation.
fn build_start(start: usize, acc: &mut Acc) -> Option<(Chain, Vec<u8>)> {
    match catch_unwind(|| start_state(start)) {
        Ok(x) => Some(x),
        Err(e) => {
            acc.v("chain.panic.prebuilt".into(), format!("building pre-built chain #{start} with in-range operations panicked: {}", panic_text(&*e)), 0, || seq_json(start, &[]));
            None
        }
    }
}

/// A pre-built chain must already agree with its bytes; `true` (and a violation) if it does not.
fn check_start(start: usize, chain: &Chain, bytes: &[u8], acc: &mut Acc) -> bool {
    acc.nodes += 1;
    let bad = match catch_unwind(AssertUnwindSafe(|| observe(chain, bytes))) {
        Ok(None) => return false,
        Ok(Some((kind, d))) => (kind.to_string(), d),
        Err(e) => ("invariant-panic".to_string(), format!("an accessor panics: {}", panic_text(&*e))),
    };
    acc.v(
        format!("chain.{}.prebuilt", bad.0),
        format!("pre-built chain #{start} (pushes, one in-range advance/truncate) holding {}: {}", hex(bytes), bad.1),
        0,
        || seq_json(start, &[]),
    );
    true
}

/// Replay one recorded sequence; returns the observation text and violations.
fn replay_chain(v: &Value) -> (String, Acc) {
    let start = v["start"].as_u64().expect("replay: start") as usize;
    let ops: Vec<Op> = v["ops"].as_array().expect("replay: ops").iter().map(Op::from_json).collect();
    let mut acc = Acc::default();
    let Some((mut chain, mut bytes)) = build_start(start, &mut acc) else {
        return ("building the start state panicked".into(), acc);
    };
    let mut log = String::new();
    if check_start(start, &chain, &bytes, &mut acc) {
        return ("start state inconsistent".into(), acc);
    }
    for (k, &op) in ops.iter().enumerate() {
        match step(&chain, &bytes, op, k, &mut acc) {
            Step::Go(c, b) => {
                log.push_str(&format!("{}: ok -> {}; ", op.name(), hex(&b)));
                chain = c;
                bytes = b;
            }
            Step::AllowedPanic => {
                log.push_str(&format!("{}: panicked (allowed); ", op.name()));
                break;
            }
            Step::Bad(key, d) => {
                log.push_str(&format!("{}: VIOLATION {key}: {d}", op.name()));
                let desc = format!("{} — {d}", describe_seq(start, &ops[..=k]));
                acc.v(format!("chain.{key}"), desc, k + 1, || seq_json(start, &ops[..=k]));
                break;
            }
        }
    }
    (log, acc)
}

// ---------------------------------------------------------------- CowBytes

const COW_ALPHABET: [u8; 3] = [0x00, 0x61, 0xff];

fn cow_strings(max: usize) -> Vec<Vec<u8>> {
    let mut v = vec![vec![]];
    let mut layer = vec![vec![]];
    for _ in 0..max {
        let mut next = Vec::new();
        for s in &layer {
            for a in COW_ALPHABET {
                let mut t: Vec<u8> = s.clone();
                t.push(a);
                next.push(t);
            }
        }
        v.extend(next.iter().cloned());
        layer = next;
    }
    v
}

const VARIANTS: [&str; 5] = ["temporary", "static-heap", "static-slice", "static-literal", "from-slice"];

/// Build variant `which` of the byte string `s` (`lit` is a leaked copy of `s`).
fn cow_of<'a>(s: &'a [u8], lit: &'static [u8], which: usize) -> CowBytes<'a> {
    match which {
        0 => CowBytes::Temporary(s),
        1 => CowBytes::Static(Bytes::copy_from_slice(s)),
        2 => {
            let mut padded = vec![0x55u8];
            padded.extend_from_slice(s);
            padded.push(0x66);
            CowBytes::Static(Bytes::from(padded).slice(1..=s.len()))
        }
        3 => CowBytes::from_static(lit),
        _ => CowBytes::from(s),
    }
}

fn std_hash<T: Hash + ?Sized>(t: &T) -> u64 {
    let mut h = std::collections::hash_map::DefaultHasher::new();
    t.hash(&mut h);
    h.finish()
}

/// Hasher that records everything written to it.
#[derive(Default)]
struct Tape(Vec<u8>);
impl Hasher for Tape {
    fn finish(&self) -> u64 {
        0
    }
    fn write(&mut self, b: &[u8]) {
        self.0.extend_from_slice(b);
    }
}
fn tape<T: Hash + ?Sized>(t: &T) -> Vec<u8> {
    let mut h = Tape::default();
    t.hash(&mut h);
    h.0
}

fn eq_array(c: &CowBytes<'_>, s: &[u8]) -> Option<bool> {
    // PartialEq<&[u8; N]>
    Some(match s.len() {
        0 => *c == <&[u8; 0]>::try_from(s).ok()?,
        1 => *c == <&[u8; 1]>::try_from(s).ok()?,
        2 => *c == <&[u8; 2]>::try_from(s).ok()?,
        3 => *c == <&[u8; 3]>::try_from(s).ok()?,
        4 => *c == <&[u8; 4]>::try_from(s).ok()?,
        5 => *c == <&[u8; 5]>::try_from(s).ok()?,
        _ => return None,
    })
}

/// Every accessor of one value against the byte string it was built from.
/// Returns the names of the accessors that disagree.
fn cow_accessors(c: &CowBytes<'_>, s: &[u8]) -> Vec<(&'static str, String)> {
    let mut bad: Vec<(&'static str, String)> = Vec::new();
    let mut chk = |name: &'static str, ok: bool, detail: String| {
        if !ok {
            bad.push((name, detail));
        }
    };
    chk("len", c.len() == s.len(), format!("len() = {}", c.len()));
    chk("is_empty", c.is_empty() == s.is_empty(), format!("is_empty() = {}", c.is_empty()));
    chk("as_ref", c.as_ref() == s, format!("as_ref() = {}", hex(c.as_ref())));
    chk("deref", &**c == s && c.first() == s.first() && c.iter().count() == s.len(), format!("deref = {}", hex(&**c)));
    chk("chunk", c.chunk() == s, format!("chunk() = {}", hex(c.chunk())));
    chk("remaining", c.remaining() == s.len(), format!("remaining() = {}", c.remaining()));
    let b: &[u8] = c.borrow();
    chk("borrow", b == s, format!("borrow() = {}", hex(b)));
    chk("hash", std_hash(c) == std_hash(s) && tape(c) == tape(s), format!("hash feeds {} where [u8] feeds {}", hex(&tape(c)), hex(&tape(s))));
    chk("lower-hex", format!("{c:x}") == hex(s), format!("{{:x}} = {c:x}"));
    chk("upper-hex", format!("{c:X}") == hex(s).to_uppercase(), format!("{{:X}} = {c:X}"));
    chk("eq-slice", *c == *s && !(*c != *s), "== [u8] is false".into());
    chk("eq-vec", *c == s.to_vec(), "== Vec<u8> is false".into());
    chk("eq-bytes", *c == Bytes::copy_from_slice(s), "== Bytes is false".into());
    if let Some(e) = eq_array(c, s) {
        chk("eq-array", e, "== &[u8; N] is false".into());
    }
    chk("cmp-slice", c.partial_cmp(s) == Some(Ordering::Equal), format!("partial_cmp([u8]) = {:?}", c.partial_cmp(s)));
    chk("cmp-bytes", c.partial_cmp(&Bytes::copy_from_slice(s)) == Some(Ordering::Equal), "partial_cmp(Bytes) != Equal".into());
    chk("clone", c.clone().as_ref() == s && c.clone() == *c, "clone differs".into());
    chk("into_static", c.clone().into_static().as_ref() == s, format!("into_static() = {}", hex(c.clone().into_static().as_ref())));
    // Buf: draining a clone yields the bytes
    let mut d = c.clone();
    let mut got = Vec::new();
    while d.has_remaining() && got.len() <= s.len() {
        got.push(d.chunk()[0]);
        d.advance(1);
    }
    chk("buf-drain", got == s && d.remaining() == 0 && d.chunk().is_empty(), format!("Buf drain = {}", hex(&got)));
    // the methods `Buf` provides on top of chunk/advance/remaining (a type may override any of them): each takes its
    // bytes from the front AND consumes them, like `&[u8]` does
    for k in 0..=s.len() {
        let mut d = c.clone();
        let got = d.copy_to_bytes(k);
        chk("buf-copy_to_bytes", got.as_ref() == &s[..k] && d.as_ref() == &s[k..] && d.remaining() == s.len() - k && d.len() == s.len() - k, format!("copy_to_bytes({k}) = {} and leaves {} (remaining() = {})", hex(got.as_ref()), hex(d.as_ref()), d.remaining()));
        let mut d = c.clone();
        let mut buf = vec![0xeeu8; k];
        d.copy_to_slice(&mut buf);
        chk("buf-copy_to_slice", buf == s[..k] && d.as_ref() == &s[k..] && d.remaining() == s.len() - k, format!("copy_to_slice([{k}]) = {} and leaves {}", hex(&buf), hex(d.as_ref())));
        let mut d = c.clone();
        let got = (&mut d).take(k).copy_to_bytes(k);
        chk("buf-take-copy_to_bytes", got.as_ref() == &s[..k] && d.as_ref() == &s[k..], format!("take({k}).copy_to_bytes({k}) = {} and leaves {}", hex(got.as_ref()), hex(d.as_ref())));
        let mut d = c.clone();
        let mut out = Vec::new();
        let r = std::io::Read::read_to_end(&mut (&mut d).take(k).reader(), &mut out);
        chk("buf-reader", r.is_ok() && out == s[..k] && d.as_ref() == &s[k..], format!("take({k}).reader().read_to_end = {r:?} / {} and leaves {}", hex(&out), hex(d.as_ref())));
    }
    if !s.is_empty() {
        let mut d = c.clone();
        let b = d.get_u8();
        chk("buf-get_u8", b == s[0] && d.as_ref() == &s[1..], format!("get_u8() = {b:02x} and leaves {}", hex(d.as_ref())));
    }
    if s.len() >= 2 {
        let mut d = c.clone();
        let v = d.get_u16();
        chk("buf-get_u16", v == u16::from_be_bytes([s[0], s[1]]) && d.as_ref() == &s[2..], format!("get_u16() = {v:04x} and leaves {}", hex(d.as_ref())));
    }
    {
        let mut io = [std::io::IoSlice::new(&[]); 2];
        let n = c.chunks_vectored(&mut io);
        let cat: Vec<u8> = io[..n].iter().flat_map(|x| x.iter().copied()).collect();
        chk("buf-chunks_vectored", cat == s && (n == 0) == s.is_empty(), format!("chunks_vectored() fills {n} slices: {}", hex(&cat)));
        let mut e = c.clone().chain(c.clone());
        let both = e.copy_to_bytes(2 * s.len());
        chk("buf-chain", both.as_ref() == [s, s].concat() && !e.has_remaining(), format!("chain(self).copy_to_bytes = {}", hex(both.as_ref())));
    }
    // io::Read: one call copies min(buf, len) bytes from the front
    for cap in [0usize, 1, s.len(), s.len() + 1] {
        let mut d = c.clone();
        let mut buf = vec![0xeeu8; cap];
        let r = std::io::Read::read(&mut d, &mut buf);
        let n = cap.min(s.len());
        chk("read", matches!(r, Ok(k) if k == n) && buf[..n] == s[..n], format!("read(buf[{cap}]) = {r:?} / {}", hex(&buf)));
    }
    bad
}

/// Does `io::Read::read` consume what it returned (as `&[u8]` does)?
fn cow_read_consumes(c: &CowBytes<'_>) -> bool {
    let mut d = c.clone();
    let mut buf = [0u8; 1];
    let _ = std::io::Read::read(&mut d, &mut buf);
    d.len() + 1 == c.len()
}

/// Mutators at index `k` against the `Vec` model. Returns (key part, detail) on a violation;
/// `panicked` reports whether the call panicked (for the divergence statistics).
fn cow_mutator(c: &CowBytes<'_>, s: &[u8], which: &'static str, k: usize) -> (bool, Option<(String, String)>) {
    let mut d = c.clone();
    let r = catch_unwind(AssertUnwindSafe(|| match which {
        "split_to" => Some(d.split_to(k)),
        "split_off" => Some(d.split_off(k)),
        "truncate" => {
            d.truncate(k);
            None
        }
        _ => {
            d.advance(k);
            None
        }
    }));
    let in_range = k <= s.len();
    let cls = if in_range { "in-range" } else { "past-end" };
    match r {
        Err(e) => {
            let m = panic_text(&*e);
            if in_range { (true, Some((format!("panic.{which}.{cls}"), format!("{which}({k}) on {} panicked: {m}", hex(s))))) } else { (true, None) }
        }
        Ok(ret) => {
            let (want_self, want_ret): (&[u8], Option<&[u8]>) = if in_range {
                match which {
                    "split_to" => (&s[k..], Some(&s[..k])),
                    "split_off" => (&s[..k], Some(&s[k..])),
                    "truncate" => (&s[..k], None),
                    _ => (&s[k..], None),
                }
            } else {
                (s, None)
            };
            let self_ok = d.as_ref() == want_self && d.len() == want_self.len() && d.remaining() == want_self.len() && d.chunk() == want_self;
            let ret_ok = match (&ret, want_ret) {
                (Some(r), Some(w)) => r.as_ref() == w && r.len() == w.len(),
                (Some(r), None) => r.len() == r.as_ref().len(), // out of range, tolerated: only coherence
                (None, _) => true,
            };
            // values that share storage with the original (the mutated clone, the returned part) compare equal to it and
            // to each other exactly when their octets are equal
            let eq_as_bytes = |x: &CowBytes<'_>, y: &CowBytes<'_>| ((*x == *y) == (x.as_ref() == y.as_ref())) && ((*y == *x) == (x.as_ref() == y.as_ref()));
            let eq_ok = eq_as_bytes(&d, c) && ret.as_ref().is_none_or(|r| eq_as_bytes(r, c) && eq_as_bytes(r, &d));
            if self_ok && ret_ok && !eq_ok {
                return (false, Some((format!("eq.shared-storage.{which}"), format!("after {which}({k}) on {}: `==` between the original, the value left ({}) and the value returned ({:?}) disagrees with the equality of their octets", hex(s), hex(d.as_ref()), ret.as_ref().map(|r| hex(r.as_ref()))))));
            }
            if self_ok && ret_ok {
                (false, None)
            } else {
                (
                    false,
                    Some((
                        format!("mut.{which}.{cls}"),
                        format!(
                            "{which}({k}) on {} leaves {} (len() = {}) and returns {:?}; the byte-vector model gives {} / {:?}",
                            hex(s),
                            hex(d.as_ref()),
                            d.len(),
                            ret.as_ref().map(|r| hex(r.as_ref())),
                            hex(want_self),
                            want_ret.map(hex)
                        ),
                    )),
                )
            }
        }
    }
}

fn check_cow_string(s: &[u8], acc: &mut Acc) {
    let lit: &'static [u8] = Box::leak(s.to_vec().into_boxed_slice());
    // [mutator][index] -> did it panic, per variant: the variants must be indistinguishable in this respect too
    let mut panics: Vec<Vec<Vec<bool>>> = vec![vec![Vec::new(); s.len() + 2]; 4];
    for (vi, vname) in VARIANTS.iter().enumerate() {
        let rj = || json!({"kind": "cow", "hex": hex(s), "variant": vi});
        acc.nodes += 1;
        let built = catch_unwind(AssertUnwindSafe(|| {
            let c = cow_of(s, lit, vi);
            cow_accessors(&c, s)
        }));
        match built {
            Err(e) => acc.v(format!("cow.panic.accessors.{vname}"), format!("an accessor of the {vname} CowBytes of {} panicked: {}", hex(s), panic_text(&*e)), s.len(), rj),
            Ok(bad) => {
                acc.c(if bad.is_empty() { "cow.accessors.ok" } else { "cow.accessors.WRONG" });
                for (name, detail) in bad {
                    acc.v(format!("cow.{name}.{vname}"), format!("{vname} CowBytes of {}: {detail}", hex(s)), s.len(), rj);
                }
            }
        }
        let c = cow_of(s, lit, vi);
        if !s.is_empty() {
            if cow_read_consumes(&c) {
                acc.c("cow.read.consumes");
            } else {
                acc.c("cow.read.does-not-consume");
                // a byte sequence that is read from gives its bytes out once (like &[u8] or Bytes::reader())
                acc.v(format!("cow.read.not-consumed.{vname}"), format!("{vname}: io::Read::read on {} returned a byte but the value still holds all {} bytes: reading never reaches the end", hex(s), s.len()), s.len(), || json!({"kind": "cow", "hex": hex(s), "variant": vi}));
            }
        }
        for (wi, which) in ["split_to", "split_off", "truncate", "advance"].into_iter().enumerate() {
            for k in 0..=s.len() + 1 {
                acc.nodes += 1;
                let (panicked, bad) = cow_mutator(&c, s, which, k);
                panics[wi][k].push(panicked);
                let cls = if k <= s.len() { "in-range" } else { "past-end" };
                acc.c(&format!("cow.{which}.{cls}.{}", if panicked { "panics" } else { "returns" }));
                if let Some((key, d)) = bad {
                    acc.v(format!("cow.{key}.{vname}"), format!("{vname}: {d}"), s.len(), || json!({"kind": "cow", "hex": hex(s), "variant": vi}));
                }
            }
        }
    }
    for (wi, which) in ["split_to", "split_off", "truncate", "advance"].into_iter().enumerate() {
        for k in 0..=s.len() + 1 {
            let p = &panics[wi][k];
            if p.iter().any(|x| *x) && p.iter().any(|x| !*x) {
                let who: Vec<String> = VARIANTS.iter().zip(p.iter()).map(|(v, x)| format!("{v}: {}", if *x { "panics" } else { "returns" })).collect();
                acc.v(format!("cow.variants-differ.{which}.{}", if k <= s.len() { "in-range" } else { "past-end" }), format!("{which}({k}) on {}: borrowed and owned variants behave differently ({})", hex(s), who.join(", ")), s.len(), || json!({"kind": "cow", "hex": hex(s), "variant": 0}));
            }
        }
    }
}

fn check_cow_pair(a: &[u8], b: &[u8], acc: &mut Acc) {
    let want_eq = a == b;
    let want_cmp = a.cmp(b);
    let la: &'static [u8] = &[];
    for va in 0..3 {
        for vb in 0..3 {
            acc.nodes += 1;
            let (x, y) = (cow_of(a, la, va), cow_of(b, la, vb));
            let r = catch_unwind(AssertUnwindSafe(|| {
                let mut bad: Vec<&'static str> = Vec::new();
                if (x == y) != want_eq || (x != y) == want_eq {
                    bad.push("eq");
                }
                if x.partial_cmp(&y) != Some(want_cmp) || (x < y) != (want_cmp == Ordering::Less) || (x >= y) != (want_cmp != Ordering::Less) {
                    bad.push("cmp");
                }
                if (x == *b) != want_eq || (x == b.to_vec()) != want_eq || (x == Bytes::copy_from_slice(b)) != want_eq {
                    bad.push("eq-foreign");
                }
                if x.partial_cmp(b) != Some(want_cmp) || x.partial_cmp(&Bytes::copy_from_slice(b)) != Some(want_cmp) {
                    bad.push("cmp-foreign");
                }
                if want_eq && std_hash(&x) != std_hash(&y) {
                    bad.push("hash");
                }
                bad
            }));
            let rj = || json!({"kind": "cow-pair", "a": hex(a), "b": hex(b), "va": va, "vb": vb});
            match r {
                Err(e) => acc.v("cow.panic.compare".into(), format!("comparing {} with {} panicked: {}", hex(a), hex(b), panic_text(&*e)), a.len() + b.len(), rj),
                Ok(bad) => {
                    acc.c(if want_eq { "cow.pair.equal" } else { "cow.pair.unequal" });
                    for name in bad {
                        acc.v(
                            format!("cow.pair-{name}.{}-{}", VARIANTS[va], VARIANTS[vb]),
                            format!("{name} of {} CowBytes {} against {} {} disagrees with the byte strings (equal: {want_eq}, order: {want_cmp:?})", VARIANTS[va], hex(a), VARIANTS[vb], hex(b)),
                            a.len() + b.len(),
                            rj,
                        );
                    }
                }
            }
        }
    }
}

// ---------------------------------------------------------------- driver

pub fn run(args: &Args) -> Report {
    crate::sim::install_quiet_panic_hook();
    let mut rep = Report::new("C20", &args.tier, "enum", "exploration");
    let thorough = args.thorough();
    let threads = args.threads.max(1);
    rep.extra.insert("build_profile".into(), json!(if cfg!(debug_assertions) { "checked" } else { "release" }));

    if let Some(v) = args.replay_json() {
        let run_once = || -> (String, Acc) {
            match v["kind"].as_str() {
                Some("chain") => replay_chain(&v),
                Some("cow") => {
                    let mut acc = Acc::default();
                    check_cow_string(&unhex(v["hex"].as_str().expect("hex")), &mut acc);
                    (format!("{:?}", acc.cls), acc)
                }
                Some("cow-pair") => {
                    let mut acc = Acc::default();
                    check_cow_pair(&unhex(v["a"].as_str().expect("a")), &unhex(v["b"].as_str().expect("b")), &mut acc);
                    (format!("{:?}", acc.cls), acc)
                }
                other => panic!("replay: unknown kind {other:?}"),
            }
        };
        let (o1, a1) = run_once();
        let (o2, _) = run_once();
        rep.evaluations = 2;
        rep.distinct_nontrivial = 1;
        rep.rule = "replay of one recorded case, run twice".into();
        rep.extra.insert("replayed".into(), v.clone());
        rep.extra.insert("observation".into(), json!(o1));
        if o1 != o2 {
            rep.machinery_error = Some(format!("replay is not deterministic: {o1} vs {o2}"));
        }
        let mut keys: Vec<_> = a1.viol.into_iter().collect();
        keys.sort_by(|a, b| a.0.cmp(&b.0));
        for (k, (d, r, _, n)) in keys {
            rep.violation_n(k, d, r, n);
        }
        return rep;
    }

    // ---- LongChain: all operation sequences
    let depth_empty = if thorough { 5 } else { 4 };
    let depth_built = if thorough { 4 } else { 3 };
    // the coordinator explores the first SPLIT levels and hands every surviving
    // state to the workers
    const SPLIT: usize = 2;
    struct Item {
        start: usize,
        prefix: Vec<Op>,
        chain: Chain,
        bytes: Vec<u8>,
        depth: usize,
    }
    let mut total = Acc::default();
    let mut items: Vec<Item> = Vec::new();
    for start in 0..N_STARTS {
        let depth = if start == 0 { depth_empty } else { depth_built };
        let Some((chain, bytes)) = build_start(start, &mut total) else { continue };
        // the start state itself (built with in-range operations only) must be sound
        if check_start(start, &chain, &bytes, &mut total) {
            continue;
        }
        fn expand(start: usize, chain: &Chain, bytes: &[u8], prefix: &mut Vec<Op>, depth: usize, split: usize, items: &mut Vec<Item>, acc: &mut Acc) {
            if prefix.len() >= depth {
                return;
            }
            if prefix.len() == split {
                items.push(Item { start, prefix: prefix.clone(), chain: chain.clone(), bytes: bytes.to_vec(), depth });
                return;
            }
            let n = AsRef::<[CowBytes<'static>]>::as_ref(chain).len();
            let mut ops = Vec::new();
            ops_at(n, bytes.len(), &mut ops);
            for op in ops {
                let k = prefix.len();
                prefix.push(op);
                match step(chain, bytes, op, k, acc) {
                    Step::Go(c2, b2) => expand(start, &c2, &b2, prefix, depth, split, items, acc),
                    Step::AllowedPanic => {}
                    Step::Bad(key, d) => {
                        let desc = format!("{} — {d} [model before the last operation: {}]", describe_seq(start, prefix), hex(bytes));
                        let p: &[Op] = prefix;
                        // prefer short examples, and among them ones where bytes remain
                        acc.v(format!("chain.{key}"), desc, 2 * p.len() + usize::from(bytes.is_empty()), || seq_json(start, p));
                    }
                }
                prefix.pop();
            }
        }
        expand(start, &chain, &bytes, &mut Vec::new(), depth, SPLIT, &mut items, &mut total);
    }
    let next = AtomicUsize::new(0);
    let merged = Mutex::new(Acc::default());
    std::thread::scope(|s| {
        for _ in 0..threads {
            let (items, next, merged) = (&items, &next, &merged);
            s.spawn(move || {
                let mut acc = Acc::default();
                loop {
                    let i = next.fetch_add(1, AO::Relaxed);
                    let Some(it) = items.get(i) else { break };
                    let mut prefix = it.prefix.clone();
                    dfs(it.start, &it.chain, &it.bytes, &mut prefix, it.depth, &mut acc);
                }
                merged.lock().unwrap().merge(acc);
            });
        }
    });
    total.merge(merged.into_inner().unwrap());
    let chain_nodes = total.nodes;

    // ---- CowBytes
    let max_len = if thorough { 5 } else { 4 };
    let strings = cow_strings(max_len);
    let mut cow = Acc::default();
    for s in &strings {
        check_cow_string(s, &mut cow);
    }
    let pair_strings = cow_strings(if thorough { 4 } else { 3 });
    let merged = Mutex::new(Acc::default());
    let next = AtomicUsize::new(0);
    std::thread::scope(|s| {
        for _ in 0..threads {
            let (ps, next, merged) = (&pair_strings, &next, &merged);
            s.spawn(move || {
                let mut acc = Acc::default();
                loop {
                    let i = next.fetch_add(1, AO::Relaxed);
                    let Some(a) = ps.get(i) else { break };
                    for b in ps {
                        check_cow_pair(a, b, &mut acc);
                    }
                }
                merged.lock().unwrap().merge(acc);
            });
        }
    });
    cow.merge(merged.into_inner().unwrap());
    let cow_nodes = cow.nodes;
    total.merge(cow);

    rep.evaluations = total.nodes;
    rep.distinct_nontrivial = total.nodes;
    rep.exhaustive = true;
    rep.rule = "LongChain: every sequence of operations up to the depth bound from the empty chain and three pre-built chains; at each state the alphabet is push/insert of segments of 0..=3 bytes x {Temporary, Static} at every chunk index 0..=#chunks+1, pop, remove at every index 0..=#chunks+1, split_to/split_off/truncate/advance at EVERY byte position 0..=len+1, clear; after every operation len/remaining/is_empty/chunks/chunk()/two drains of a clone and the returned segment or half are compared with a Vec<u8>; a sequence ends at an allowed panic (after which the surviving value must still agree with itself: reported length = bytes held, no empty chunk) or at its first violation. Each evaluation is one (start, operation sequence), distinct by construction. CowBytes: every byte string up to the length bound over {00,61,ff} in five constructions through every accessor and every mutator index 0..=len+1; all ordered pairs of strings x 3x3 constructions through eq/partial_cmp/hash".into();
    rep.bounds.insert("chain_depth_from_empty".into(), json!(depth_empty));
    rep.bounds.insert("chain_depth_from_prebuilt".into(), json!(depth_built));
    rep.bounds.insert("chain_start_states".into(), json!(N_STARTS));
    rep.bounds.insert("segment_sizes".into(), json!([0, 1, 2, 3]));
    rep.bounds.insert("chain_sequences".into(), json!(chain_nodes));
    rep.bounds.insert("work_items".into(), json!(items.len()));
    rep.bounds.insert("cow_max_len".into(), json!(max_len));
    rep.bounds.insert("cow_strings".into(), json!(strings.len()));
    rep.bounds.insert("cow_pair_strings".into(), json!(pair_strings.len()));
    rep.bounds.insert("cow_evaluations".into(), json!(cow_nodes));
    rep.extra.insert("classes".into(), json!(total.cls));
    let read_consumes = total.cls.get("cow.read.consumes").copied().unwrap_or(0);
    let read_not = total.cls.get("cow.read.does-not-consume").copied().unwrap_or(0);
    rep.extra.insert(
        "note_io_read".into(),
        json!(format!(
            "io::Read::read on CowBytes consumed the returned bytes in {read_consumes} and did not in {read_not} of the (string, construction) cases; both variants behave alike, which is all the statement asks, so this is reported here and not as a violation"
        )),
    );
    rep.assumptions.push("chunk-indexed operations (insert, pop, remove) are modelled on the chunk boundaries the chain itself exposes through as_ref() before the operation (their concatenation having been checked against the model)".into());
    rep.assumptions.push("an out-of-range argument that does not panic must leave every observation unchanged; a returned half must then merely be coherent (length = contents, no empty chunk)".into());
    rep.assumptions.push("Debug output and is_temporary()/is_static() distinguish the variants by design and are not compared".into());
    rep.sample(seq_json(0, &[Op::Push { size: 2, st: false }, Op::Push { size: 3, st: true }, Op::SplitTo(3), Op::Truncate(3)]));
    rep.sample(seq_json(2, &[Op::Insert { idx: 1, size: 1, st: true }, Op::Advance(2), Op::Pop]));
    rep.sample(json!({"kind": "cow", "hex": "0061ff", "variant": 2}));
    rep.sample(json!({"kind": "cow-pair", "a": "61", "b": "6100", "va": 0, "vb": 1}));
    let mut keys: Vec<_> = total.viol.into_iter().collect();
    keys.sort_by(|a, b| a.0.cmp(&b.0));
    for (k, (d, r, _, n)) in keys {
        rep.violation_n(k, d, r, n);
    }
    // vacuity guard
    let sum = |suffix: &str| -> u64 { total.cls.iter().filter(|(k, _)| k.ends_with(suffix)).map(|(_, n)| *n).sum() };
    let (ok, pan) = (sum(".in-range.ok"), sum(".panics"));
    rep.extra.insert("chain_in_range_ok".into(), json!(ok));
    rep.extra.insert("out_of_range_panics".into(), json!(pan));
    for need in ["push.in-range.ok", "insert.in-range.ok", "pop.in-range.ok", "remove.in-range.ok", "split_to.in-range.ok", "split_off.in-range.ok", "truncate.in-range.ok", "advance.in-range.ok", "clear.in-range.ok", "cow.pair.equal", "cow.pair.unequal", "cow.accessors.ok"] {
        if total.cls.get(need).copied().unwrap_or(0) == 0 {
            rep.machinery_error = Some(format!("vacuous run: class {need} never occurred"));
        }
    }
    if pan == 0 {
        rep.machinery_error = Some("vacuous run: no out-of-range argument was ever refused".into());
    }
    rep
}
