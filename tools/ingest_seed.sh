#!/bin/bash
# tools/ingest_seed.sh <ID> <round> "<check ids>": copy the seed a sub-agent left in /tmp/wt<round>-<ID>/seed to
# seeded/<ID>-seed<round>/, remove its scratch worktree, then confirm it and run the named checks against it
# (serialised through a lock: confirm_seed.sh and seed_matrix.sh use fixed scratch paths).
set -u
ID=$1; R=$2; CH=$3
WT=/tmp/wt$R-$ID; D=/verif/seeded/$ID-seed$R
[ -d $WT/seed ] || { echo "no $WT/seed"; exit 1; }
mkdir -p $D; cp -r $WT/seed/. $D/; echo "$CH" > $D/checks.txt
git -C /repo worktree remove --force $WT; rm -rf $WT
(
  flock 9
  cd /verif
  tools/confirm_seed.sh seeded/$ID-seed$R > $D/confirm.log 2>&1
  ONLY=$ID-seed$R tools/seed_matrix.sh > $D/detect.log 2>&1
  rm -rf /tmp/mutm-harness/target /tmp/mutm-out-*
) 9>/tmp/seedq.lock
echo "done $ID-seed$R: $(jq -c '.confirmed' $D/confirm.json) $(jq -c '[.caught_by,.not_caught_by]' $D/detect.json)"
