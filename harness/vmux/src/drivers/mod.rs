use crate::Args;
use crate::report::Report;

pub mod c02;
pub mod c02t;
pub mod c03;
pub mod c04;
pub mod c05;
pub mod c06;
pub mod c07;
pub mod c08;
pub mod c08t;
pub mod c09;
pub mod common;
pub mod xfer;
pub mod c10;
pub mod c10t;
pub mod c11;
pub mod c12x;
pub mod c13;
pub mod c15;
pub mod c16;
pub mod c18;
pub mod c19_backoff;
pub mod c19b;
pub mod c20;

/// `check` hands a replay file to EVERY part of a property. The psim parts of C08, C02 and C10 answer only for their
/// own cases (the other one reports nothing instead of "case not in this tier's case list").
fn replay_of_other_part(args: &Args) -> bool {
    let case = args.replay_json().and_then(|j| j.get("case").and_then(|c| c.as_str().map(str::to_string)));
    case.is_some_and(|c| c.starts_with(c08t::LABEL_PREFIX) != args.id.ends_with('T'))
}

pub fn dispatch(args: &Args) -> Report {
    match args.id.as_str() {
        "C02" | "C02T" if replay_of_other_part(args) => Report::new("C02", &args.tier, "psim", "model_checking"),
        "C02" => c02::run(args),
        "C02T" => c02t::run(args),
        "C03" => c03::run(args),
        "C04" if replay_of_other_part(args) => Report::new("C04", &args.tier, "psim", "model_checking"),
        "C04" => c04::run(args),
        "C05" => c05::run(args),
        "C06" => c06::run(args),
        "C10" | "C10R" | "C10T" if replay_of_other_part(args) => Report::new("C10", &args.tier, "psim", "fault_enumeration"),
        "C03R" | "C10R" | "C15R" => c06::run_reuse(args),
        "C07" => c07::run(args),
        "C08" | "C08T" if replay_of_other_part(args) => Report::new("C08", &args.tier, "psim", "fault_enumeration"),
        "C08" => c08::run(args),
        "C08T" => c08t::run(args),
        "C09" => c09::run(args),
        "C10" => c10::run(args),
        "C10T" => c10t::run(args),
        "C11" => c11::run(args),
        "C12X" => c12x::run(args),
        "C13" => c13::run(args),
        "C15" => c15::run(args),
        "C16" => c16::run(args),
        "C18" => c18::run(args),
        "C19B" => c19b::run(args),
        "C20" => c20::run(args),
        other => panic!("no driver for {other}"),
    }
}
