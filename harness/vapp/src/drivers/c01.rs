//! C01 — end-to-end transparency of the tunnel (TCP and UDP, every entry point).
//!
//! Engine "e2e", level "exploration": the real `client_main_inner` and the real `run_listener`
//! run in this process on loopback sockets under a real multi-thread tokio runtime; the harness
//! plays the local clients and the targets. The finite scenario matrix is enumerated completely,
//! one execution per matrix point; the interleaving inside an execution is whatever the runtime
//! and the kernel produce (it is NOT owned; C02/C05/C13 decide the schedule-sensitive part).
//!
//! Oracle (written from the property statement, RFC 1928, the SOCKS4/4a memo, RFC 9110):
//! see `c01_tcp.rs` (streams, close choreography) and `c01_udp.rs` (datagram routing, header).
//!
//! False-alarm hygiene: every port the harness owns is bound to port 0 and read back; ports the
//! subject must bind itself are leased (bind-0-then-release) and a lost race (`AddrInUse` from
//! the subject) re-runs the scenario; every wait has a deadline >= 20 s; a deadline hit counts
//! only after the scenario failed again alone (nothing else running in this process).

use super::c01_env::Env;
use super::c01_proto as proto;
use super::c01_tcp::{self as tcp, Chunk, Dual, DualName, Entry, Failure, Fault, Listen, Mode, Order, Slow, SlowDir, TcpCase, TcpStats};
use super::c01_udp::{self as udp, Topo, UKind, UdpCase, UdpStats};
use crate::Args;
use crate::report::Report;
use serde_json::{Value, json};
use std::collections::{BTreeMap, HashSet};
use std::panic::{AssertUnwindSafe, catch_unwind};
use std::sync::atomic::{AtomicBool, AtomicU64, AtomicUsize, Ordering};
use std::sync::{Mutex, RwLock};
use std::time::Duration;

#[derive(Clone, Debug, PartialEq, Eq, Hash)]
enum Case {
    Tcp(TcpCase),
    Udp(UdpCase),
}

impl Case {
    fn to_json(&self) -> Value {
        match self {
            Case::Tcp(c) => c.to_json(),
            Case::Udp(c) => c.to_json(),
        }
    }
    fn from_json(v: &Value) -> Option<Self> {
        match v["kind"].as_str()? {
            "tcp" => TcpCase::from_json(v).map(Case::Tcp),
            "udp" => UdpCase::from_json(v).map(Case::Udp),
            _ => None,
        }
    }
    fn label(&self) -> String {
        match self {
            Case::Tcp(c) => c.label(),
            Case::Udp(c) => c.label(),
        }
    }
}

struct Outcome {
    failures: Vec<Failure>,
    obs: Value,
    port_race: bool,
    tcp: Option<TcpStats>,
    udp: Option<UdpStats>,
    wall: Duration,
    /// dual-stack sub-matrix: the direct control connection failed too (why)
    vacuous: Option<String>,
}

// ---------------------------------------------------------------------------------------
// panics anywhere in the process are recorded (tokio swallows panics of detached tasks)
// ---------------------------------------------------------------------------------------

static PANICS: Mutex<Vec<(String, String, String)>> = Mutex::new(Vec::new());

fn install_panic_hook() {
    std::panic::set_hook(Box::new(|info| {
        let thread = std::thread::current().name().unwrap_or("?").to_string();
        let loc = info.location().map_or_else(|| "?".to_string(), |l| format!("{}:{}", l.file(), l.line()));
        let msg = if let Some(s) = info.payload().downcast_ref::<&str>() {
            (*s).to_string()
        } else if let Some(s) = info.payload().downcast_ref::<String>() {
            s.clone()
        } else {
            "?".to_string()
        };
        let mut g = PANICS.lock().unwrap_or_else(std::sync::PoisonError::into_inner);
        if g.len() < 200 {
            g.push((thread, loc, msg));
        }
    }));
}

// ---------------------------------------------------------------------------------------
// one execution
// ---------------------------------------------------------------------------------------

static UNIQ: AtomicU64 = AtomicU64::new(0);
/// above this many ephemeral ports held in TIME_WAIT (of ~28000) new scenarios wait
const TIME_WAIT_HIGH: u64 = 20000;

fn exec_once(env: &Env, case: &Case, deadline_s: u64, short_udp: bool) -> Outcome {
    let uniq = UNIQ.fetch_add(1, Ordering::SeqCst);
    // (slow-reader scenarios: never less than their stall and the time allowed for the transfer)
    let deadline_s = match case {
        Case::Tcp(c) => c.deadline_s(deadline_s),
        Case::Udp(_) => deadline_s,
    };
    let workers = match case {
        Case::Tcp(c) => 2 + c.conc.min(2),
        Case::Udp(_) => 2,
    };
    let r = catch_unwind(AssertUnwindSafe(|| {
        let rt = tokio::runtime::Builder::new_multi_thread().worker_threads(workers).thread_name(format!("c01-x{uniq}")).enable_all().build().expect("tokio runtime");
        let out = rt.block_on(async {
            match case {
                Case::Tcp(c) => {
                    let o = tcp::run_tcp(&Mode::Penguin(env), c, deadline_s, uniq).await;
                    Outcome { failures: o.failures, obs: o.obs, port_race: o.port_race, tcp: Some(o.stats), udp: None, wall: o.wall, vacuous: o.vacuous }
                }
                Case::Udp(c) => {
                    let o = udp::run_udp(env, c, deadline_s, short_udp).await;
                    Outcome { failures: o.failures, obs: o.obs, port_race: o.port_race, tcp: None, udp: Some(o.stats), wall: o.wall, vacuous: None }
                }
            }
        });
        rt.shutdown_background();
        out
    }));
    r.unwrap_or_else(|_| Outcome {
        failures: vec![Failure { key: "machinery".into(), desc: format!("{}: the harness itself panicked", case.label()), deadline: false }],
        obs: json!({"machinery": true}),
        port_race: false,
        tcp: None,
        udp: None,
        wall: Duration::ZERO,
        vacuous: None,
    })
}

/// Run with re-runs while the subject loses the race for a leased port.
fn exec(env: &Env, case: &Case, deadline_s: u64, short_udp: bool, tally: &Tally) -> Outcome {
    let mut last = None;
    for attempt in 0..8u64 {
        // keep clear of ephemeral-port exhaustion (every closed connection lingers 60 s in TIME_WAIT)
        let mut waited = 0u64;
        while waited < 90_000 && super::c01_env::ephemeral_ports_in_time_wait().is_some_and(|tw| tw > TIME_WAIT_HIGH) {
            std::thread::sleep(Duration::from_millis(250));
            waited += 250;
        }
        tally.throttle_ms.fetch_add(waited, Ordering::Relaxed);
        if attempt > 0 {
            std::thread::sleep(Duration::from_millis(20 * attempt));
        }
        tally.executions.fetch_add(1, Ordering::Relaxed);
        let o = exec_once(env, case, deadline_s, short_udp);
        if !o.port_race {
            return o;
        }
        tally.port_races.fetch_add(1, Ordering::Relaxed);
        last = Some(o);
    }
    let mut o = last.expect("at least one run");
    o.failures = vec![Failure { key: "machinery".into(), desc: format!("{}: the subject lost the race for its listening port eight times in a row", case.label()), deadline: false }];
    o
}

/// Key without its trailing length class: what "the same deadline failure" means when deciding
/// whether another confirmation run (alone, full deadline) is worth its 20+ seconds.
fn coarse(key: &str) -> String {
    // (unsendable-destination scenarios: the variants of the second destination are one failure)
    for head in [udp::UNSEND_LOST_KEY, udp::UNSEND_PORT_KEY] {
        if key.strip_prefix(head).is_some_and(|rest| rest.starts_with('.')) {
            return head.to_string();
        }
    }
    match key.rsplit_once(".len") {
        Some((head, _)) => head.to_string(),
        None => key.to_string(),
    }
}

#[derive(Default)]
struct Tally {
    executions: AtomicU64,
    port_races: AtomicU64,
    isolation_runs: AtomicU64,
    deadline_not_reproduced: AtomicU64,
    counted_without_rerun: AtomicU64,
    throttle_ms: AtomicU64,
}

#[derive(Default)]
struct Sums {
    tcp: TcpStats,
    udp: UdpStats,
    tcp_cases_clean: u64,
    udp_cases_clean: u64,
    refuse_cases_clean: u64,
    /// (also counted in tcp_cases_clean / udp_cases_clean)
    v6_cases_clean: u64,
    after_half_cases_clean: u64,
    slow_reader_cases_clean: u64,
    with_request_cases_clean: u64,
    odd_cases_clean: u64,
    stray_cases_clean: u64,
    unsendable_cases_clean: u64,
    overlong_cases_clean: u64,
    newcomer_cases_clean: u64,
    families_cases_clean: u64,
    dual_listener_cases_clean: u64,
    dual_cases_clean: u64,
    dual_cases_vacuous: u64,
    max_wall_ms: u128,
    flaky: Vec<Value>,
    unconfirmed: u64,
    unconfirmed_list: Vec<Value>,
}

fn add_tcp(a: &mut TcpStats, b: &TcpStats) {
    a.bytes_verified += b.bytes_verified;
    a.conns_verified += b.conns_verified;
    a.halfclose_eof_seen += b.halfclose_eof_seen;
    a.end_eof += b.end_eof;
    a.end_reset += b.end_reset;
    a.refuse_granted_then_closed += b.refuse_granted_then_closed;
    a.refuse_end_eof += b.refuse_end_eof;
    a.refuse_end_reset += b.refuse_end_reset;
    a.refuse_refused_reply += b.refuse_refused_reply;
    a.refuse_closed_before_reply += b.refuse_closed_before_reply;
    a.after_halfclose_closed += b.after_halfclose_closed;
    a.after_halfclose_filler_read += b.after_halfclose_filler_read;
    for (k, n) in &b.after_halfclose_end_kinds {
        *a.after_halfclose_end_kinds.entry(k.clone()).or_insert(0) += n;
    }
    a.slow_reader_backed_up += b.slow_reader_backed_up;
    a.odd_bystander_completed += b.odd_bystander_completed;
    a.odd_later_connection_worked += b.odd_later_connection_worked;
    for (k, n) in &b.odd_request_ends {
        *a.odd_request_ends.entry(k.clone()).or_insert(0) += n;
    }
    if b.slow_reader_written_at_first_read_max > 0 {
        a.slow_reader_written_at_first_read_min = if a.slow_reader_written_at_first_read_max == 0 { b.slow_reader_written_at_first_read_min } else { a.slow_reader_written_at_first_read_min.min(b.slow_reader_written_at_first_read_min) };
        a.slow_reader_written_at_first_read_max = a.slow_reader_written_at_first_read_max.max(b.slow_reader_written_at_first_read_max);
    }
}

fn add_udp(a: &mut UdpStats, b: &UdpStats) {
    a.requests_at_target += b.requests_at_target;
    a.replies_verified += b.replies_verified;
    a.socks_headers_parsed += b.socks_headers_parsed;
    a.socks_header_addr_is_target += b.socks_header_addr_is_target;
    a.socks_header_addr_is_client += b.socks_header_addr_is_client;
    a.socks_header_addr_other += b.socks_header_addr_other;
    a.socks_header_addr_ipv4_mapped += b.socks_header_addr_ipv4_mapped;
    a.retransmissions += b.retransmissions;
    a.duplicates += b.duplicates;
    a.target_sources += b.target_sources;
    a.unsendable_judged += b.unsendable_judged;
    a.unsendable_answer_late += b.unsendable_answer_late;
    a.newcomer_judged += b.newcomer_judged;
    a.newcomer_keepalives_unanswered += b.newcomer_keepalives_unanswered;
    a.overlong_completed += b.overlong_completed;
    a.overlong_tcp_bytes_echoed += b.overlong_tcp_bytes_echoed;
}

// ---------------------------------------------------------------------------------------
// the matrix
// ---------------------------------------------------------------------------------------

struct Bounds {
    /// stream lengths used for every (entry, connections, chunking, close order)
    tcp_lens: Vec<usize>,
    /// additional stream length used only where connections == 1 and chunking == one-write
    /// (all entry points x all close orders); None: no such restriction-bound length
    tcp_len_window: Option<usize>,
    /// the real-time UDP scenarios (steady sender, idle client) are part of the matrix
    slow_udp: bool,
    concs: Vec<usize>,
    udp_lens: Vec<usize>,
    deadline_s: u64,
    parallel: usize,
    /// the IPv6 loopback address exists here: the IPv6-literal sub-matrix is part of the matrix
    ipv6_loopback: bool,
    /// (client->target, target->client) lengths of the IPv6-literal sub-matrix
    tcp_v6_lens: Vec<(usize, usize)>,
    /// [::1] exists for UDP sockets too: the two-address-families topologies are part of the matrix
    udp_two_families: bool,
    /// SOCKS5 UDP with the SOCKS listener on the dual-stack wildcard address [::]: why the
    /// topologies with a local application that uses IPv4 (.0), resp. IPv6 (.1), cannot be run
    /// here (None: they are part of the matrix)
    udp_dual_listener_skip: (Option<String>, Option<String>),
    /// payload lengths of the dual-stack-listener topologies with 1 local client (the ordinary
    /// UDP lengths and `DUAL_LISTENER_LENS`), and with 3 local clients
    udp_dual_listener_lens: Vec<usize>,
    udp_dual_listener_lens_3: Vec<usize>,
    /// (client->target, target->client) lengths of the dual-stack-name sub-matrix
    tcp_dual_lens: Vec<(usize, usize)>,
    /// "close after half-close" sub-matrix (the two close orders of `Order::AFTER_HALF`, every
    /// entry point, one-write chunking): stream lengths per direction with 1 connection ...
    after_half_lens: Vec<usize>,
    /// ... and the one (client->target = target->client) length that is run with 3 connections
    after_half_conc3_len: Option<usize>,
    /// slow-reader sub-matrix: length of the payload the slow reader is sent ...
    slow_reader_len: usize,
    /// ... seconds it waits before its first read ...
    slow_reader_stall_s: u64,
    /// ... and the points (entry point, the writing end finishes with a half-close (true) / a close
    /// of both directions (false), simultaneous connections), each run as a download and as an upload
    slow_reader_points: Vec<(Entry, bool, usize)>,
    /// with-request sub-matrix (the local client sends the first bytes of its payload in the same
    /// write as its SOCKS CONNECT request): client->target lengths (none is 0: nothing would travel
    /// with the request) ...
    with_request_c2t_lens: Vec<usize>,
    /// ... target->client lengths ...
    with_request_t2c_lens: Vec<usize>,
    /// ... and simultaneous connections
    with_request_concs: Vec<usize>,
    /// odd-target-host sub-matrix: per entry point, how many hosts of `tcp::odd_hosts()` (from the
    /// front of the list, those the entry point can express) are run; None: all of them
    odd_hosts_per_entry: Vec<(Entry, Option<usize>)>,
}

/// payload lengths every dual-stack-listener topology is run with, in both tiers (a reply header
/// that is 12 octets short of what its ATYP announces shows differently below and above 12 octets)
const DUAL_LISTENER_LENS: [usize; 4] = [0, 3, 32, 1400];

/// close order, chunking and connections of the dual-stack-name sub-matrix
const DUAL_ORDER: Order = Order::ClientHalf;
const DUAL_CHUNK: Chunk = Chunk::One;
const DUAL_CONC: usize = 1;

/// pool threads added for the slow-reader sub-matrix (at most one per scenario of it)
const SLOW_READER_THREADS: usize = 4;

/// chunking and connections of the "close after half-close" sub-matrix
const AFTER_HALF_CHUNK: Chunk = Chunk::One;
const AFTER_HALF_CONC_MANY: usize = 3;

/// close order, chunking and connections of the IPv6-literal sub-matrix
const V6_ORDER: Order = Order::ClientHalf;
const V6_CHUNK: Chunk = Chunk::One;
const V6_CONC: usize = 1;

fn bounds(args: &Args) -> Bounds {
    let mut b = bounds_of_tier(args);
    let mut lens: Vec<usize> = b.udp_lens.iter().copied().chain(DUAL_LISTENER_LENS).collect();
    lens.sort_unstable();
    lens.dedup();
    b.udp_dual_listener_lens = lens;
    b.udp_dual_listener_lens_3 = DUAL_LISTENER_LENS.to_vec();
    b.udp_dual_listener_skip = (udp::dual_listener_unavailable(false), udp::dual_listener_unavailable(true));
    b
}

/// Slow-reader points of the thorough tier: every entry point of `one` with 1 connection and both
/// ways of finishing, every entry point of `two` also with 2 simultaneous connections (half-close).
fn slow_points(one: &[Entry], two: &[Entry]) -> Vec<(Entry, bool, usize)> {
    let mut v = Vec::new();
    for &e in one {
        v.push((e, true, 1));
        v.push((e, false, 1));
    }
    for &e in two {
        v.push((e, true, 2));
    }
    v
}

fn bounds_of_tier(args: &Args) -> Bounds {
    // the default receive window is 512 frames and the bridges read at most 8 KiB per frame, so
    // 512 * 8 KiB = 4 MiB is the least stream length that certainly needs a window update
    if args.thorough() {
        Bounds { tcp_lens: vec![0, 1, 4099, 3 * 512 * 8192 + 5], tcp_len_window: None, slow_udp: true, concs: vec![1, 3, 5], udp_lens: vec![0, 1, 2, 3, 4, 5, 1400, 1472, 9000, 65000], deadline_s: 40, parallel: args.threads.clamp(1, 8), ipv6_loopback: tcp::ipv6_loopback(), tcp_v6_lens: vec![(1, 1), (70001, 70001)], udp_two_families: udp::ipv6_loopback(), udp_dual_listener_skip: (None, None), udp_dual_listener_lens: Vec::new(), udp_dual_listener_lens_3: Vec::new(), tcp_dual_lens: vec![(4099, 4099)], after_half_lens: vec![1, 3 * 512 * 8192 + 5], after_half_conc3_len: Some(4099), slow_reader_len: 48 << 20, slow_reader_stall_s: 5, slow_reader_points: slow_points(&[Entry::TcpRemote, Entry::UnixRemote, Entry::Socks5Ip, Entry::Socks5Domain, Entry::HttpConnect], &[Entry::TcpRemote, Entry::Socks5Ip]), with_request_c2t_lens: vec![1, 999, 4099, 70001], with_request_t2c_lens: vec![0, 1, 4099, 70001], with_request_concs: vec![1, 3], odd_hosts_per_entry: tcp::ODD_ENTRIES.iter().map(|e| (*e, None)).collect() }
    } else {
        // 70001 B: nine 8 KiB frames, everywhere; 4198403 B (one window + 4099 B: needs a window update): sub-matrix
        Bounds { tcp_lens: vec![0, 1, 70001], tcp_len_window: Some(512 * 8192 + 4099), slow_udp: false, concs: vec![1, 3], udp_lens: vec![0, 1, 3, 4, 1400], deadline_s: 30, parallel: args.threads.clamp(1, 8), ipv6_loopback: tcp::ipv6_loopback(), tcp_v6_lens: vec![(1, 1), (70001, 70001)], udp_two_families: udp::ipv6_loopback(), udp_dual_listener_skip: (None, None), udp_dual_listener_lens: Vec::new(), udp_dual_listener_lens_3: Vec::new(), tcp_dual_lens: vec![(4099, 4099)], after_half_lens: vec![1, 512 * 8192 + 4099], after_half_conc3_len: Some(70001), slow_reader_len: 24 << 20, slow_reader_stall_s: 3, slow_reader_points: vec![(Entry::TcpRemote, true, 1), (Entry::Socks5Ip, false, 2)], with_request_c2t_lens: vec![1, 4099, 70001], with_request_t2c_lens: vec![0, 1, 70001], with_request_concs: vec![1, 3], odd_hosts_per_entry: vec![(Entry::Socks5Domain, None), (Entry::Socks4a, Some(ODD_QUICK_HANDFUL)), (Entry::HttpConnect, Some(ODD_QUICK_HANDFUL))] }
    }
}

impl Bounds {
    /// why a dual-stack-listener topology is not part of the matrix here (None: it is, or it is not one)
    fn dual_listener_skip(&self, topo: Topo) -> Option<&String> {
        match topo.dual_listener() {
            Some(false) => self.udp_dual_listener_skip.0.as_ref(),
            Some(true) => self.udp_dual_listener_skip.1.as_ref(),
            None => None,
        }
    }
    /// "ran" / "skipped: why", per address family of the local application
    fn dual_listener_status(&self) -> Value {
        let st = |o: &Option<String>| o.as_ref().map_or_else(|| "ran".to_string(), |w| format!("skipped: {w}"));
        json!({"ipv4-application": st(&self.udp_dual_listener_skip.0), "ipv6-application": st(&self.udp_dual_listener_skip.1)})
    }
}

/// The dual-stack-name sub-matrix (run by a child process inside a private mount namespace).
fn dual_matrix(b: &Bounds) -> Vec<Case> {
    let mut v = Vec::new();
    for name in DualName::ALL {
        for listen in Listen::ALL {
            for entry in tcp::DUAL_ENTRIES {
                for &(c2t, t2c) in &b.tcp_dual_lens {
                    v.push(Case::Tcp(TcpCase { entry, c2t, t2c, chunk: DUAL_CHUNK, order: DUAL_ORDER, conc: DUAL_CONC, dual: Some(Dual { name, listen }), slow: None, odd: None }));
                }
            }
        }
    }
    v
}

/// The slow-reader sub-matrix: one end does not read for a while, the other end writes (16 KiB
/// writes, 1 ms apart: `Chunk::K16Paced` says why) more than all the buffers on the way hold, finishes (half-close / close) and the slow
/// end then reads everything to the end. The other direction carries `SLOW_REVERSE_LEN` bytes.
fn slow_matrix(b: &Bounds) -> Vec<TcpCase> {
    let mut v = Vec::new();
    for dir in SlowDir::ALL {
        for &(entry, half, conc) in &b.slow_reader_points {
            let order = dir.orders()[usize::from(!half)];
            let (c2t, t2c) = match dir {
                SlowDir::Download => (tcp::SLOW_REVERSE_LEN, b.slow_reader_len),
                SlowDir::Upload => (b.slow_reader_len, tcp::SLOW_REVERSE_LEN),
            };
            v.push(TcpCase { entry, c2t, t2c, chunk: tcp::SLOW_CHUNK, order, conc, dual: None, slow: Some(Slow { dir, stall_s: b.slow_reader_stall_s }), odd: None });
        }
    }
    v
}

/// The with-request sub-matrix ("optimistic data"): every local client of the rest of the matrix
/// works in lock-step (request, wait for the reply, payload). Here the first
/// min(length, `tcp::WITH_REQUEST_HEAD`) bytes of the client->target payload travel in the same
/// write as the SOCKS CONNECT request, the reply is read afterwards and the rest of the payload
/// follows in one write: a proxy that parses the request through a read buffer has those bytes in
/// that buffer and must hand them on. SOCKS entry points only (`tcp::WITH_REQUEST_ENTRIES`), the
/// close orders in which the client writes its whole payload at once (`tcp::WITH_REQUEST_ORDERS`).
fn with_request_matrix(b: &Bounds) -> Vec<TcpCase> {
    let mut v = Vec::new();
    for entry in tcp::WITH_REQUEST_ENTRIES {
        for &conc in &b.with_request_concs {
            for order in tcp::WITH_REQUEST_ORDERS {
                for &c2t in b.with_request_c2t_lens.iter().filter(|l| **l > 0) {
                    for &t2c in &b.with_request_t2c_lens {
                        v.push(TcpCase { entry, c2t, t2c, chunk: Chunk::WithRequest, order, conc, dual: None, slow: None, odd: None });
                    }
                }
            }
        }
    }
    v
}

/// quick tier: hosts of the odd-target-host sub-matrix at the entry points other than SOCKS5-domain
const ODD_QUICK_HANDFUL: usize = 5;

/// The odd-target-host sub-matrix ("odd target host next to a bystander", see `tcp::ODD_KEY`):
/// entry point at which the local application names the host x odd host, completely enumerated.
fn odd_matrix(b: &Bounds) -> Vec<TcpCase> {
    let mut v = Vec::new();
    for &(entry, cap) in &b.odd_hosts_per_entry {
        for (host, _) in tcp::odd_hosts().into_iter().filter(|(h, _)| tcp::odd_expressible(entry, h)).take(cap.unwrap_or(usize::MAX)) {
            v.push(TcpCase { entry, c2t: tcp::ODD_LEN, t2c: tcp::ODD_LEN, chunk: tcp::ODD_CHUNK, order: tcp::ODD_ORDER, conc: 1, dual: None, slow: None, odd: Some(host) });
        }
    }
    v
}

fn matrix(b: &Bounds) -> Vec<Case> {
    let mut v = Vec::new();
    // they start first and run beside everything else (see `weight` and the pool)
    v.extend(slow_matrix(b).into_iter().map(Case::Tcp));
    v.extend(with_request_matrix(b).into_iter().map(Case::Tcp));
    v.extend(odd_matrix(b).into_iter().map(Case::Tcp));
    for entry in Entry::ALL {
        for &conc in &b.concs {
            for chunk in Chunk::ALL {
                let mut lens = b.tcp_lens.clone();
                if let Some(w) = b.tcp_len_window {
                    if conc == 1 && chunk == Chunk::One {
                        lens.push(w);
                    }
                }
                for order in Order::ALL {
                    for &c2t in &lens {
                        if order == Order::Refuse {
                            // no target: the target->client payload does not exist
                            v.push(Case::Tcp(TcpCase { entry, c2t, t2c: 0, chunk, order, conc, dual: None, slow: None, odd: None }));
                            continue;
                        }
                        for &t2c in &lens {
                            v.push(Case::Tcp(TcpCase { entry, c2t, t2c, chunk, order, conc, dual: None, slow: None, odd: None }));
                        }
                    }
                }
            }
        }
    }
    // "close after half-close": one end half-closes, the other keeps sending, the first end closes
    for entry in Entry::ALL {
        for order in Order::AFTER_HALF {
            for &c2t in &b.after_half_lens {
                for &t2c in &b.after_half_lens {
                    v.push(Case::Tcp(TcpCase { entry, c2t, t2c, chunk: AFTER_HALF_CHUNK, order, conc: 1, dual: None, slow: None, odd: None }));
                }
            }
            if let Some(l) = b.after_half_conc3_len {
                v.push(Case::Tcp(TcpCase { entry, c2t: l, t2c: l, chunk: AFTER_HALF_CHUNK, order, conc: AFTER_HALF_CONC_MANY, dual: None, slow: None, odd: None }));
            }
        }
    }
    if b.ipv6_loopback {
        // target on [::1], named as an IPv6 literal by the entry points that can express one
        for entry in Entry::V6 {
            for &(c2t, t2c) in &b.tcp_v6_lens {
                v.push(Case::Tcp(TcpCase { entry, c2t, t2c, chunk: V6_CHUNK, order: V6_ORDER, conc: V6_CONC, dual: None, slow: None, odd: None }));
            }
        }
    }
    // (they sleep most of their time: first among the ordinary UDP scenarios)
    for kind in UKind::ALL {
        for topo in Topo::UNSENDABLE {
            let c = UdpCase { kind, size: udp::UNSEND_LEN, topo };
            if c.valid() {
                v.push(Case::Udp(c));
            }
        }
    }
    // a TCP remote beside a UDP remote whose target host is too long for a datagram frame (and the control)
    for kind in UKind::ALL {
        for topo in Topo::OVERLONG {
            let c = UdpCase { kind, size: udp::OVERLONG_LEN, topo };
            if c.valid() {
                v.push(Case::Udp(c));
            }
        }
    }
    for kind in UKind::ALL {
        for topo in Topo::STRAY {
            let c = UdpCase { kind, size: udp::STRAY_LEN, topo };
            if c.valid() {
                v.push(Case::Udp(c));
            }
        }
    }
    if b.udp_two_families {
        for kind in UKind::ALL {
            for topo in Topo::FAMILIES {
                let c = UdpCase { kind, size: udp::FAMILIES_LEN, topo };
                if c.valid() {
                    v.push(Case::Udp(c));
                }
            }
        }
    }
    for kind in UKind::ALL {
        for topo in Topo::DUAL_LISTENER {
            if b.dual_listener_skip(topo).is_some() {
                continue;
            }
            for &size in if topo.dual_listener_clients() == 1 { &b.udp_dual_listener_lens } else { &b.udp_dual_listener_lens_3 } {
                let c = UdpCase { kind, size, topo };
                if c.valid() {
                    v.push(Case::Udp(c));
                }
            }
        }
    }
    for kind in UKind::ALL {
        for topo in Topo::ALL {
            for &size in &b.udp_lens {
                let c = UdpCase { kind, size, topo };
                if c.valid() {
                    v.push(Case::Udp(c));
                }
            }
        }
    }
    if b.slow_udp {
        for kind in UKind::ALL {
            for topo in Topo::SLOW {
                v.push(Case::Udp(UdpCase { kind, size: udp::SLOW_LEN, topo }));
            }
        }
    } else {
        // quick tier: the one-pruned-then-newcomer scenario (the longest: first) and the two idle scenarios (one prune
        // timeout + a little: the server's forwarder is gone; two prune timeouts + a little: the client's map entry is
        // gone as well); they start first, on threads of their own, and run beside everything else
        for kind in UKind::ALL {
            v.push(Case::Udp(UdpCase { kind, size: udp::SLOW_LEN, topo: Topo::PruneThenNewcomer }));
        }
        for kind in UKind::ALL {
            v.push(Case::Udp(UdpCase { kind, size: udp::SLOW_LEN, topo: Topo::Idle }));
            v.push(Case::Udp(UdpCase { kind, size: udp::SLOW_LEN, topo: Topo::IdleGap }));
        }
    }
    v
}

/// Big transfers first (they dominate the wall time), so that the pool stays busy to the end.
fn weight(c: &Case) -> usize {
    match c {
        // (they spend their first seconds waiting: right after the real-time UDP scenarios)
        Case::Tcp(t) if t.slow.is_some() => usize::MAX - 1,
        Case::Tcp(t) => (t.c2t + t.t2c) * t.conc + 1,
        Case::Udp(u) if u.topo.slow() => usize::MAX,
        Case::Udp(_) => usize::MAX / 2,
    }
}

// ---------------------------------------------------------------------------------------
// self-test of the oracle against a harness-made relay with injected faults
// ---------------------------------------------------------------------------------------

/// slow-reader part of the self-test: payload length (more than four socket buffers hold) and stall
const SELF_TEST_SLOW_LEN: usize = 24 << 20;
const SELF_TEST_SLOW_STALL_S: u64 = 1;

fn control_self_test() -> Result<(), String> {
    let rt = tokio::runtime::Builder::new_multi_thread().worker_threads(3).thread_name("c01-selftest").enable_all().build().map_err(|e| format!("runtime: {e}"))?;
    let res = rt.block_on(async {
        let mk = |order, c2t, t2c, conc| TcpCase { entry: Entry::TcpRemote, c2t, t2c, chunk: Chunk::Seven, order, conc, dual: None, slow: None, odd: None };
        // a faithful relay is indistinguishable from a direct connection: the oracle must be silent
        for order in [Order::ClientHalf, Order::TargetHalf, Order::ClientClose, Order::TargetClose] {
            for (a, b) in [(0usize, 0usize), (1, 1), (70001, 5), (0, 70001)] {
                let c = mk(order, a, b, 3);
                let o = tcp::run_tcp(&Mode::Control(Fault::Faithful), &c, 20, 0).await;
                if !o.failures.is_empty() {
                    return Err(format!("oracle raises an alarm on a faithful relay ({}): {} / {}", c.label(), o.failures[0].key, o.failures[0].desc));
                }
                if o.stats.conns_verified != 3 {
                    return Err(format!("oracle did not verify the connections of {}", c.label()));
                }
            }
        }
        // close after half-close: a faithful relay takes the local connection away when the target is gone
        for order in Order::AFTER_HALF {
            for (a, b, conc) in [(1usize, 1usize, 1usize), (70001, 5, 3), (0, 70001, 1)] {
                let c = mk(order, a, b, conc);
                let o = tcp::run_tcp(&Mode::Control(Fault::Faithful), &c, 20, 0).await;
                if !o.failures.is_empty() {
                    return Err(format!("oracle raises an alarm on a faithful relay ({}): {} / {}", c.label(), o.failures[0].key, o.failures[0].desc));
                }
                if o.stats.conns_verified != conc as u64 || o.stats.after_halfclose_closed != conc as u64 {
                    return Err(format!("oracle did not verify the connections of {}", c.label()));
                }
            }
        }
        // slow reader: a faithful relay under back-pressure is still indistinguishable from a direct
        // connection; one that cuts a stream short when its queue is full is caught (side by side)
        let slow = |dir: SlowDir, half: bool| {
            let (c2t, t2c) = if dir == SlowDir::Download { (tcp::SLOW_REVERSE_LEN, SELF_TEST_SLOW_LEN) } else { (SELF_TEST_SLOW_LEN, tcp::SLOW_REVERSE_LEN) };
            TcpCase { entry: Entry::TcpRemote, c2t, t2c, chunk: Chunk::K16, order: dir.orders()[usize::from(!half)], conc: 1, dual: None, slow: Some(Slow { dir, stall_s: SELF_TEST_SLOW_STALL_S }), odd: None }
        };
        let (down, up, cut) = (slow(SlowDir::Download, true), slow(SlowDir::Upload, false), slow(SlowDir::Download, false));
        let dl_s = down.deadline_s(20);
        let (o_down, o_up, o_cut) = tokio::join!(tcp::run_tcp(&Mode::Control(Fault::Faithful), &down, dl_s, 0), tcp::run_tcp(&Mode::Control(Fault::Faithful), &up, dl_s, 0), tcp::run_tcp(&Mode::Control(Fault::TruncateWhenBackedUp), &cut, dl_s, 0));
        for (c, o) in [(&down, &o_down), (&up, &o_up)] {
            if !o.failures.is_empty() {
                return Err(format!("oracle raises an alarm on a faithful relay ({}): {} / {}", c.label(), o.failures[0].key, o.failures[0].desc));
            }
            if o.stats.conns_verified != 1 {
                return Err(format!("oracle did not verify the connections of {}", c.label()));
            }
            if o.stats.slow_reader_backed_up != 1 {
                return Err(format!("{}: the writer was not held back by the slow reader ({} bytes written at the first read): the scenario does not do what it is meant to do", c.label(), o.stats.slow_reader_written_at_first_read_max));
            }
        }
        if !o_cut.failures.iter().any(|f| f.key.starts_with("tcp.data.t2c.truncated.") && f.key.ends_with(SlowDir::Download.key_suffix())) {
            return Err(format!("oracle misses a relay that cuts a download short when the local client does not read: {:?}", o_cut.failures.iter().map(|f| &f.key).collect::<Vec<_>>()));
        }
        // ... and one that keeps swallowing what the local connection sends is caught (2 s deadline)
        let c = mk(Order::TargetHalfThenClose, 1, 1, 1);
        let o = tcp::run_tcp(&Mode::Control(Fault::SwallowWhenTargetGone), &c, 2, 0).await;
        if !o.failures.iter().any(|f| f.deadline && f.key.starts_with("tcp.hang.")) {
            return Err(format!("oracle misses a relay that leaves the local connection hanging after the target's half-close and close: {:?}", o.failures.iter().map(|f| &f.key).collect::<Vec<_>>()));
        }
        let c = mk(Order::ClientHalf, 9000, 9000, 2);
        let o = tcp::run_tcp(&Mode::Control(Fault::FlipFirstByte), &c, 20, 0).await;
        if !o.failures.iter().any(|f| f.key.starts_with("tcp.data.c2t.corrupt")) {
            return Err(format!("oracle misses a flipped byte: {:?}", o.failures.iter().map(|f| &f.key).collect::<Vec<_>>()));
        }
        let o = tcp::run_tcp(&Mode::Control(Fault::CloseBothOnHalfClose), &c, 20, 0).await;
        if !o.failures.iter().any(|f| f.key.starts_with("tcp.data.t2c.truncated") || f.key.starts_with("tcp.write-error.target")) {
            return Err(format!("oracle misses a relay that closes both directions on a half-close: {:?}", o.failures.iter().map(|f| &f.key).collect::<Vec<_>>()));
        }
        let c = mk(Order::TargetHalf, 9000, 9000, 1);
        let o = tcp::run_tcp(&Mode::Control(Fault::CloseBothOnHalfClose), &c, 20, 0).await;
        if o.failures.is_empty() {
            return Err("oracle misses a relay that closes both directions on the target's half-close".into());
        }
        Ok(())
    });
    rt.shutdown_background();
    res
}

// ---------------------------------------------------------------------------------------
// dual-stack names: a sub-run in a child process with a private mount namespace
// ---------------------------------------------------------------------------------------
//
// What a host name resolves to is decided by /etc/hosts (through glibc's `files` NSS module). The
// sub-matrix needs names with BOTH loopback addresses, so the vapp binary is run once more as a
// child; the child, before anything else, leaves the mount namespace of everybody else
// (`unshare(CLONE_NEWNS)`, propagation private) and bind-mounts a hosts file of its own over
// /etc/hosts. Nothing outside the child can see that mount, and it ends with the child. If any
// step is not possible here (no privilege, no [::1], a resolver that does not read /etc/hosts) the
// sub-matrix is SKIPPED and the evidence says why: not a violation, not a machinery error.

/// set in the child: run the dual-stack sub-matrix (or the cases of `DUAL_CASES_ENV`) in a private mount namespace
const DUAL_CHILD_ENV: &str = "VERIF_C01_DUAL_CHILD";
/// optional, for the child: `{"cases": [case JSON ...], "runs": N}` instead of the whole sub-matrix
const DUAL_CASES_ENV: &str = "VERIF_C01_DUAL_CASES";
/// testing aid: the unshare step reports failure (what an unprivileged process would see)
const DUAL_FORCE_FAIL_ENV: &str = "VERIF_C01_DUAL_FORCE_UNSHARE_FAIL";

fn dual_tmp_dir(pid: u32) -> std::path::PathBuf {
    std::env::temp_dir().join(format!("verif-c01-dual-{pid}"))
}

fn errno_text(what: &str) -> String {
    format!("{what}: {}", std::io::Error::last_os_error())
}

/// Steps (a): private mount namespace with a hosts file of our own over /etc/hosts.
fn dual_enter_namespace() -> Result<(), String> {
    use std::ffi::CString;
    if !tcp::ipv6_loopback() {
        return Err("this machine has no IPv6 loopback address [::1]".into());
    }
    if std::env::var_os(DUAL_FORCE_FAIL_ENV).is_some() {
        return Err(format!("unshare(CLONE_NEWNS): Operation not permitted (os error 1) [forced by {DUAL_FORCE_FAIL_ENV}]"));
    }
    // SAFETY: plain system calls; the strings are NUL-terminated and live across the calls
    unsafe {
        if libc::unshare(libc::CLONE_NEWNS) != 0 {
            return Err(errno_text("unshare(CLONE_NEWNS)"));
        }
        let root = CString::new("/").expect("cstring");
        if libc::mount(std::ptr::null(), root.as_ptr(), std::ptr::null(), libc::MS_REC | libc::MS_PRIVATE, std::ptr::null()) != 0 {
            return Err(errno_text("mount(NULL, \"/\", NULL, MS_REC|MS_PRIVATE)"));
        }
    }
    let dir = dual_tmp_dir(std::process::id());
    std::fs::create_dir_all(&dir).map_err(|e| format!("create {}: {e}", dir.display()))?;
    let hosts = dir.join("hosts");
    std::fs::write(&hosts, tcp::dual_hosts_file()).map_err(|e| format!("write {}: {e}", hosts.display()))?;
    let src = CString::new(hosts.to_string_lossy().as_bytes()).map_err(|e| format!("path: {e}"))?;
    let dst = CString::new("/etc/hosts").expect("cstring");
    // SAFETY: as above
    if unsafe { libc::mount(src.as_ptr(), dst.as_ptr(), std::ptr::null(), libc::MS_BIND, std::ptr::null()) } != 0 {
        return Err(errno_text("mount(hosts file, \"/etc/hosts\", NULL, MS_BIND)"));
    }
    Ok(())
}

fn dual_leave_namespace() {
    // the mount ends with the process anyway; the file must not stay behind
    if let Ok(dst) = std::ffi::CString::new("/etc/hosts") {
        // SAFETY: plain system call on a NUL-terminated string
        unsafe {
            libc::umount2(dst.as_ptr(), libc::MNT_DETACH);
        }
    }
    let _ = std::fs::remove_dir_all(dual_tmp_dir(std::process::id()));
}

/// Step (b): do the names resolve as intended (both loopback addresses, nothing else), through the
/// very function the server uses? Returns name -> addresses in the order `lookup_host` gave them.
fn dual_check_resolver() -> Result<Value, String> {
    let rt = tokio::runtime::Builder::new_current_thread().enable_all().build().map_err(|e| format!("runtime: {e}"))?;
    let mut order = serde_json::Map::new();
    for name in DualName::ALL.iter().map(|n| n.host()).chain(["localhost"]) {
        let got: Vec<std::net::IpAddr> = match rt.block_on(async { tokio::time::timeout(Duration::from_secs(10), tokio::net::lookup_host((name, 1))).await }) {
            Ok(Ok(it)) => it.map(|a| a.ip()).collect(),
            Ok(Err(e)) => return Err(format!("inside the private mount namespace lookup_host(\"{name}\") fails: {e} (the resolver does not read /etc/hosts?)")),
            Err(_) => return Err(format!("inside the private mount namespace lookup_host(\"{name}\") took more than 10 s")),
        };
        let v4 = std::net::IpAddr::from([127, 0, 0, 1]);
        let v6 = std::net::IpAddr::V6(std::net::Ipv6Addr::LOCALHOST);
        let as_intended = if name == "localhost" { !got.is_empty() && got.iter().all(|a| *a == v4) } else { got.contains(&v4) && got.contains(&v6) && got.iter().all(|a| *a == v4 || *a == v6) };
        if !as_intended {
            return Err(format!("inside the private mount namespace lookup_host(\"{name}\") returns {got:?}, not what the hosts file says (the resolver does not read /etc/hosts, or filters an address family)"));
        }
        order.insert(name.to_string(), json!(got.iter().map(ToString::to_string).collect::<Vec<_>>()));
    }
    Ok(Value::Object(order))
}

fn failure_json(f: &Failure) -> Value {
    json!({"key": f.key, "desc": f.desc, "deadline": f.deadline})
}

fn failure_from_json(v: &Value) -> Option<Failure> {
    Some(Failure { key: v["key"].as_str()?.to_string(), desc: v["desc"].as_str()?.to_string(), deadline: v["deadline"].as_bool()? })
}

/// The child process: everything it found goes into `extra.dual` of its report (the parent
/// decides what counts); its own violation list stays empty.
fn dual_child(args: &Args) -> Report {
    let mut rep = Report::new("C01", &args.tier, "e2e", "exploration");
    // ---- (a) + (b), before anything else exists in this process that could care
    let resolver = match dual_enter_namespace().and_then(|()| dual_check_resolver()) {
        Ok(o) => o,
        Err(why) => {
            dual_leave_namespace();
            rep.extra.insert("dual".into(), json!({"status": "skipped", "reason": why}));
            return rep;
        }
    };
    install_panic_hook();
    let b = bounds(args);
    let env = match Env::new() {
        Ok(e) => e,
        Err(e) => {
            dual_leave_namespace();
            rep.machinery_error = Some(e);
            return rep;
        }
    };
    let spec: Option<Value> = std::env::var(DUAL_CASES_ENV).ok().and_then(|t| serde_json::from_str(&t).ok());
    let (cases, runs): (Vec<Case>, usize) = match &spec {
        Some(sp) => (sp["cases"].as_array().map(|a| a.iter().filter_map(Case::from_json).collect()).unwrap_or_default(), sp["runs"].as_u64().unwrap_or(1) as usize),
        None => (dual_matrix(&b), 1),
    };
    let tally = Tally::default();
    let next = AtomicUsize::new(0);
    let results: Mutex<Vec<(usize, Value)>> = Mutex::new(Vec::new());
    std::thread::scope(|s| {
        for w in 0..b.parallel.min(4).min(cases.len().max(1)) {
            let (cases, env, tally, next, results, b) = (&cases, &env, &tally, &next, &results, &b);
            std::thread::Builder::new()
                .name(format!("c01-dual{w}"))
                .spawn_scoped(s, move || {
                    loop {
                        let k = next.fetch_add(1, Ordering::SeqCst);
                        if k >= cases.len() {
                            return;
                        }
                        let mut run_v = Vec::new();
                        for _ in 0..runs {
                            let o = exec(env, &cases[k], b.deadline_s, false, tally);
                            let t = o.tcp.clone().unwrap_or_default();
                            run_v.push(json!({
                                "failures": o.failures.iter().map(failure_json).collect::<Vec<_>>(),
                                "obs": o.obs,
                                "vacuous": o.vacuous,
                                "wall_ms": o.wall.as_millis() as u64,
                                "stats": {"bytes_verified": t.bytes_verified, "conns_verified": t.conns_verified, "halfclose_eof_seen": t.halfclose_eof_seen, "end_eof": t.end_eof, "end_reset": t.end_reset},
                            }));
                        }
                        results.lock().unwrap_or_else(std::sync::PoisonError::into_inner).push((k, json!({"case": cases[k].to_json(), "runs": run_v})));
                    }
                })
                .expect("spawn dual thread");
        }
    });
    drop(env);
    dual_leave_namespace();
    let mut results = results.into_inner().unwrap_or_else(std::sync::PoisonError::into_inner);
    results.sort_by_key(|(k, _)| *k);
    let panics = PANICS.lock().unwrap_or_else(std::sync::PoisonError::into_inner);
    rep.evaluations = tally.executions.load(Ordering::Relaxed);
    rep.extra.insert(
        "dual".into(),
        json!({
            "status": "ran",
            "resolver_order": resolver,
            "results": results.into_iter().map(|(_, v)| v).collect::<Vec<_>>(),
            "executions": tally.executions.load(Ordering::Relaxed),
            "port_races": tally.port_races.load(Ordering::Relaxed),
            "panics": panics.iter().take(10).map(|(t, l, m)| json!({"thread": t, "at": l, "msg": m})).collect::<Vec<_>>(),
        }),
    );
    rep
}

/// What the parent learns from one child run.
enum DualRun {
    /// the sub-matrix cannot be run here (why)
    Skipped(String),
    /// the `extra.dual` object of the child's report
    Ran(Value),
}

static DUAL_SEQ: AtomicU64 = AtomicU64::new(0);

/// Run the child (whole sub-matrix, or the given cases `runs` times each) and read its report.
/// Err: the child did not produce a result (a machinery problem).
fn dual_spawn(args: &Args, tmp: &std::path::Path, cases: Option<(&[Case], usize)>) -> Result<DualRun, String> {
    let exe = match std::env::current_exe() {
        Ok(e) => e,
        Err(e) => return Ok(DualRun::Skipped(format!("cannot find the path of this binary to run it again: {e}"))),
    };
    let out = tmp.join(format!("dual-{}.json", DUAL_SEQ.fetch_add(1, Ordering::SeqCst)));
    let _ = std::fs::remove_file(&out);
    let mut cmd = std::process::Command::new(exe);
    cmd.arg("C01").arg("--tier").arg(&args.tier).arg("--out").arg(&out).arg("--threads").arg(args.threads.to_string());
    cmd.env(DUAL_CHILD_ENV, "1").env_remove(DUAL_CASES_ENV);
    if let Some((cs, runs)) = cases {
        cmd.env(DUAL_CASES_ENV, json!({"cases": cs.iter().map(Case::to_json).collect::<Vec<_>>(), "runs": runs}).to_string());
    }
    let errp = out.with_extension("err");
    let errf = std::fs::File::create(&errp).map_or_else(|_| std::process::Stdio::null(), std::process::Stdio::from);
    cmd.stdin(std::process::Stdio::null()).stdout(std::process::Stdio::null()).stderr(errf);
    let mut child = match cmd.spawn() {
        Ok(c) => c,
        Err(e) => return Ok(DualRun::Skipped(format!("cannot start a child process: {e}"))),
    };
    let pid = child.id();
    let started = std::time::Instant::now();
    let limit = Duration::from_secs(600);
    let status = loop {
        match child.try_wait() {
            Ok(Some(st)) => break st,
            Ok(None) if started.elapsed() > limit => {
                let _ = child.kill();
                let _ = child.wait();
                let _ = std::fs::remove_dir_all(dual_tmp_dir(pid));
                return Err(format!("the dual-stack child process did not finish within {limit:?}"));
            }
            Ok(None) => std::thread::sleep(Duration::from_millis(20)),
            Err(e) => return Err(format!("waiting for the dual-stack child process: {e}")),
        }
    };
    // (the child removes it itself; this is for a child that died)
    let _ = std::fs::remove_dir_all(dual_tmp_dir(pid));
    let text = std::fs::read_to_string(&out);
    let tail = std::fs::read_to_string(&errp).unwrap_or_default();
    let _ = std::fs::remove_file(&out);
    let _ = std::fs::remove_file(&errp);
    let Ok(text) = text else {
        return Err(format!("the dual-stack child process ended with {status} without a result; stderr: {}", tail.chars().rev().take(600).collect::<String>().chars().rev().collect::<String>()));
    };
    let v: Value = serde_json::from_str(&text).map_err(|e| format!("the dual-stack child process wrote an unreadable result: {e}"))?;
    if let Some(m) = v["machinery_error"].as_str() {
        return Err(format!("dual-stack child process: {m}"));
    }
    let d = &v["extra"]["dual"];
    match d["status"].as_str() {
        Some("skipped") => Ok(DualRun::Skipped(d["reason"].as_str().unwrap_or("?").to_string())),
        Some("ran") => Ok(DualRun::Ran(d.clone())),
        _ => Err(format!("the dual-stack child process wrote a result without a status: {}", text.chars().take(300).collect::<String>())),
    }
}

/// (case, per run: (failures, obs, vacuous, stats)) of a child's result list
struct DualCaseResult {
    case: Case,
    runs: Vec<(Vec<Failure>, Value, Option<String>, TcpStats, u64)>,
}

fn dual_results(d: &Value) -> Result<Vec<DualCaseResult>, String> {
    let mut out = Vec::new();
    for r in d["results"].as_array().ok_or("dual-stack child: no result list")? {
        let case = Case::from_json(&r["case"]).ok_or_else(|| format!("dual-stack child: cannot interpret the case {}", r["case"]))?;
        let mut runs = Vec::new();
        for run in r["runs"].as_array().ok_or("dual-stack child: no run list")? {
            let failures: Vec<Failure> = run["failures"].as_array().map(|a| a.iter().filter_map(failure_from_json).collect()).unwrap_or_default();
            let st = &run["stats"];
            let g = |k: &str| st[k].as_u64().unwrap_or(0);
            let stats = TcpStats { bytes_verified: g("bytes_verified"), conns_verified: g("conns_verified"), halfclose_eof_seen: g("halfclose_eof_seen"), end_eof: g("end_eof"), end_reset: g("end_reset"), ..TcpStats::default() };
            runs.push((failures, run["obs"].clone(), run["vacuous"].as_str().map(ToString::to_string), stats, run["wall_ms"].as_u64().unwrap_or(0)));
        }
        out.push(DualCaseResult { case, runs });
    }
    Ok(out)
}

// ---------------------------------------------------------------------------------------
// driver
// ---------------------------------------------------------------------------------------

fn replay(env: &Env, v: &Value, mut rep: Report, b: &Bounds, args: &Args) -> Report {
    let Some(case) = Case::from_json(v) else {
        rep.machinery_error = Some(format!("replay: cannot interpret {v}"));
        return rep;
    };
    if matches!(&case, Case::Tcp(t) if t.dual.is_some()) {
        // in a child process, inside a private mount namespace made the same way as in the full run
        match dual_spawn(args, &env.tmp, Some((std::slice::from_ref(&case), 2))).and_then(|r| match r {
            DualRun::Skipped(why) => Ok(Err(why)),
            DualRun::Ran(d) => dual_results(&d).map(|rs| Ok((d, rs))),
        }) {
            Err(e) => rep.machinery_error = Some(e),
            Ok(Err(why)) => {
                rep.rule = format!("replay of one recorded matrix point: SKIPPED, the scenario needs a private mount namespace with a hosts file of its own, which cannot be had here: {why}");
                rep.bounds.insert("dual_stack_names".into(), json!(format!("skipped: {why}")));
                rep.extra.insert("dual_stack_names".into(), json!(format!("skipped: {why}")));
                rep.extra.insert("replayed".into(), case.to_json());
                rep.extra.insert("skipped".into(), json!(true));
            }
            Ok(Ok((d, rs))) => {
                let mut obs = Vec::new();
                for r in &rs {
                    for (run, (failures, o, vacuous, _, _)) in r.runs.iter().enumerate() {
                        for f in failures {
                            if f.key == "machinery" {
                                rep.machinery_error = Some(f.desc.clone());
                            } else {
                                rep.violation(f.key.clone(), format!("{} (replay run {run})", f.desc), case.to_json());
                            }
                        }
                        if let Some(why) = vacuous {
                            rep.extra.insert(format!("run_{run}_vacuous"), json!(why));
                        }
                        obs.push(o.clone());
                    }
                }
                rep.evaluations = d["executions"].as_u64().unwrap_or(0);
                rep.distinct_nontrivial = 1;
                rep.rule = "replay of one recorded matrix point of the dual-stack-name sub-matrix, executed twice by a child process inside a private mount namespace (hosts file of its own over /etc/hosts; fresh server, client, target and local connection each time; the direct control connection is made again each time)".into();
                rep.extra.insert("replayed".into(), case.to_json());
                rep.extra.insert("dual_stack_name_resolver_order".into(), d["resolver_order"].clone());
                rep.extra.insert("observations_identical".into(), json!(obs.len() == 2 && obs[0] == obs[1]));
                rep.extra.insert("observations".into(), json!(obs));
                rep.assumptions.push("schedules are not owned: a failure that depends on the interleaving may not reproduce in a replay".into());
            }
        }
        return rep;
    }
    if let Some(why) = match &case {
        Case::Udp(u) => b.dual_listener_skip(u.topo).cloned(),
        Case::Tcp(_) => None,
    } {
        // not a verdict and not an error: this machine cannot run the scenario
        rep.rule = format!("replay of one recorded matrix point: SKIPPED, the scenario needs a SOCKS listener on the dual-stack wildcard address [::] that the local application reaches over the loopback address of its family, which cannot be had here: {why}");
        rep.bounds.insert("udp_dual_stack_listener".into(), b.dual_listener_status());
        rep.extra.insert("udp_dual_stack_listener".into(), b.dual_listener_status());
        rep.extra.insert("replayed".into(), case.to_json());
        rep.extra.insert("skipped".into(), json!(true));
        return rep;
    }
    if matches!(&case, Case::Udp(u) if u.topo.two_families()) && !b.udp_two_families {
        rep.rule = "replay of one recorded matrix point: SKIPPED, the scenario needs the IPv6 loopback address [::1], which does not exist here".into();
        rep.bounds.insert("ipv6_loopback".into(), json!(false));
        rep.extra.insert("ipv6_loopback".into(), json!(false));
        rep.extra.insert("replayed".into(), case.to_json());
        rep.extra.insert("skipped".into(), json!(true));
        return rep;
    }
    if matches!(&case, Case::Tcp(t) if t.entry.v6literal()) && !b.ipv6_loopback {
        // not a verdict and not an error: this machine cannot run the scenario
        rep.rule = "replay of one recorded matrix point: SKIPPED, the scenario needs the IPv6 loopback address [::1], which does not exist here".into();
        rep.bounds.insert("ipv6_loopback".into(), json!(false));
        rep.extra.insert("ipv6_loopback".into(), json!(false));
        rep.extra.insert("replayed".into(), case.to_json());
        rep.extra.insert("skipped".into(), json!(true));
        return rep;
    }
    let tally = Tally::default();
    let mut obs = Vec::new();
    for run in 0..2 {
        let o = exec(env, &case, b.deadline_s, false, &tally);
        for f in &o.failures {
            if f.key == "machinery" {
                rep.machinery_error = Some(f.desc.clone());
            } else {
                rep.violation(f.key.clone(), format!("{} (replay run {run})", f.desc), case.to_json());
            }
        }
        obs.push(o.obs);
    }
    rep.evaluations = tally.executions.load(Ordering::Relaxed);
    rep.distinct_nontrivial = 1;
    rep.rule = "replay of one recorded matrix point, executed twice (fresh server, client, target and local clients each time); the interleaving is again whatever the runtime produces".into();
    rep.extra.insert("replayed".into(), case.to_json());
    rep.extra.insert("ipv6_loopback".into(), json!(b.ipv6_loopback));
    rep.extra.insert("udp_dual_stack_listener".into(), b.dual_listener_status());
    rep.extra.insert("observations_identical".into(), json!(obs[0] == obs[1]));
    rep.extra.insert("observations".into(), json!(obs));
    rep.assumptions.push("schedules are not owned: a failure that depends on the interleaving may not reproduce in a replay".into());
    rep
}

#[allow(clippy::too_many_lines)]
pub fn run(args: &Args) -> Report {
    if std::env::var_os(DUAL_CHILD_ENV).is_some() {
        return dual_child(args);
    }
    let mut rep = Report::new("C01", &args.tier, "e2e", "exploration");
    install_panic_hook();
    let b = bounds(args);
    // ---- the oracle's own parts
    let concs_max = *b.concs.iter().max().unwrap_or(&1);
    if let Err(e) = proto::self_test().and_then(|()| tcp::self_test_payloads(&b.tcp_lens.iter().copied().chain(b.tcp_len_window).chain([tcp::SLOW_REVERSE_LEN]).chain(b.with_request_c2t_lens.iter().copied()).chain(b.with_request_t2c_lens.iter().copied()).collect::<Vec<_>>(), concs_max.max(3))).and_then(|()| udp::self_test()).and_then(|()| control_self_test()) {
        rep.machinery_error = Some(format!("self-test: {e}"));
        return rep;
    }
    let env = match Env::new() {
        Ok(e) => e,
        Err(e) => {
            rep.machinery_error = Some(e);
            return rep;
        }
    };
    if let Some(v) = args.replay_json() {
        return replay(&env, &v, rep, &b, args);
    }

    let mut cases = matrix(&b);
    let distinct: HashSet<&Case> = cases.iter().collect();
    let n_distinct = distinct.len();
    assert_eq!(n_distinct, cases.len(), "matrix contains duplicates");
    cases.sort_by_key(|c| std::cmp::Reverse(weight(c)));
    let n_tcp = cases.iter().filter(|c| matches!(c, Case::Tcp(_))).count();
    let n_udp = cases.len() - n_tcp;

    let tally = Tally::default();
    let next = AtomicUsize::new(0);
    let iso = RwLock::new(());
    let confirmed: Mutex<BTreeMap<String, u64>> = Mutex::new(BTreeMap::new());
    let degraded = AtomicBool::new(false);
    let rep_m = Mutex::new(rep);
    let sums = Mutex::new(Sums::default());
    const SHORT_DEADLINE_S: u64 = 2;
    let started = std::time::Instant::now();
    let budget = Duration::from_secs(if args.thorough() { 480 } else { 100 });
    let done_cases = AtomicUsize::new(0);
    let iso_cap: u64 = if args.thorough() { 8 } else { 4 };

    // the dual-stack-name sub-matrix runs in a child process of its own, next to the pool
    let dual_first: Mutex<Option<Result<DualRun, String>>> = Mutex::new(None);
    std::thread::scope(|s| {
        {
            let (dual_first, env) = (&dual_first, &env);
            std::thread::Builder::new()
                .name("c01-dual-parent".into())
                .spawn_scoped(s, move || {
                    let r = dual_spawn(args, &env.tmp, None);
                    *dual_first.lock().unwrap_or_else(std::sync::PoisonError::into_inner) = Some(r);
                })
                .expect("spawn dual thread");
        }
        // the real-time scenarios sleep nearly all of their 20+ seconds: they get threads of their
        // own (they are first in the queue), so that `parallel` scenarios that do work stay in flight
        // (the slow-reader TCP scenarios wait for some seconds before anything moves: up to
        // `SLOW_READER_THREADS` of them at a time, beside the pool, so that the memory they need stays bounded)
        let n_slow = cases.iter().filter(|c| matches!(c, Case::Udp(u) if u.topo.slow())).count() + cases.iter().filter(|c| matches!(c, Case::Tcp(t) if t.slow.is_some())).count().min(SLOW_READER_THREADS);
        for w in 0..b.parallel + n_slow {
            let (cases, env, tally, next, iso, confirmed, degraded, rep_m, sums, b, done_cases) = (&cases, &env, &tally, &next, &iso, &confirmed, &degraded, &rep_m, &sums, &b, &done_cases);
            std::thread::Builder::new()
                .name(format!("c01-pool{w}"))
                .spawn_scoped(s, move || {
                    loop {
                        let deg = degraded.load(Ordering::SeqCst);
                        if deg && started.elapsed() > budget {
                            // a tree that fails this broadly is reported, not explored to the end
                            return;
                        }
                        let k = next.fetch_add(1, Ordering::SeqCst);
                        if k >= cases.len() {
                            return;
                        }
                        done_cases.fetch_add(1, Ordering::SeqCst);
                        let case = &cases[k];
                        let first = {
                            let _g = iso.read().unwrap_or_else(std::sync::PoisonError::into_inner);
                            exec(env, case, if deg { SHORT_DEADLINE_S } else { b.deadline_s }, deg, tally)
                        };
                        let mut verdict: Vec<(Failure, &'static str)> = Vec::new();
                        let mut final_out = None;
                        let mut skip_clean = false;
                        let dl_keys: Vec<String> = first.failures.iter().filter(|f| f.deadline).map(|f| coarse(&f.key)).collect();
                        if dl_keys.is_empty() {
                            for f in &first.failures {
                                verdict.push((f.clone(), ""));
                            }
                            final_out = Some(first);
                        } else {
                            let known = || {
                                let c = confirmed.lock().unwrap_or_else(std::sync::PoisonError::into_inner);
                                dl_keys.iter().all(|k| c.get(k).copied().unwrap_or(0) >= 1)
                            };
                            let count_directly = |verdict: &mut Vec<(Failure, &'static str)>| {
                                tally.counted_without_rerun.fetch_add(1, Ordering::Relaxed);
                                for f in &first.failures {
                                    verdict.push((f.clone(), " (not re-run alone: the same failure was confirmed alone before)"));
                                }
                            };
                            if known() {
                                count_directly(&mut verdict);
                            } else {
                                // alone: wait for the other workers to finish their current scenario
                                let g = iso.write().unwrap_or_else(std::sync::PoisonError::into_inner);
                                if known() {
                                    drop(g);
                                    count_directly(&mut verdict);
                                } else if tally.isolation_runs.load(Ordering::SeqCst) >= iso_cap {
                                    drop(g);
                                    // no verdict on the deadline part of this case (reported as such)
                                    for f in first.failures.iter().filter(|f| !f.deadline) {
                                        verdict.push((f.clone(), " (first pass)"));
                                    }
                                    let mut g = sums.lock().unwrap_or_else(std::sync::PoisonError::into_inner);
                                    g.unconfirmed += 1;
                                    if g.unconfirmed_list.len() < 20 {
                                        g.unconfirmed_list.push(json!({"case": case.to_json(), "first_pass_keys": dl_keys}));
                                    }
                                    skip_clean = true;
                                } else {
                                    tally.isolation_runs.fetch_add(1, Ordering::SeqCst);
                                    let second = exec(env, case, b.deadline_s, false, tally);
                                    drop(g);
                                    // failures of the first pass that are not deadline hits stand on their own
                                    for f in first.failures.iter().filter(|f| !f.deadline) {
                                        verdict.push((f.clone(), " (first pass)"));
                                    }
                                    if second.failures.is_empty() {
                                        tally.deadline_not_reproduced.fetch_add(1, Ordering::Relaxed);
                                        let mut g = sums.lock().unwrap_or_else(std::sync::PoisonError::into_inner);
                                        if g.flaky.len() < 20 {
                                            g.flaky.push(json!({"case": case.to_json(), "first_pass_keys": dl_keys, "first_pass_wall_ms": first.wall.as_millis()}));
                                        }
                                    } else {
                                        let mut c = confirmed.lock().unwrap_or_else(std::sync::PoisonError::into_inner);
                                        for f in &second.failures {
                                            verdict.push((f.clone(), " (confirmed: failed again when run alone)"));
                                            if f.deadline {
                                                *c.entry(coarse(&f.key)).or_insert(0) += 1;
                                            }
                                        }
                                        // (a first datagram after the idle gap that is late costs no waiting: no reason to cut the rest short;
                                        // the same goes for the definitive judgements of the unsendable-destination scenarios)
                                        if c.iter().filter(|(k, _)| !k.starts_with("udp.request.lost-after-idle-gap.") && k.as_str() != udp::UNSEND_LOST_KEY && k.as_str() != udp::UNSEND_PORT_KEY).map(|(_, n)| *n).sum::<u64>() >= 2 {
                                            degraded.store(true, Ordering::SeqCst);
                                        }
                                    }
                                    final_out = Some(second);
                                }
                            }
                        }
                        {
                            let mut g = sums.lock().unwrap_or_else(std::sync::PoisonError::into_inner);
                            if let Some(o) = &final_out {
                                if let Some(t) = &o.tcp {
                                    add_tcp(&mut g.tcp, t);
                                }
                                if let Some(u) = &o.udp {
                                    add_udp(&mut g.udp, u);
                                }
                                g.max_wall_ms = g.max_wall_ms.max(o.wall.as_millis());
                                if verdict.is_empty() && !skip_clean {
                                    match case {
                                        Case::Tcp(t) if t.order == Order::Refuse => g.refuse_cases_clean += 1,
                                        Case::Tcp(_) => g.tcp_cases_clean += 1,
                                        Case::Udp(_) => g.udp_cases_clean += 1,
                                    }
                                    match case {
                                        Case::Tcp(t) if t.odd.is_some() => g.odd_cases_clean += 1,
                                        Case::Tcp(t) if t.slow.is_some() => g.slow_reader_cases_clean += 1,
                                        Case::Tcp(t) if t.chunk == Chunk::WithRequest => g.with_request_cases_clean += 1,
                                        Case::Tcp(t) if t.entry.v6literal() => g.v6_cases_clean += 1,
                                        Case::Tcp(t) if t.order.after_half() => g.after_half_cases_clean += 1,
                                        Case::Udp(u) if u.topo.stray().is_some() => g.stray_cases_clean += 1,
                                        Case::Udp(u) if u.topo.unsendable().is_some() => g.unsendable_cases_clean += 1,
                                        Case::Udp(u) if u.topo.overlong().is_some() => g.overlong_cases_clean += 1,
                                        Case::Udp(u) if u.topo == Topo::PruneThenNewcomer => g.newcomer_cases_clean += 1,
                                        Case::Udp(u) if u.topo.two_families() => g.families_cases_clean += 1,
                                        Case::Udp(u) if u.topo.dual_listener().is_some() => g.dual_listener_cases_clean += 1,
                                        _ => {}
                                    }
                                }
                            }
                        }
                        if !verdict.is_empty() {
                            let mut r = rep_m.lock().unwrap_or_else(std::sync::PoisonError::into_inner);
                            for (f, note) in verdict {
                                if f.key == "machinery" {
                                    if r.machinery_error.is_none() {
                                        r.machinery_error = Some(f.desc.clone());
                                    }
                                } else {
                                    r.violation(f.key.clone(), format!("{}{note}", f.desc), case.to_json());
                                }
                            }
                        }
                    }
                })
                .expect("spawn pool thread");
        }
    });

    let mut rep = rep_m.into_inner().unwrap_or_else(std::sync::PoisonError::into_inner);
    let mut sums = sums.into_inner().unwrap_or_else(std::sync::PoisonError::into_inner);

    // ---- the dual-stack-name sub-matrix: what the child found, merged (same rules as in the pool:
    // a failure that is not a deadline hit stands; a deadline hit counts only when it shows again
    // with the scenario run alone -- by a second child, now that the pool is idle)
    let mut dual_status = String::from("ran");
    let mut dual_order = Value::Null;
    let mut n_dual = 0usize;
    let mut dual_panics = Value::Null;
    match dual_first.into_inner().unwrap_or_else(std::sync::PoisonError::into_inner).unwrap_or_else(|| Err("the dual-stack child process was never started".into())).and_then(|r| match r {
        DualRun::Skipped(why) => Ok(Err(why)),
        DualRun::Ran(d) => dual_results(&d).map(|rs| Ok((d, rs))),
    }) {
        Err(e) => {
            if rep.machinery_error.is_none() {
                rep.machinery_error = Some(e);
            }
            dual_status = "failed (machinery)".into();
        }
        Ok(Err(why)) => dual_status = format!("skipped: {why}"),
        Ok(Ok((d, rs))) => {
            dual_order = d["resolver_order"].clone();
            dual_panics = d["panics"].clone();
            n_dual = rs.len();
            tally.executions.fetch_add(d["executions"].as_u64().unwrap_or(0), Ordering::Relaxed);
            tally.port_races.fetch_add(d["port_races"].as_u64().unwrap_or(0), Ordering::Relaxed);
            let record = |rep: &mut Report, case: &Case, f: &Failure, note: &str| {
                if f.key == "machinery" {
                    if rep.machinery_error.is_none() {
                        rep.machinery_error = Some(f.desc.clone());
                    }
                } else {
                    rep.violation(f.key.clone(), format!("{}{note}", f.desc), case.to_json());
                }
            };
            let mut confirm: Vec<(Case, usize, Vec<String>, u64)> = Vec::new();
            for r in &rs {
                let Some((failures, _, vacuous, stats, wall)) = r.runs.first() else { continue };
                if vacuous.is_some() {
                    sums.dual_cases_vacuous += 1;
                    continue;
                }
                let dl_keys: Vec<String> = failures.iter().filter(|f| f.deadline).map(|f| coarse(&f.key)).collect();
                let mut n_verdict = 0usize;
                for f in failures.iter().filter(|f| !f.deadline) {
                    record(&mut rep, &r.case, f, if dl_keys.is_empty() { "" } else { " (first pass)" });
                    n_verdict += 1;
                }
                if dl_keys.is_empty() {
                    add_tcp(&mut sums.tcp, stats);
                    sums.max_wall_ms = sums.max_wall_ms.max(u128::from(*wall));
                    if n_verdict == 0 {
                        sums.tcp_cases_clean += 1;
                        sums.dual_cases_clean += 1;
                    }
                } else {
                    confirm.push((r.case.clone(), n_verdict, dl_keys, *wall));
                }
            }
            if !confirm.is_empty() {
                tally.isolation_runs.fetch_add(confirm.len() as u64, Ordering::SeqCst);
                let again: Vec<Case> = confirm.iter().map(|c| c.0.clone()).collect();
                match dual_spawn(args, &env.tmp, Some((&again, 1))).and_then(|r| match r {
                    DualRun::Skipped(why) => Err(format!("the private mount namespace of the dual-stack child process could be made once but not a second time: {why}")),
                    DualRun::Ran(d) => {
                        tally.executions.fetch_add(d["executions"].as_u64().unwrap_or(0), Ordering::Relaxed);
                        dual_results(&d)
                    }
                }) {
                    Err(e) => {
                        if rep.machinery_error.is_none() {
                            rep.machinery_error = Some(e);
                        }
                    }
                    Ok(rs2) => {
                        for (case, n_verdict, dl_keys, wall1) in &confirm {
                            let Some((failures, _, _, stats, wall)) = rs2.iter().find(|r| r.case == *case).and_then(|r| r.runs.first()) else {
                                if rep.machinery_error.is_none() {
                                    rep.machinery_error = Some(format!("{}: the confirmation run of the dual-stack child process has no result for it", case.label()));
                                }
                                continue;
                            };
                            add_tcp(&mut sums.tcp, stats);
                            sums.max_wall_ms = sums.max_wall_ms.max(u128::from(*wall));
                            if failures.is_empty() {
                                tally.deadline_not_reproduced.fetch_add(1, Ordering::Relaxed);
                                if sums.flaky.len() < 20 {
                                    sums.flaky.push(json!({"case": case.to_json(), "first_pass_keys": dl_keys, "first_pass_wall_ms": wall1}));
                                }
                                if *n_verdict == 0 {
                                    sums.tcp_cases_clean += 1;
                                    sums.dual_cases_clean += 1;
                                }
                            } else {
                                for f in failures {
                                    record(&mut rep, case, f, " (confirmed: failed again when run alone)");
                                }
                            }
                        }
                    }
                }
            }
        }
    }
    let n_distinct = n_distinct + n_dual;
    let n_tcp = n_tcp + n_dual;
    rep.evaluations = tally.executions.load(Ordering::Relaxed);
    rep.distinct_nontrivial = (done_cases.load(Ordering::SeqCst) + n_dual) as u64;
    let n_done = done_cases.load(Ordering::SeqCst) + n_dual;
    rep.exhaustive = n_done == n_distinct;
    if n_done < n_distinct {
        rep.caps_hit.push(format!("wall budget of {} s reached after deadline failures were confirmed: {} of {} matrix points were not run", budget.as_secs(), n_distinct - n_done, n_distinct));
    }
    let len_rule = match b.tcp_len_window {
        None => format!("L = {:?} for every combination", b.tcp_lens),
        Some(w) => format!("L = {:?} for every combination, and L = {:?} (adds the window-exceeding length {w}) for the sub-matrix connections = 1 AND chunking = one-write (all 7 entry points, all 5 close orders)", b.tcp_lens, b.tcp_lens.iter().copied().chain([w]).collect::<Vec<_>>()),
    };
    let after_half_rule = format!(
        "; plus the close-after-half-close sub-matrix: entry point (7) x close order ({}: one end half-closes after its payload, the other end keeps sending filler, the first end reads the payload and up to {} filler bytes (for at most {} ms) and closes completely; the sending end's connection must then be closed or reset before the deadline) x [1 connection x client->target length in {:?} x target->client length in {:?}{}], {}",
        Order::AFTER_HALF.iter().map(|e| e.name()).collect::<Vec<_>>().join(", "),
        tcp::AFTER_HALF_FILLER_READ,
        tcp::AFTER_HALF_LINGER.as_millis(),
        b.after_half_lens,
        b.after_half_lens,
        b.after_half_conc3_len.map_or_else(String::new, |l| format!(" + {AFTER_HALF_CONC_MANY} connections x both lengths {l}")),
        AFTER_HALF_CHUNK.name()
    );
    let slow_cases: Vec<TcpCase> = slow_matrix(&b);
    let slow_rule = format!(
        "; plus the slow-reader sub-matrix: direction (download: the target writes {len} bytes and every LOCAL connection waits {stall} s after the entry point's grant before its first read; upload: the local client writes {len} bytes and every TARGET connection waits {stall} s after its accept before its first read) x (entry point, how the writing end finishes, simultaneous connections) in {:?}; the writing end writes at once, in {}, then half-closes (close order {} / {}) or closes both directions (close order {} / {}); the slow end then reads to the end; the other direction carries {} bytes; {len} bytes are more than the socket buffers of the connections on the way and the multiplexer's window of 512 frames hold together, so the writer is held back by the reader (recorded per run: extra.tcp_slow_reader_*); same oracle as everywhere (data equal per connection, true EOF after a half-close, every connection closed before the deadline of {} s = stall + {} s); their violation keys end in {} / {}",
        b.slow_reader_points.iter().map(|(e, half, conc)| format!("{} {} x{conc}", e.name(), if *half { "half-close" } else { "close" })).collect::<Vec<_>>(),
        tcp::SLOW_CHUNK.name(),
        SlowDir::Download.orders()[0].name(),
        SlowDir::Upload.orders()[0].name(),
        SlowDir::Download.orders()[1].name(),
        SlowDir::Upload.orders()[1].name(),
        tcp::SLOW_REVERSE_LEN,
        slow_cases.first().map_or(b.deadline_s, |c| c.deadline_s(b.deadline_s)),
        tcp::SLOW_TRANSFER_S,
        SlowDir::Download.key_suffix(),
        SlowDir::Upload.key_suffix(),
        len = b.slow_reader_len,
        stall = b.slow_reader_stall_s
    );
    let with_request_cases: Vec<TcpCase> = with_request_matrix(&b);
    let with_request_rule = format!(
        "; plus the with-request sub-matrix (a local client that does not wait for the proxy's reply; every other local client of the matrix sends its request, waits for the reply and only then sends payload): SOCKS entry point ({}) x connections {:?} x close order ({}) x client->target length in {:?} x target->client length in {:?}, chunking {}: the first min(client->target length, {}) payload bytes travel in the SAME write as the CONNECT request (SOCKS4/4a: request ++ bytes; SOCKS5: method negotiation in lock-step, then CONNECT request ++ bytes), then the client reads the reply, then the rest of its payload follows in one write; the target writes in one write; same oracle as everywhere (what each target connection received equals what its local connection sent, EOF semantics); their violation keys end in {}; HTTP CONNECT is not part of it (a client may not send before the 2xx)",
        tcp::WITH_REQUEST_ENTRIES.iter().map(|e| e.name()).collect::<Vec<_>>().join(", "),
        b.with_request_concs,
        tcp::WITH_REQUEST_ORDERS.iter().map(|e| e.name()).collect::<Vec<_>>().join(", "),
        b.with_request_c2t_lens,
        b.with_request_t2c_lens,
        Chunk::WithRequest.name(),
        tcp::WITH_REQUEST_HEAD,
        tcp::WITH_REQUEST_KEY_SUFFIX
    );
    let odd_cases: Vec<TcpCase> = odd_matrix(&b);
    let odd_rule = format!(
        "; plus the odd-target-host sub-matrix (an odd target host next to a bystander; one client, one server): entry point at which the local application names the target host itself x host, completely enumerated: {}; hosts (hex): {:?}; per point: local connection X goes through the entry point to the ordinary target and exchanges the first halves of {len}-octet payloads (one per direction), then local connection Y asks the SAME entry point for the odd host, port {}: Y is owed what a target that cannot be reached is owed (a failure reply, or its connection closed or reset before the deadline; an answer is otherwise not judged); THEN X must exchange the second halves, half-close and see the target's EOF with every octet equal end to end (key tcp.bystander-broken.{k}.<entry>; tcp.hang.bystander.{k}.<entry> when it only stalls), and a NEW local connection Z through the same entry point to the ordinary target must be granted, exchange {len} octets per direction and be closed in order (key tcp.later-connection-fails.{k}.<entry>); Y left open to the deadline is key tcp.hang.{k}.<entry>",
        b.odd_hosts_per_entry.iter().map(|(e, _)| format!("{} x {} hosts", e.name(), odd_cases.iter().filter(|c| c.entry == *e).count())).collect::<Vec<_>>().join(", "),
        tcp::odd_hosts().iter().map(|(h, _)| vcommon::report::hex(h)).collect::<Vec<_>>(),
        tcp::ODD_PORT,
        len = tcp::ODD_LEN,
        k = tcp::ODD_KEY
    );
    let v6_rule = if b.ipv6_loopback {
        format!("; plus the IPv6-literal sub-matrix (target listens on [::1]): entry point (remote specification with [::1]:port, SOCKS5 CONNECT with ATYP=4, HTTP CONNECT [::1]:port) x (client->target, target->client) lengths {:?}, {} connection, {}, {}", b.tcp_v6_lens, V6_CONC, V6_CHUNK.name(), V6_ORDER.name())
    } else {
        "; the IPv6-literal sub-matrix (target on [::1]) is SKIPPED: this machine has no IPv6 loopback address".to_string()
    };
    let dual_rule = if n_dual > 0 {
        format!(
            "; plus the dual-stack-name sub-matrix, run by a child process inside a private mount namespace whose /etc/hosts gives two names both loopback addresses: name ({}: `::1` line first; {}: `127.0.0.1` line first; lookup_host returned {}) x target listens on (127.0.0.1 only, [::1] only, both on one port number) x entry point that takes a host name ({}) x (client->target, target->client) lengths {:?}, {} connection, {}, {}; oracle differential: a direct TcpStream::connect((name, port)) made in the same process just before must work (else the point is vacuous) and then the tunnel has to carry the payloads like everywhere else",
            DualName::V64.host(),
            DualName::V46.host(),
            dual_order,
            tcp::DUAL_ENTRIES.iter().map(|e| e.name()).collect::<Vec<_>>().join(", "),
            b.tcp_dual_lens,
            DUAL_CONC,
            DUAL_CHUNK.name(),
            DUAL_ORDER.name()
        )
    } else {
        format!("; the dual-stack-name sub-matrix (target named by a host name with both loopback addresses, in a private mount namespace) is SKIPPED: {}", dual_status.strip_prefix("skipped: ").unwrap_or(&dual_status))
    };
    let families_rule = if b.udp_two_families {
        format!("; plus SOCKS5 UDP (IPv4/IPv6 headers) x ONE association alternating between a target on 127.0.0.1 and a target on [::1] (order A B A B with the IPv4 target first, and with the IPv6 target first) with {}-byte payloads, 4 exchanges, each FIRST transmission judged (see assumptions)", udp::FAMILIES_LEN)
    } else {
        "; the SOCKS5 UDP two-address-families topologies are SKIPPED: this machine has no IPv6 loopback address".to_string()
    };
    let dual_listener_rule = {
        let (s4, s6) = (&b.udp_dual_listener_skip.0, &b.udp_dual_listener_skip.1);
        let ran: Vec<&str> = [(s4, "IPv4 (127.0.0.1)"), (s6, "IPv6 ([::1])")].iter().filter(|(s, _)| s.is_none()).map(|(_, n)| *n).collect();
        let skipped: Vec<String> = [(s4, "IPv4"), (s6, "IPv6")].iter().filter_map(|(s, n)| s.as_ref().map(|w| format!("the topologies with a local application that uses {n} are SKIPPED: {w}"))).collect();
        let mut t = String::new();
        if !ran.is_empty() {
            t.push_str(&format!(
                "; plus SOCKS5 UDP (IPv4 header, domain header; target on 127.0.0.1) with the SOCKS listener on the DUAL-STACK wildcard address (remote specification [::]:PORT:socks, relay sockets on [::]:0) x address family the local application uses for the control connection, its UDP socket and the relay address ({}) x [1 local client x payload length in {:?} + 3 local clients (one association each) x payload length in {:?}], 3 exchanges per leg, same oracle as everywhere",
                ran.join(", "),
                b.udp_dual_listener_lens,
                b.udp_dual_listener_lens_3
            ));
        }
        for sk in skipped {
            t.push_str(&format!("; SOCKS5 UDP with the SOCKS listener on the dual-stack wildcard address [::]: {sk}"));
        }
        t
    };
    let stray_rule = format!("; plus SOCKS5 UDP (IPv4 header, domain header) x stray datagram to the relay port from another local socket after the first exchange ({}) with {}-byte payloads, 3 exchanges", Topo::STRAY.iter().filter_map(|t| t.stray()).map(|(d, n)| format!("{n}: {}", vcommon::report::hex(d))).collect::<Vec<_>>().join(", "), udp::STRAY_LEN);
    let unsendable_rule = format!(
        "; plus SOCKS5 UDP (IPv4 header, domain header) x ONE association with a slow target: question-1 to target A (ONE transmission; A answers it {} ms after it got it), as soon as A has it ONE datagram to a second destination ({}), then the answer of A must reach the local client and question-2 to A must reach A from the same server-side address as question-1, {}-byte payloads (see assumptions)",
        udp::UNSEND_DELAY_MS,
        Topo::UNSENDABLE.iter().filter_map(|t| t.unsendable()).map(|(d, n, _)| format!("{n}: {}", d.describe())).collect::<Vec<_>>().join("; "),
        udp::UNSEND_LEN
    );
    let overlong_rule = format!(
        "; plus UDP remote x target host of the remote specification too long for a datagram frame ({}): ONE client with a fixed-target TCP remote to an echo target AND a `udp` remote 127.0.0.1:PORT:<N x 'a'>:{}/udp; a TCP connection through the TCP remote echoes {} bytes, ONE datagram of {} bytes is sent to the UDP remote's local port, {} ms later the SAME TCP connection must echo {} more bytes, a second TCP connection through the remote must be accepted and echo {} bytes, and client_main_inner must still be running (keys {}.tcp-stream-broken / .new-connection-refused / .client-ended + .256 / .255-control; see assumptions)",
        Topo::OVERLONG.iter().filter_map(|t| t.overlong()).map(|(n, v)| format!("{v}: N = {n}")).collect::<Vec<_>>().join(", "),
        udp::OVERLONG_DST_PORT,
        udp::OVERLONG_TCP_LEN,
        udp::OVERLONG_LEN,
        udp::OVERLONG_PAUSE_MS,
        udp::OVERLONG_TCP_LEN,
        udp::OVERLONG_TCP_LEN,
        udp::OVERLONG_KEY
    );
    rep.rule = format!("complete product, every point enumerated (no sampling): TCP = entry point (7) x connections {:?} x chunking (3) x [close order (4) x client->target length in L x target->client length in L + target-refuses x client->target length in L], where {len_rule}{after_half_rule}{slow_rule}{with_request_rule}{odd_rule}{v6_rule}{dual_rule}; UDP = entry (UDP remote, SOCKS5 UDP with IPv4 header, with domain header) x topology (1 client, 3 clients, 1 socket to 2 entry points, 1 client whose payload lengths change from datagram to datagram (len, 3, len+500, 0, len+1); SOCKS5 only: 1 association alternating between 2 targets with the same host string and different ports, and between 2 targets with different host strings 127.0.0.1/127.0.0.2 and the same port) x payload length, 3 request/reply exchanges per leg{stray_rule}{unsendable_rule}{overlong_rule}{families_rule}{dual_listener_rule}{}; one execution per point (more only after a lost port race or a deadline hit); a case is distinct when its parameter tuple is distinct", b.concs, {
        let newcomer = format!("3 local clients with one pruned before a newcomer: A and B make one exchange each ({}-byte payloads), A goes silent, B makes one exchange per second for 2*UDP_PRUNE_TIMEOUT+{} = {} s (A is pruned on the client side, B never is), then a NEW client C makes one exchange, B one more, C one more: every reply at exactly the socket that sent the request (keys end in {}; see assumptions)", udp::SLOW_LEN, udp::NEWCOMER_EXTRA_S, 2 * udp::prune_timeout().as_secs() + udp::NEWCOMER_EXTRA_S, udp::NEWCOMER_KEY_SUFFIX);
        let idle = format!("idle: one exchange, {} s of silence, one more exchange | idle gap between one and two prune timeouts: one exchange, {} s of silence, one more exchange from the same socket whose FIRST transmission must be at the target within {} ms", 2 * udp::prune_timeout().as_secs() + 1, udp::prune_timeout().as_secs() + udp::GAP_EXTRA_S, udp::GAP_FIRST_TX_MS);
        if b.slow_udp {
            format!("; plus the real-time scenarios: UDP entry (3) x [{newcomer} | steady sender: 1 datagram of {} bytes per second for 2*UDP_PRUNE_TIMEOUT+3 = {} s to a silent target, which then answers the last one | {idle}]", udp::SLOW_LEN, 2 * udp::prune_timeout().as_secs() + 3)
        } else {
            format!("; plus three real-time scenarios per UDP entry (3), started first and run beside everything else: [{newcomer} | {idle}]")
        }
    });
    rep.bounds.insert("tcp_entry_points".into(), json!(Entry::ALL.iter().map(|e| e.name()).collect::<Vec<_>>()));
    rep.bounds.insert("ipv6_loopback".into(), json!(b.ipv6_loopback));
    rep.bounds.insert("tcp_ipv6_literal_entry_points".into(), json!(if b.ipv6_loopback { Entry::V6.iter().map(|e| e.name()).collect::<Vec<_>>() } else { Vec::new() }));
    rep.bounds.insert("tcp_ipv6_literal_payload_lengths_c2t_t2c".into(), json!(b.tcp_v6_lens));
    rep.bounds.insert("tcp_ipv6_literal_cases".into(), json!(cases.iter().filter(|c| matches!(c, Case::Tcp(t) if t.entry.v6literal())).count()));
    rep.bounds.insert("dual_stack_names".into(), json!(dual_status));
    rep.bounds.insert("dual_stack_name_hosts_file".into(), json!(tcp::dual_hosts_file()));
    rep.bounds.insert("dual_stack_name_resolver_order".into(), dual_order.clone());
    rep.bounds.insert("dual_stack_name_entry_points".into(), json!(if n_dual > 0 { tcp::DUAL_ENTRIES.iter().map(|e| e.name()).collect::<Vec<_>>() } else { Vec::new() }));
    rep.bounds.insert("dual_stack_name_target_listens_on".into(), json!(if n_dual > 0 { Listen::ALL.iter().map(|e| e.name()).collect::<Vec<_>>() } else { Vec::new() }));
    rep.bounds.insert("dual_stack_name_payload_lengths_c2t_t2c".into(), json!(b.tcp_dual_lens));
    rep.bounds.insert("dual_stack_name_cases".into(), json!(n_dual));
    rep.bounds.insert("udp_ipv6_loopback".into(), json!(b.udp_two_families));
    rep.bounds.insert("udp_two_address_families_topologies".into(), json!(if b.udp_two_families { Topo::FAMILIES.iter().map(|e| e.name()).collect::<Vec<_>>() } else { Vec::new() }));
    rep.bounds.insert("udp_two_address_families_payload_length".into(), json!(udp::FAMILIES_LEN));
    rep.bounds.insert("udp_two_address_families_cases".into(), json!(cases.iter().filter(|c| matches!(c, Case::Udp(u) if u.topo.two_families())).count()));
    rep.bounds.insert("udp_dual_stack_listener".into(), b.dual_listener_status());
    rep.bounds.insert("udp_dual_stack_listener_topologies".into(), json!(Topo::DUAL_LISTENER.iter().filter(|t| b.dual_listener_skip(**t).is_none()).map(|e| e.name()).collect::<Vec<_>>()));
    rep.bounds.insert("udp_dual_stack_listener_topologies_skipped".into(), json!(Topo::DUAL_LISTENER.iter().filter(|t| b.dual_listener_skip(**t).is_some()).map(|e| e.name()).collect::<Vec<_>>()));
    rep.bounds.insert("udp_dual_stack_listener_entries".into(), json!(UKind::ALL.iter().filter(|k| UdpCase { kind: **k, size: 0, topo: Topo::DualV4 }.valid()).map(|e| e.name()).collect::<Vec<_>>()));
    rep.bounds.insert("udp_dual_stack_listener_payload_lengths_1_client".into(), json!(b.udp_dual_listener_lens));
    rep.bounds.insert("udp_dual_stack_listener_payload_lengths_3_clients".into(), json!(b.udp_dual_listener_lens_3));
    rep.bounds.insert("udp_dual_stack_listener_cases".into(), json!(cases.iter().filter(|c| matches!(c, Case::Udp(u) if u.topo.dual_listener().is_some())).count()));
    rep.bounds.insert("udp_stray_datagram_topologies".into(), json!(Topo::STRAY.iter().map(|e| e.name()).collect::<Vec<_>>()));
    rep.bounds.insert("udp_stray_datagram_payload_length".into(), json!(udp::STRAY_LEN));
    rep.bounds.insert("udp_stray_datagram_cases".into(), json!(cases.iter().filter(|c| matches!(c, Case::Udp(u) if u.topo.stray().is_some())).count()));
    rep.bounds.insert("udp_unsendable_destination_topologies".into(), json!(Topo::UNSENDABLE.iter().map(|e| e.name()).collect::<Vec<_>>()));
    rep.bounds.insert("udp_unsendable_destination_second_destinations".into(), json!(Topo::UNSENDABLE.iter().filter_map(|t| t.unsendable()).map(|(d, n, why)| json!({"variant": n, "destination": d.describe(), "why": why})).collect::<Vec<_>>()));
    rep.bounds.insert("udp_unsendable_destination_entries".into(), json!(UKind::ALL.iter().filter(|k| UdpCase { kind: **k, size: udp::UNSEND_LEN, topo: Topo::UnsendControl }.valid()).map(|e| e.name()).collect::<Vec<_>>()));
    rep.bounds.insert("udp_unsendable_destination_payload_length".into(), json!(udp::UNSEND_LEN));
    rep.bounds.insert("udp_unsendable_destination_slow_target_delay_ms".into(), json!(udp::UNSEND_DELAY_MS));
    rep.bounds.insert("udp_unsendable_destination_answer_lost_after_ms".into(), json!(udp::UNSEND_LOST_AFTER_MS));
    rep.bounds.insert("udp_unsendable_destination_cases".into(), json!(cases.iter().filter(|c| matches!(c, Case::Udp(u) if u.topo.unsendable().is_some())).count()));
    rep.bounds.insert("udp_overlong_target_host_topologies".into(), json!(Topo::OVERLONG.iter().map(|e| e.name()).collect::<Vec<_>>()));
    rep.bounds.insert("udp_overlong_target_host_octets".into(), json!(Topo::OVERLONG.iter().filter_map(|t| t.overlong()).map(|(n, v)| json!({"variant": v, "target_host_octets": n, "target_host": format!("{n} x 'a'")})).collect::<Vec<_>>()));
    rep.bounds.insert("udp_overlong_target_host_entries".into(), json!(UKind::ALL.iter().filter(|k| UdpCase { kind: **k, size: udp::OVERLONG_LEN, topo: Topo::OverlongHost256 }.valid()).map(|e| e.name()).collect::<Vec<_>>()));
    rep.bounds.insert("udp_overlong_target_host_datagram_payload_length".into(), json!(udp::OVERLONG_LEN));
    rep.bounds.insert("udp_overlong_target_host_tcp_block_length".into(), json!(udp::OVERLONG_TCP_LEN));
    rep.bounds.insert("udp_overlong_target_host_pause_after_datagram_ms".into(), json!(udp::OVERLONG_PAUSE_MS));
    rep.bounds.insert("udp_overlong_target_host_cases".into(), json!(cases.iter().filter(|c| matches!(c, Case::Udp(u) if u.topo.overlong().is_some())).count()));
    rep.bounds.insert("tcp_payload_lengths".into(), json!(b.tcp_lens));
    rep.bounds.insert("tcp_payload_length_only_for_1_connection_one_write".into(), json!(b.tcp_len_window));
    rep.bounds.insert("tcp_connections".into(), json!(b.concs));
    rep.bounds.insert("tcp_chunkings".into(), json!(Chunk::ALL.iter().map(|e| e.name()).collect::<Vec<_>>()));
    rep.bounds.insert("tcp_close_orders".into(), json!(Order::ALL.iter().map(|e| e.name()).collect::<Vec<_>>()));
    rep.bounds.insert("tcp_close_orders_after_half_close_sub_matrix".into(), json!(Order::AFTER_HALF.iter().map(|e| e.name()).collect::<Vec<_>>()));
    rep.bounds.insert("tcp_after_half_close_payload_lengths_1_connection".into(), json!(b.after_half_lens));
    rep.bounds.insert("tcp_after_half_close_payload_length_3_connections".into(), json!(b.after_half_conc3_len));
    rep.bounds.insert("tcp_after_half_close_filler".into(), json!(format!("{} B every {} ms; the closing end reads up to {} B of it, for at most {} ms", tcp::FILLER_CHUNK, tcp::FILLER_PAUSE.as_millis(), tcp::AFTER_HALF_FILLER_READ, tcp::AFTER_HALF_LINGER.as_millis())));
    rep.bounds.insert("tcp_after_half_close_cases".into(), json!(cases.iter().filter(|c| matches!(c, Case::Tcp(t) if t.order.after_half())).count()));
    rep.bounds.insert("tcp_slow_reader_directions".into(), json!(SlowDir::ALL.iter().map(|d| d.name()).collect::<Vec<_>>()));
    rep.bounds.insert("tcp_slow_reader_payload_length".into(), json!(b.slow_reader_len));
    rep.bounds.insert("tcp_slow_reader_reverse_payload_length".into(), json!(tcp::SLOW_REVERSE_LEN));
    rep.bounds.insert("tcp_slow_reader_stall_s".into(), json!(b.slow_reader_stall_s));
    rep.bounds.insert("tcp_slow_reader_chunking".into(), json!(tcp::SLOW_CHUNK.name()));
    rep.bounds.insert("tcp_slow_reader_entry_finish_connections".into(), json!(b.slow_reader_points.iter().map(|(e, half, conc)| json!([e.name(), if *half { "half-close" } else { "close" }, conc])).collect::<Vec<_>>()));
    rep.bounds.insert("tcp_slow_reader_deadline_s".into(), json!(slow_cases.first().map_or(b.deadline_s, |c| c.deadline_s(b.deadline_s))));
    rep.bounds.insert("tcp_slow_reader_cases".into(), json!(slow_cases.iter().map(TcpCase::label).collect::<Vec<_>>()));
    rep.bounds.insert("tcp_with_request_chunking".into(), json!(Chunk::WithRequest.name()));
    rep.bounds.insert("tcp_with_request_entry_points".into(), json!(tcp::WITH_REQUEST_ENTRIES.iter().map(|e| e.name()).collect::<Vec<_>>()));
    rep.bounds.insert("tcp_with_request_close_orders".into(), json!(tcp::WITH_REQUEST_ORDERS.iter().map(|e| e.name()).collect::<Vec<_>>()));
    rep.bounds.insert("tcp_with_request_connections".into(), json!(b.with_request_concs));
    rep.bounds.insert("tcp_with_request_payload_lengths_c2t".into(), json!(b.with_request_c2t_lens));
    rep.bounds.insert("tcp_with_request_payload_lengths_t2c".into(), json!(b.with_request_t2c_lens));
    rep.bounds.insert("tcp_with_request_bytes_in_the_write_of_the_request_at_most".into(), json!(tcp::WITH_REQUEST_HEAD));
    rep.bounds.insert("tcp_with_request_cases".into(), json!(with_request_cases.len()));
    rep.bounds.insert("tcp_odd_target_host_entry_points".into(), json!(b.odd_hosts_per_entry.iter().map(|(e, _)| e.name()).collect::<Vec<_>>()));
    rep.bounds.insert("tcp_odd_target_host_hosts".into(), json!(tcp::odd_hosts().iter().map(|(h, what)| json!({"hex": vcommon::report::hex(h), "lossy": String::from_utf8_lossy(h), "what": what})).collect::<Vec<_>>()));
    rep.bounds.insert("tcp_odd_target_host_hosts_per_entry_point_hex".into(), json!(b.odd_hosts_per_entry.iter().map(|(e, _)| (e.name().to_string(), odd_cases.iter().filter(|c| c.entry == *e).filter_map(|c| c.odd.as_ref().map(|h| vcommon::report::hex(h))).collect::<Vec<_>>())).collect::<BTreeMap<_, _>>()));
    rep.bounds.insert("tcp_odd_target_host_port".into(), json!(tcp::ODD_PORT));
    rep.bounds.insert("tcp_odd_target_host_payload_length_per_direction".into(), json!(tcp::ODD_LEN));
    rep.bounds.insert("tcp_odd_target_host_cases".into(), json!(odd_cases.len()));
    rep.bounds.insert("udp_entries".into(), json!(UKind::ALL.iter().map(|e| e.name()).collect::<Vec<_>>()));
    rep.bounds.insert("udp_topologies".into(), json!(Topo::ALL.iter().map(|e| e.name()).collect::<Vec<_>>()));
    rep.bounds.insert("udp_payload_lengths".into(), json!(b.udp_lens));
    rep.bounds.insert("udp_exchanges_per_leg".into(), json!(udp::EXCHANGES));
    rep.bounds.insert("udp_real_time_scenarios".into(), json!(cases.iter().filter_map(|c| match c { Case::Udp(u) if u.topo.slow() => Some(u.topo.name()), _ => None }).collect::<std::collections::BTreeSet<_>>()));
    rep.bounds.insert("udp_real_time_cases".into(), json!(cases.iter().filter(|c| matches!(c, Case::Udp(u) if u.topo.slow())).map(Case::label).collect::<Vec<_>>()));
    rep.bounds.insert("udp_one_pruned_then_newcomer_entries".into(), json!(UKind::ALL.iter().filter(|k| UdpCase { kind: **k, size: udp::SLOW_LEN, topo: Topo::PruneThenNewcomer }.valid()).map(|e| e.name()).collect::<Vec<_>>()));
    rep.bounds.insert("udp_one_pruned_then_newcomer_keepalive_exchanges_of_client_b_one_per_second".into(), json!(2 * udp::prune_timeout().as_secs() + udp::NEWCOMER_EXTRA_S));
    rep.bounds.insert("udp_one_pruned_then_newcomer_payload_length".into(), json!(udp::SLOW_LEN));
    rep.bounds.insert("udp_one_pruned_then_newcomer_cases".into(), json!(cases.iter().filter(|c| matches!(c, Case::Udp(u) if u.topo == Topo::PruneThenNewcomer)).count()));
    rep.bounds.insert("udp_prune_timeout_s".into(), json!(udp::prune_timeout().as_secs()));
    rep.bounds.insert("tcp_cases".into(), json!(n_tcp));
    rep.bounds.insert("udp_cases".into(), json!(n_udp));
    rep.bounds.insert("deadline_s".into(), json!(b.deadline_s));
    rep.bounds.insert("parallel_scenarios".into(), json!(b.parallel));
    rep.extra.insert("ipv6_loopback".into(), json!(b.ipv6_loopback));
    rep.extra.insert("tcp_ipv6_literal_cases_clean".into(), json!(sums.v6_cases_clean));
    rep.extra.insert("udp_stray_datagram_cases_clean".into(), json!(sums.stray_cases_clean));
    rep.extra.insert("udp_unsendable_destination_cases_clean".into(), json!(sums.unsendable_cases_clean));
    rep.extra.insert("udp_unsendable_destination_cases_judged_definitively".into(), json!(sums.udp.unsendable_judged));
    rep.extra.insert("udp_unsendable_destination_answer_late_not_lost".into(), json!(sums.udp.unsendable_answer_late));
    rep.extra.insert("udp_one_pruned_then_newcomer_cases_clean".into(), json!(sums.newcomer_cases_clean));
    rep.extra.insert("udp_one_pruned_then_newcomer_cases_with_the_intended_history".into(), json!(sums.udp.newcomer_judged));
    rep.extra.insert("udp_one_pruned_then_newcomer_keepalive_exchanges_unanswered_within_their_second".into(), json!(sums.udp.newcomer_keepalives_unanswered));
    rep.extra.insert("udp_overlong_target_host_cases_clean".into(), json!(sums.overlong_cases_clean));
    rep.extra.insert("udp_overlong_target_host_sequences_completed".into(), json!(sums.udp.overlong_completed));
    rep.extra.insert("udp_overlong_target_host_tcp_bytes_echoed".into(), json!(sums.udp.overlong_tcp_bytes_echoed));
    rep.extra.insert("udp_two_address_families_cases_clean".into(), json!(sums.families_cases_clean));
    rep.extra.insert("udp_dual_stack_listener".into(), b.dual_listener_status());
    rep.extra.insert("udp_dual_stack_listener_cases_clean".into(), json!(sums.dual_listener_cases_clean));
    rep.extra.insert("dual_stack_names".into(), json!(dual_status));
    rep.extra.insert("dual_stack_name_resolver_order".into(), dual_order.clone());
    rep.extra.insert("dual_stack_name_cases_clean".into(), json!(sums.dual_cases_clean));
    rep.extra.insert("dual_stack_name_cases_vacuous_direct_connection_fails_too".into(), json!(sums.dual_cases_vacuous));
    rep.extra.insert("dual_stack_child_panics".into(), dual_panics);
    rep.extra.insert("executions".into(), json!(tally.executions.load(Ordering::Relaxed)));
    rep.extra.insert("time_wait_throttle_ms_total".into(), json!(tally.throttle_ms.load(Ordering::Relaxed)));
    rep.extra.insert("subject_listener_port_pool".into(), json!(super::c01_env::port_pool_range()));
    rep.extra.insert("port_race_reruns".into(), json!(tally.port_races.load(Ordering::Relaxed)));
    rep.extra.insert("isolation_reruns".into(), json!(tally.isolation_runs.load(Ordering::Relaxed)));
    rep.extra.insert("deadline_hits_not_reproduced_alone".into(), json!(tally.deadline_not_reproduced.load(Ordering::Relaxed)));
    rep.extra.insert("deadline_hits_not_reproduced_cases".into(), json!(sums.flaky));
    rep.extra.insert("deadline_failures_without_verdict".into(), json!(sums.unconfirmed));
    rep.extra.insert("deadline_failures_without_verdict_cases".into(), json!(sums.unconfirmed_list));
    rep.extra.insert("deadline_failures_counted_without_rerun".into(), json!(tally.counted_without_rerun.load(Ordering::Relaxed)));
    rep.extra.insert("tcp_cases_clean".into(), json!(sums.tcp_cases_clean));
    rep.extra.insert("tcp_refuse_cases_clean".into(), json!(sums.refuse_cases_clean));
    rep.extra.insert("udp_cases_clean".into(), json!(sums.udp_cases_clean));
    rep.extra.insert("tcp_connections_verified".into(), json!(sums.tcp.conns_verified));
    rep.extra.insert("tcp_bytes_verified".into(), json!(sums.tcp.bytes_verified));
    rep.extra.insert("tcp_halfclose_eof_then_reverse_data_verified".into(), json!(sums.tcp.halfclose_eof_seen));
    rep.extra.insert("tcp_final_end_eof".into(), json!(sums.tcp.end_eof));
    rep.extra.insert("tcp_final_end_reset".into(), json!(sums.tcp.end_reset));
    rep.extra.insert("tcp_after_half_close_cases_clean".into(), json!(sums.after_half_cases_clean));
    rep.extra.insert("tcp_closed_after_half_close_then_close".into(), json!(sums.tcp.after_halfclose_closed));
    rep.extra.insert("tcp_closed_after_half_close_then_close_filler_read_before_close".into(), json!(sums.tcp.after_halfclose_filler_read));
    rep.extra.insert("tcp_closed_after_half_close_then_close_write_error_kinds".into(), json!(sums.tcp.after_halfclose_end_kinds));
    rep.extra.insert("tcp_slow_reader_cases_clean".into(), json!(sums.slow_reader_cases_clean));
    rep.extra.insert("tcp_with_request_cases_clean".into(), json!(sums.with_request_cases_clean));
    rep.extra.insert("tcp_odd_target_host_cases_clean".into(), json!(sums.odd_cases_clean));
    rep.extra.insert("tcp_odd_target_host_bystander_completed".into(), json!(sums.tcp.odd_bystander_completed));
    rep.extra.insert("tcp_odd_target_host_later_connection_worked".into(), json!(sums.tcp.odd_later_connection_worked));
    rep.extra.insert("tcp_odd_target_host_how_the_odd_request_ended".into(), json!(sums.tcp.odd_request_ends));
    rep.extra.insert("tcp_slow_reader_cases_verified_with_every_writer_held_back_at_first_read".into(), json!(sums.tcp.slow_reader_backed_up));
    rep.extra.insert("tcp_slow_reader_bytes_written_per_connection_at_first_read_min_max".into(), json!([sums.tcp.slow_reader_written_at_first_read_min, sums.tcp.slow_reader_written_at_first_read_max]));
    rep.extra.insert("refuse_granted_then_closed".into(), json!(sums.tcp.refuse_granted_then_closed));
    rep.extra.insert("refuse_local_end_eof".into(), json!(sums.tcp.refuse_end_eof));
    rep.extra.insert("refuse_local_end_reset".into(), json!(sums.tcp.refuse_end_reset));
    rep.extra.insert("refuse_refusal_reply".into(), json!(sums.tcp.refuse_refused_reply));
    rep.extra.insert("refuse_closed_before_reply".into(), json!(sums.tcp.refuse_closed_before_reply));
    rep.extra.insert("udp_requests_at_target".into(), json!(sums.udp.requests_at_target));
    rep.extra.insert("udp_replies_verified".into(), json!(sums.udp.replies_verified));
    rep.extra.insert("udp_retransmissions".into(), json!(sums.udp.retransmissions));
    rep.extra.insert("udp_duplicate_or_extra_replies".into(), json!(sums.udp.duplicates));
    rep.extra.insert("socks5_udp_headers_parsed".into(), json!(sums.udp.socks_headers_parsed));
    rep.extra.insert("socks5_udp_header_addr_is_target".into(), json!(sums.udp.socks_header_addr_is_target));
    rep.extra.insert("socks5_udp_header_addr_is_local_client".into(), json!(sums.udp.socks_header_addr_is_client));
    rep.extra.insert("socks5_udp_header_addr_other".into(), json!(sums.udp.socks_header_addr_other));
    rep.extra.insert("socks5_udp_header_addr_is_ipv4_mapped_ipv6".into(), json!(sums.udp.socks_header_addr_ipv4_mapped));
    rep.extra.insert("slowest_scenario_ms".into(), json!(sums.max_wall_ms));
    rep.extra.insert("domain_name_used".into(), json!(env.domain));
    rep.extra.insert("build_profile".into(), json!(if cfg!(debug_assertions) { "checked" } else { "release" }));
    {
        let p = PANICS.lock().unwrap_or_else(std::sync::PoisonError::into_inner);
        rep.extra.insert("panics_observed".into(), json!(p.len()));
        rep.extra.insert("panics".into(), json!(p.iter().take(10).map(|(t, l, m)| json!({"thread": t, "at": l, "msg": m})).collect::<Vec<_>>()));
    }
    if degraded.load(Ordering::SeqCst) {
        rep.caps_hit.push(format!("after two deadline failures were confirmed alone, the remaining scenarios ran with a {SHORT_DEADLINE_S} s deadline and repeated failures were counted without a re-run (counts of those keys are approximate)"));
    }
    // samples: one per kind of scenario
    if n_dual > 0 {
        if let Some(c) = dual_matrix(&b).iter().find(|c| matches!(c, Case::Tcp(t) if t.entry == Entry::Socks5Domain && t.dual.is_some_and(|d| d.listen == Listen::V4))) {
            rep.sample(c.to_json());
        }
    }
    let picks: [&dyn Fn(&Case) -> bool; 17] = [
        &|c| matches!(c, Case::Tcp(t) if t.entry == Entry::Socks5Domain && t.odd.as_deref() == Some(&b"["[..])),
        &|c| matches!(c, Case::Udp(u) if u.kind == UKind::Remote && u.topo == Topo::PruneThenNewcomer),
        &|c| matches!(c, Case::Udp(u) if u.topo == Topo::OverlongHost256),
        &|c| matches!(c, Case::Tcp(t) if t.chunk == Chunk::WithRequest && t.entry == Entry::Socks5Domain && t.order == Order::ClientHalf && t.conc == 1 && t.c2t > tcp::WITH_REQUEST_HEAD && t.t2c > 1),
        &|c| matches!(c, Case::Tcp(t) if t.slow.is_some_and(|s| s.dir == SlowDir::Download) && t.entry == Entry::TcpRemote && t.conc == 1),
        &|c| matches!(c, Case::Tcp(t) if t.slow.is_some_and(|s| s.dir == SlowDir::Upload) && t.entry == Entry::Socks5Ip),
        &|c| matches!(c, Case::Udp(u) if u.kind == UKind::SocksIp && u.topo == Topo::DualV4 && u.size == 3),
        &|c| matches!(c, Case::Tcp(t) if t.order == Order::TargetHalfThenClose && t.entry == Entry::Socks5Ip && t.conc == 1 && t.c2t == 1 && t.t2c > 1),
        &|c| matches!(c, Case::Udp(u) if u.topo == Topo::TwoFamilies),
        &|c| matches!(c, Case::Tcp(t) if t.entry == Entry::HttpConnectV6 && t.c2t > 1),
        &|c| matches!(c, Case::Udp(u) if u.kind == UKind::SocksIp && u.topo == Topo::StrayAtyp),
        &|c| matches!(c, Case::Tcp(t) if t.order == Order::ClientHalf && t.conc > 1 && t.c2t > 1 && t.t2c > 1 && t.entry == Entry::Socks5Domain),
        &|c| matches!(c, Case::Tcp(t) if t.order == Order::TargetClose && t.entry == Entry::HttpConnect && t.c2t == 1 && t.t2c > 1),
        &|c| matches!(c, Case::Tcp(t) if t.order == Order::Refuse && t.entry == Entry::Socks4a),
        &|c| matches!(c, Case::Tcp(t) if t.order == Order::TargetHalf && t.entry == Entry::UnixRemote && t.c2t == 0),
        &|c| matches!(c, Case::Udp(u) if u.kind == UKind::SocksIp && u.topo == Topo::Three && u.size == 3),
        &|c| matches!(c, Case::Udp(u) if u.kind == UKind::Remote && u.topo == Topo::Shared && u.size == 0),
    ];
    for p in picks {
        if let Some(c) = cases.iter().find(|c| p(c)) {
            rep.sample(c.to_json());
        }
    }
    rep.assumptions.push("interleavings are whatever the multi-thread tokio runtime and the kernel produce: ONE uncontrolled schedule per matrix point (level: exploration); the schedule-sensitive part of the same paths is decided by C02/C05/C13 with owned schedules".into());
    rep.assumptions.push("a violation that needs a particular interleaving (e.g. back-pressure from the other scenarios running in parallel) may not show again when its replay file is run alone; the replay then reports no violation".into());
    rep.assumptions.push("quick tier: 70001-byte streams (nine 8 KiB frames) everywhere; the stream of one receive window of 8 KiB frames plus 4099 bytes (the sender needs at least one window update) only with 1 connection and one-write chunking (every entry point, every close order); thorough tier: three windows and 4099 bytes in every combination, 5 simultaneous connections and more datagram lengths".into());
    rep.assumptions.push("how a read ends after BOTH directions are finished (EOF or reset) is recorded, not judged; a half-close must arrive as a true EOF and the data sent after it must arrive completely".into());
    rep.assumptions.push(format!("close-after-half-close orders: only 'the still-sending end's writes begin to fail before the deadline' is judged about the close (which error, and whether a reset or an EOF came first, is recorded in extra.tcp_closed_after_half_close_then_close_write_error_kinds); the closing end closes after the other end's payload and {} filler bytes or {} ms, whichever comes first (extra.tcp_closed_after_half_close_then_close_filler_read_before_close counts the closes that had read filler); the filler received must be a prefix of the filler sent", tcp::AFTER_HALF_FILLER_READ, tcp::AFTER_HALF_LINGER.as_millis()));
    rep.assumptions.push(format!("slow-reader sub-matrix: the stall is a fixed time ({} s), not 'until the writer blocks'; that the writers were in fact held back when the reading began (payload bytes left to write on every connection) is recorded (extra.tcp_slow_reader_cases_verified_with_every_writer_held_back_at_first_read, extra.tcp_slow_reader_bytes_written_per_connection_at_first_read_min_max) and a run in which no clean scenario was like that is vacuous (a machinery error); the socket buffer sizes are the kernel's (no SO_SNDBUF / SO_RCVBUF is set); only the order 'first read after the stall' is imposed on the reader, how fast it reads afterwards is whatever the runtime gives. The writes are {} ms apart on purpose: the bridges of the subject put everything they can read at one go into ONE Push frame and the window counts frames, so a writer that never pauses travels as a few frames of many megabytes and no window ever fills (measured here: 256 MiB written within 3 s with nobody reading); how many frames the paced writes become is still the subject's and the scheduler's business", b.slow_reader_stall_s, tcp::K16_PAUSE.as_millis()));
    rep.assumptions.push(format!("with-request sub-matrix: 'in the same write' is one write_all of one buffer (request ++ first payload bytes, at most {} + the request) on a loopback TCP socket; whether the proxy receives both with ONE read is the kernel's business (on loopback a write of this size is queued as one piece) and is not checked; a client that sends before the reply is within the SOCKS4 memo and RFC 1928 (neither makes the client wait; the bytes wait in the proxy's buffers) and a direct connection would deliver the bytes", tcp::WITH_REQUEST_HEAD));
    rep.assumptions.push(format!("odd-target-host sub-matrix: the local connection that names the odd host (Y) is judged only for 'not left hanging' (a failure reply, a close before the reply, a success answer followed by a close or reset, and an answer outside the protocol all end the waiting; how it ended is recorded in extra.tcp_odd_target_host_how_the_odd_request_ended); if Y is still open at the deadline and a direct connection from this process to (host, {}) is accepted, there is no verdict (the host leads somewhere here). Hosts an entry point cannot express are left out there (SOCKS4a and HTTP CONNECT: the octet that is not UTF-8; HTTP CONNECT: the name with a space, which would not be ONE request-target). A broken bystander (reset, EOF or other octets) is definitive unless it shows after more than half of the deadline has passed; 'still open and silent at the deadline' is deadline-type (counts only when it shows again with the scenario run alone). Whatever goes wrong before Y asks has keys tcp.{}.before-the-odd-request.<entry>", tcp::ODD_PORT, tcp::ODD_KEY));
    rep.assumptions.push("target refuses: a SOCKS/HTTP success answer followed by a close, a refusal answer, or a close before the answer all count as 'closed rather than left hanging'".into());
    rep.assumptions.push("the address inside the SOCKS5 UDP reply header is recorded (extra.socks5_udp_header_addr_*), not judged: the statement only demands a well-formed header that can be stripped".into());
    rep.assumptions.push("loopback only (127.0.0.1, a Unix socket and, for the targets of the IPv6-literal, dual-stack-name and two-address-families sub-matrices where it exists, [::1]); plain ws:// between client and server; keep-alive off; fresh client+server per matrix point".into());
    rep.assumptions.push("dual-stack-listener topologies: the only scenarios whose SOCKS listener is not on 127.0.0.1. BND.ADDR of the UDP ASSOCIATE reply is the unspecified address there; the local application then sends to the address it reached the proxy at (127.0.0.1, resp. [::1]) with BND.PORT, as everywhere else. They need a socket bound to [::] that is reachable over 127.0.0.1 (net.ipv6.bindv6only = 0), resp. over [::1]; this is probed once with sockets of the harness itself, and where it does not hold the topologies are left out (bounds.udp_dual_stack_listener says why): not a violation, not a machinery error. Their violation keys end in .dual-stack-listener-ipv4-app / .dual-stack-listener-ipv6-app".into());
    rep.assumptions.push("UDP loss tolerance: a request is retransmitted up to 5 times over 21.5 s before its reply counts as missing".into());
    rep.assumptions.push(format!("exceptions to the UDP loss tolerance, both judged on purpose before the schedule is used up: (a) idle-gap scenario: the FIRST datagram after the gap has {} ms to show up at the target (a deadline-type failure: it counts only when it shows again with the scenario run alone); (b) stray-datagram scenarios: an exchange unanswered after 3 transmissions is declared dead only if a fresh association through the same client, server and target then works and a 4th transmission on the old association (waiting at least 1 s and at least 20 times what the fresh association took) still gets nothing", udp::GAP_FIRST_TX_MS));
    rep.assumptions.push(format!("two-address-families scenarios (SOCKS5 UDP, one association, targets on 127.0.0.1 and [::1] in turn): a third exception to the UDP loss tolerance. The FIRST transmission of every exchange after the first has {} ms to show up at its target; if it has not, a fresh association through the same client and server makes one exchange with that very target (full loss tolerance); if that works and the datagram of the old association is still not at the target after at least 1 s and at least 20 times what the fresh association took, it is judged not delivered (key {}, not a deadline-type failure); the retransmissions then go on as usual", udp::FAMILIES_FIRST_TX_MS, udp::FAMILY_KEY));
    rep.assumptions.push(format!(
        "unsendable-destination scenarios (SOCKS5 UDP, one association, a target A that answers question-1 {} ms late, ONE datagram to a destination the server cannot send to while that answer is outstanding; control variant: a reachable second destination): a fourth exception to the UDP loss tolerance. Question-1 is transmitted ONCE (a retransmission would mask the loss of its answer); if it is not at A within {} ms the scenario goes on with the usual retransmissions and judges nothing definitively. Key {}.<variant>: A's own log shows that it received question-1 and SENT its answer (and to which address), the local client does not have the answer {} ms after A sent it nor at the end of the scenario, AND question-2, sent afterwards through the same association, is answered by A (every hop of the way back keeps the order of datagrams: an answer that was merely slow would be there first) or, if question-2 gets no reply either, a fresh association at the same entry point exchanges a datagram with A. Key {}.<variant>: A's own log shows question-2 coming from another address than question-1, less than UDP_PRUNE_TIMEOUT - {} s after the local client sent question-1. Both are deadline-type failures (they count only when they show again with the scenario run alone; the variants of the second destination count as one failure for that purpose); how many scenarios met the preconditions (question-1 at A after one transmission, the second datagram sent before A answered, A answered) is recorded in extra.udp_unsendable_destination_cases_judged_definitively",
        udp::UNSEND_DELAY_MS,
        udp::UNSEND_FIRST_TX_MS,
        udp::UNSEND_LOST_KEY,
        udp::UNSEND_LOST_AFTER_MS,
        udp::UNSEND_PORT_KEY,
        udp::UNSEND_PRUNE_MARGIN_S
    ));
    rep.assumptions.push(format!(
        "overlong-target-host scenarios (the only ones whose client has more than one kind of remote: a TCP remote to an echo target beside a `udp` remote whose target host is {} octets long; control: {} octets, a name that does not resolve): the remote-specification parser accepts such a host, and a datagram for it is refused at the sender (DatagramHostTooLong; the control's datagram travels and the server cannot forward it). Nothing is expected to come back for the ONE datagram; judged is what may NOT follow from it, {} ms after it was sent: the TCP connection opened before it still echoes (key {k}.tcp-stream-broken.<variant>), a new connection through the TCP remote is accepted and echoes (key {k}.new-connection-refused.<variant>) and client_main_inner has not returned (key {k}.client-ended.<variant>). A connection that was closed or reset, a refused connect and an ended client are definitive (not deadline-type: they count at once); only 'open but silent until the deadline' is a deadline-type failure. Whatever goes wrong BEFORE the datagram is sent has keys {k}.before-the-datagram.* or subject.client-exited. extra.udp_overlong_target_host_sequences_completed counts the scenarios that went through the whole sequence",
        Topo::OverlongHost256.overlong().map_or(0, |o| o.0),
        Topo::OverlongHost255.overlong().map_or(0, |o| o.0),
        udp::OVERLONG_PAUSE_MS,
        k = udp::OVERLONG_KEY
    ));
    rep.assumptions.push(format!(
        "one-pruned-then-newcomer scenarios (UDP remote: three local sockets and one listening port; SOCKS5 UDP: three associations, all made at the start): client A is silent for at least 2 * UDP_PRUNE_TIMEOUT = {} s before the newcomer C sends its first datagram (the client prunes a flow between one and two prune timeouts after its last use, on a timer), while client B exchanges a datagram every second (its flow never goes idle; on the server side B's forwarder stays, A's is given up). B's {} keep-alive exchanges wait {} ms each for their reply and are not retransmitted (the next one follows; how many went unanswered is recorded in extra.udp_one_pruned_then_newcomer_keepalive_exchanges_unanswered_within_their_second, and a reply that comes late is still judged); every other exchange has the usual loss tolerance. A reply received by another local socket than the one that sent the request is key udp.reply.misdelivered.<remote|socks5>{sfx} (definitive; while an exchange after the keep-alive phase waits for its reply the other clients' logs are watched, so a reply that went to the wrong client ends the waiting); an exchange whose reply arrives nowhere is key udp.reply.missing.<remote|socks5>{sfx} (deadline-type: it counts only when it shows again with the scenario run alone). The timing is the harness's: extra.udp_one_pruned_then_newcomer_cases_with_the_intended_history counts the scenarios in which B's datagrams were never more than UDP_PRUNE_TIMEOUT - {} s apart and A had been silent for two prune timeouts when C first sent; a run in which no clean scenario was like that is vacuous (a machinery error)",
        2 * udp::prune_timeout().as_secs(),
        2 * udp::prune_timeout().as_secs() + udp::NEWCOMER_EXTRA_S,
        udp::NEWCOMER_KEEPALIVE_WAIT_MS,
        udp::NEWCOMER_PRUNE_MARGIN_S,
        sfx = udp::NEWCOMER_KEY_SUFFIX
    ));
    rep.assumptions.push("dual-stack-name sub-matrix: what the resolver answers is controlled by a hosts file bind-mounted over /etc/hosts inside a private mount namespace of a child process (needs CAP_SYS_ADMIN; glibc's `files` NSS module); where that cannot be had the sub-matrix is skipped (bounds.dual_stack_names says why). The expectation is observed, not written down: a direct connection to (name, port) from the same process. The order of the addresses is whatever getaddrinfo returns (RFC 6724 sorting: recorded in bounds.dual_stack_name_resolver_order), so which listening set exposes a server that tries only the first address depends on the machine".into());
    rep.assumptions.push("IPv6-literal and dual-stack-name sub-matrices: a scenario in which every local connection has ended short of the target's payload (dual-stack names: or got a refusal / a close instead of the grant) while the target was never connected to is closed at once (key tcp.closed.target-not-reached.*) instead of waiting for the deadline".into());

    if sums.unconfirmed > 0 {
        rep.caps_hit.push(format!("{} scenario(s) hit a deadline after the {iso_cap} confirmation runs (alone, full deadline) were used up; they carry no verdict", sums.unconfirmed));
        if rep.violations.is_empty() && rep.machinery_error.is_none() {
            rep.machinery_error = Some(format!("{} scenario(s) hit a deadline that could not be re-checked alone (confirmation budget used up by deadline hits that did not reproduce): machine too loaded for a verdict", sums.unconfirmed));
        }
    }
    // ---- vacuity guard
    if rep.violations.is_empty() && rep.machinery_error.is_none() {
        let mut why = Vec::new();
        if sums.tcp.bytes_verified == 0 || sums.tcp.conns_verified == 0 {
            why.push("no TCP byte was verified");
        }
        if sums.tcp.halfclose_eof_seen == 0 {
            why.push("no half-close was observed");
        }
        if sums.tcp.after_halfclose_closed == 0 && cases.iter().any(|c| matches!(c, Case::Tcp(t) if t.order.after_half())) {
            why.push("no close after a half-close was observed");
        }
        // (one such scenario may be the load of the machine: the paced writer was too slow to fill
        // the buffers within the stall; none at all is a sub-matrix that does not do its job here)
        if sums.slow_reader_cases_clean > 0 && sums.tcp.slow_reader_backed_up == 0 {
            why.push("every slow-reader scenario passed with a writing end that had written its whole payload before the slow end began to read (the buffers on the way swallowed it)");
        }
        if sums.tcp.odd_bystander_completed != odd_cases.len() as u64 || sums.tcp.odd_later_connection_worked != odd_cases.len() as u64 {
            why.push("not every odd-target-host scenario went through its whole sequence (bystander X completed, later connection Z worked)");
        }
        if sums.tcp.refuse_granted_then_closed + sums.tcp.refuse_refused_reply + sums.tcp.refuse_closed_before_reply == 0 {
            why.push("no refusal was observed");
        }
        if sums.udp.replies_verified == 0 || sums.udp.socks_headers_parsed == 0 {
            why.push("no UDP reply / SOCKS5 UDP header was verified");
        }
        // (one such scenario may be the load of the machine; none at all is a topology that does not do its job here)
        if sums.unsendable_cases_clean > 0 && sums.udp.unsendable_judged == 0 {
            why.push("every unsendable-destination scenario passed without meeting the preconditions of its judgement (question-1 at the slow target after one transmission, the datagram for the second destination sent while the answer was outstanding)");
        }
        if sums.newcomer_cases_clean > 0 && sums.udp.newcomer_judged == 0 {
            why.push("every one-pruned-then-newcomer scenario passed without the history it is meant to have (client B never idle for UDP_PRUNE_TIMEOUT minus the margin, client A silent for two prune timeouts when the newcomer first sent)");
        }
        if sums.udp.overlong_completed != cases.iter().filter(|c| matches!(c, Case::Udp(u) if u.topo.overlong().is_some())).count() as u64 {
            why.push("not every overlong-target-host scenario went through its whole sequence (TCP echo, one datagram, TCP echo on the same and on a new connection)");
        }
        if (sums.tcp_cases_clean + sums.refuse_cases_clean + sums.udp_cases_clean + sums.dual_cases_vacuous) as usize != n_distinct {
            why.push("clean cases do not add up to the matrix");
        }
        if !why.is_empty() {
            rep.machinery_error = Some(format!("vacuous run: {}", why.join("; ")));
        }
    }
    rep
}
