//! C02 demo 2: cross-talk between two *successive* flows on the same flow ID after
//! BOTH applications have dropped their ends of the older flow.
//!
//! Frames of the old flow that are still in flight towards the endpoint that re-draws
//! the ID (`Acknowledge`, `Push`, `Finish`) are taken for the handshake answer, the
//! payload and the end-of-stream of the NEW stream.

use core::convert::Infallible;
use core::sync::atomic::{AtomicBool, Ordering};
use core::task::{Context, Poll};
use core::time::Duration;
use futures_util::task::AtomicWaker;
use penguin_mux::config::Options;
use penguin_mux::ws::{Message, WebSocket};
use penguin_mux::{Error, Multiplexor};
use std::sync::Arc;
use tokio::io::{AsyncReadExt, AsyncWriteExt};
use tokio::sync::mpsc;

/// In-memory, reliable, ordered link. Delivery towards one end can be delayed
/// (frames stay "on the wire"), which is all a real network needs to do.
struct Gate {
    open: AtomicBool,
    waker: AtomicWaker,
}
struct Link {
    tx: Option<mpsc::UnboundedSender<Message>>,
    rx: mpsc::UnboundedReceiver<Message>,
    inbound_gate: Option<Arc<Gate>>,
}
impl WebSocket for Link {
    fn poll_ready_unpin(&mut self, _cx: &mut Context<'_>) -> Poll<Result<(), Error>> {
        Poll::Ready(if self.tx.is_some() { Ok(()) } else { Err(Error::Closed) })
    }
    fn start_send_unpin(&mut self, item: Message) -> Result<(), Error> {
        self.tx.as_ref().ok_or(Error::Closed)?.send(item).or(Err(Error::Closed))
    }
    fn poll_flush_unpin(&mut self, _cx: &mut Context<'_>) -> Poll<Result<(), Error>> {
        Poll::Ready(Ok(()))
    }
    fn poll_close_unpin(&mut self, _cx: &mut Context<'_>) -> Poll<Result<(), Error>> {
        self.tx.take();
        Poll::Ready(Ok(()))
    }
    fn poll_next_unpin(&mut self, cx: &mut Context<'_>) -> Poll<Option<Result<Message, Error>>> {
        if let Some(gate) = &self.inbound_gate {
            if !gate.open.load(Ordering::Acquire) {
                gate.waker.register(cx.waker());
                if !gate.open.load(Ordering::Acquire) {
                    return Poll::Pending;
                }
            }
        }
        self.rx.poll_recv(cx).map(|m| m.map(Ok))
    }
}

/// Flow IDs of endpoint A: the same ID is drawn twice in a row.
struct ScriptRng(Vec<u32>);
impl rand::TryRng for ScriptRng {
    type Error = Infallible;
    fn try_next_u32(&mut self) -> Result<u32, Infallible> {
        Ok(if self.0.is_empty() { 0x7777_7777 } else { self.0.remove(0) })
    }
    fn try_next_u64(&mut self) -> Result<u64, Infallible> {
        Ok(u64::from(self.try_next_u32()?))
    }
    fn try_fill_bytes(&mut self, dst: &mut [u8]) -> Result<(), Infallible> {
        for chunk in dst.chunks_mut(4) {
            let v = self.try_next_u32()?.to_le_bytes();
            chunk.copy_from_slice(&v[..chunk.len()]);
        }
        Ok(())
    }
}

const PAUSE: Duration = Duration::from_millis(100);

#[tokio::test(flavor = "multi_thread")]
async fn c02_old_flow_bytes_show_up_on_new_stream_after_both_ends_dropped() {
    let gate = Arc::new(Gate {
        open: AtomicBool::new(true),
        waker: AtomicWaker::new(),
    });
    let (a2b_tx, a2b_rx) = mpsc::unbounded_channel();
    let (b2a_tx, b2a_rx) = mpsc::unbounded_channel();
    let link_a = Link { tx: Some(a2b_tx), rx: b2a_rx, inbound_gate: Some(gate.clone()) };
    let link_b = Link { tx: Some(b2a_tx), rx: a2b_rx, inbound_gate: None };

    let options = Options::new().rwnd(4).default_rwnd_threshold(2);
    const X: u32 = 0x1234_5678;
    let (mux_a, task_a) = Multiplexor::new_detailed::<_, std::time::Instant>(
        link_a,
        options,
        ScriptRng(vec![X, X]),
    );
    task_a.spawn(None);
    let mux_b = Multiplexor::new_with_opt(link_b, options, None);
    let mux_a = Arc::new(mux_a);

    // ---- the OLD flow on ID X ----
    let mut old_a = mux_a.new_stream_channel(b"old", 1).await.unwrap();
    let mut old_b = mux_b.accept_stream_channel().await.unwrap();
    assert_eq!(&old_b.dest_host[..], b"old");

    // From now on, what B sends stays on the wire for a while
    gate.open.store(false, Ordering::Release);

    // A sends two frames; B reads them (which makes it send a flow-control `Acknowledge`),
    // answers, shuts down cleanly and drops its end: B has let go of the old flow.
    old_a.write_all(b"1").await.unwrap();
    old_a.write_all(b"2").await.unwrap();
    let mut two = [0u8; 2];
    old_b.read_exact(&mut two).await.unwrap();
    old_b.write_all(b"OLD").await.unwrap();
    old_b.shutdown().await.unwrap();
    drop(old_b);
    tokio::time::sleep(PAUSE).await;

    // A's application is not interested any more: A has let go of the old flow, too.
    drop(old_a);
    tokio::time::sleep(PAUSE).await;

    // ---- the NEW flow: A draws X again ----
    let requester = {
        let mux_a = mux_a.clone();
        tokio::spawn(async move { mux_a.new_stream_channel(b"new", 2).await })
    };
    let mut new_b = mux_b.accept_stream_channel().await.unwrap();
    assert_eq!(&new_b.dest_host[..], b"new");
    new_b.write_all(b"NEW").await.unwrap();
    new_b.shutdown().await.unwrap();
    tokio::time::sleep(PAUSE).await;

    // The wire delivers
    gate.open.store(true, Ordering::Release);
    gate.waker.wake();

    let mut new_a = requester.await.unwrap().expect("new stream");
    let mut got = Vec::new();
    new_a.read_to_end(&mut got).await.unwrap();
    assert_eq!(
        String::from_utf8_lossy(&got),
        "NEW",
        "the new stream delivered bytes that were written to the OLD stream"
    );
}
