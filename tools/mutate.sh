#!/bin/bash
# Run checks against a patched scratch copy of /repo (never touches /repo itself).
#   tools/mutate.sh <patch.diff> <ID> [<ID>...]      (env TIER=quick|thorough, KEEP=1 keeps the scratch dirs)
# Scratch: /tmp/mut-wt (git worktree of /repo HEAD + patch), /tmp/mut-harness (copy of /verif/harness pointing at it).
set -u
PATCH=$(readlink -f "$1"); shift
WT=${MUT:-/tmp/mut}-wt
MH=${MUT:-/tmp/mut}-harness
TIER=${TIER:-quick}
MUT=${MUT:-/tmp/mut}
git -C /repo worktree remove --force $WT >/dev/null 2>&1
rm -rf $WT
git -C /repo worktree add -q --detach $WT HEAD || exit 2
if ! git -C $WT apply "$PATCH"; then echo "PATCH DOES NOT APPLY"; git -C /repo worktree remove --force $WT; exit 2; fi
mkdir -p $MH
rsync -a --delete --exclude target --exclude target-loom /verif/harness/ $MH/
find $MH -name Cargo.toml -exec sed -i "s#/repo/#$WT/#g" {} +
# the scratch copy's release-profile settings that change behaviour (see tools/repo_profile_env.py)
eval "$(python3 /verif/tools/repo_profile_env.py $WT)"
rc=0
for ID in "$@"; do
  case $ID in
    C12|M7|M6|M4|M13|M2)
      out=$(cd /verif && VERIF_REPO=$WT VERIF_LOOM_TARGET=$MH/target-loom python3 - "$ID" "$TIER" <<'PY'
import sys, json
sys.path.insert(0, '/verif/tools')
import loomrun
pid, tier = sys.argv[1], sys.argv[2]
models = loomrun.MODELS_C02 if pid == 'M2' else loomrun.MODELS_C13 if pid == 'M13' else loomrun.MODELS_C07 if pid == 'M7' else (loomrun.MODELS_C06 if pid == 'M6' else (loomrun.MODELS_C04 if pid == 'M4' else None))
raw = loomrun.run({'M7': 'C07', 'M6': 'C06', 'M4': 'C04', 'M13': 'C13', 'M2': 'C02'}.get(pid, 'C12'), tier, None, '/tmp', models=models)
print(json.dumps({"machinery_error": raw.get("machinery_error"), "violations": raw.get("violations", []), "evaluations": raw.get("evaluations")}))
PY
)
      ;;
    C14|C17|C01|C19|C18W)
      (cd $MH && CARGO_NET_OFFLINE=true cargo build --release --offline -p vapp 2>&1 | grep -E "^error" -A8 | head -30)
      $MH/target/release/vapp $ID --tier $TIER --out $MUT-out-$ID.json >/dev/null 2>&1
      out=$(cat $MUT-out-$ID.json)
      ;;
    *)
      (cd $MH && CARGO_NET_OFFLINE=true cargo build --release --offline -p vmux 2>&1 | grep -E "^error" -A8 | head -30)
      $MH/target/release/vmux $ID --tier $TIER --out $MUT-out-$ID.json >/dev/null 2>&1
      out=$(cat $MUT-out-$ID.json)
      ;;
  esac
  echo "$out" | python3 -c "
import sys, json
r = json.load(sys.stdin)
vs = r.get('violations', [])
print('== $ID: machinery_error=%s evaluations=%s violations=%d' % (r.get('machinery_error'), r.get('evaluations'), len(vs)))
for v in vs[:8]:
    print('   ', v['key'], 'x%s' % v.get('count', 1), '::', v['desc'][:260])
"
done
if [ -z "${KEEP:-}" ]; then git -C /repo worktree remove --force $WT; fi
