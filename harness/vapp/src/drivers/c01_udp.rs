//! C01 helper: one UDP matrix point. A harness-played UDP target answers every datagram with a
//! transformed copy; harness-played local clients talk to it through a UDP remote or through a
//! SOCKS5 UDP association of a real penguin client + server. Everything received anywhere is
//! logged and judged afterwards.

use super::c01_env::{self as env, ConnectFail, Env, Tunnel};
use super::c01_proto::{self as proto, UdpAddr};
use super::c01_tcp::Failure;
use serde_json::{Value, json};
use std::collections::HashSet;
use std::net::{IpAddr, SocketAddr};
use std::sync::atomic::AtomicBool;
use std::sync::{Arc, Mutex};
use std::time::{Duration, Instant};
use tokio::net::{TcpStream, UdpSocket};
use tokio::sync::Notify;

#[derive(Clone, Copy, Debug, PartialEq, Eq, Hash)]
pub enum UKind {
    Remote,
    SocksIp,
    SocksDomain,
}

impl UKind {
    pub const ALL: [UKind; 3] = [UKind::Remote, UKind::SocksIp, UKind::SocksDomain];
    pub fn name(self) -> &'static str {
        match self {
            UKind::Remote => "udp-remote",
            UKind::SocksIp => "socks5-udp-ip",
            UKind::SocksDomain => "socks5-udp-domain",
        }
    }
    pub fn family(self) -> &'static str {
        if self == UKind::Remote { "remote" } else { "socks5" }
    }
    pub fn parse(s: &str) -> Option<Self> {
        Self::ALL.into_iter().find(|e| e.name() == s)
    }
    fn socks(self) -> bool {
        self != UKind::Remote
    }
}

#[derive(Clone, Copy, Debug, PartialEq, Eq, Hash)]
pub enum Topo {
    /// one local client
    One,
    /// three local clients from distinct source ports, interleaved
    /// (UDP remote: the same listening port; SOCKS5: one association each)
    Three,
    /// one local socket talking to two entry points at once (two UDP remotes / two associations):
    /// the reply has to come back from the entry point the request was sent to
    Shared,
    /// SOCKS5 only: one local socket, ONE association, alternately talking to two targets that
    /// have the same host string but different ports (A, B, A)
    TwoPorts,
    /// SOCKS5 only: one local socket, ONE association, alternately talking to two targets that
    /// have different host strings (127.0.0.1 / 127.0.0.2) and the same port
    TwoHosts,
    /// one local client, one UDP remote / one association, payload lengths that change from one datagram to the
    /// next (len, 3, len+500, 0, len+1): a datagram must not depend on the size of the ones before it
    Varying,
    /// real-time scenario (thorough tier): one local client sends one datagram per second for
    /// 2 * UDP_PRUNE_TIMEOUT + 3 s while the target stays silent, then the target answers the last
    /// request: the reply must still find its way back (the flow never went idle)
    Steady,
    /// real-time scenario (thorough tier): one exchange, silence for 2 * UDP_PRUNE_TIMEOUT + 1 s
    /// (every flow table entry is pruned), another exchange: it must work again (a new flow is fine)
    Idle,
    /// real-time scenario (thorough tier): one exchange, silence for UDP_PRUNE_TIMEOUT + 2 s (between
    /// one and two prune timeouts: one side of the tunnel may have forgotten the flow while the
    /// other still remembers it), one more exchange from the SAME local socket. Judged on the
    /// FIRST transmission after the gap: it has to reach the target (no retransmission needed)
    IdleGap,
    /// real-time scenario (both tiers): three local clients (UDP remote: three sockets, one
    /// listening port; SOCKS5: one association each). A, then B, make one exchange each; A goes
    /// silent; B makes one exchange per second for 2 * UDP_PRUNE_TIMEOUT + 3 s (A is certainly
    /// pruned on the client side, B never is); then a NEWCOMER C (its first datagram ever) makes
    /// one exchange, then B one more, then C one more. Every reply has to arrive at the socket
    /// that sent the request: a flow table that has shrunk must not hand the newcomer the flow of
    /// a client that is still alive
    PruneThenNewcomer,
    /// SOCKS5 only: one association, one exchange, then ONE malformed datagram sent to the relay
    /// address from ANOTHER local socket, then two more exchanges of the legitimate client: they
    /// must work (anybody can send anything to a UDP port). The three variants are the strays:
    /// 2 bytes `00 00`
    StrayShort,
    /// a header with an ATYP that does not exist: `00 00 00 09 01 02 03`
    StrayAtyp,
    /// an IPv4 header that ends inside the address: `00 00 00 01 7f 00`
    StrayTruncated,
    /// SOCKS5 (IP-typed headers) only, and only where [::1] exists: one local socket, ONE
    /// association, alternately talking to a target on 127.0.0.1 (ATYP 1) and a target on [::1]
    /// (ATYP 4): A, B, A, B. Every datagram has to reach its target, the FIRST transmission already
    /// (judged like the stray-datagram scenarios: definitively, with a fresh association as control)
    TwoFamilies,
    /// the same with the target on [::1] first: B, A, B, A
    TwoFamilies6,
    /// SOCKS5 only, and only where a socket bound to [::] also takes IPv4: the SOCKS listener is
    /// bound to the DUAL-STACK wildcard address (remote specification `[::]:PORT:socks`, so the UDP
    /// relay of an association is bound to [::]:0) and the local application does everything over
    /// IPv4: control connection to 127.0.0.1:PORT, datagrams from a 127.0.0.1 socket to
    /// 127.0.0.1:BND.PORT (the relay sees its peer as ::ffff:127.0.0.1). One local client
    DualV4,
    /// the same with three local clients (one association each, interleaved)
    DualV4Three,
    /// the same listener, and the local application does everything over IPv6: control connection
    /// to [::1]:PORT, datagrams from a [::1] socket to [::1]:BND.PORT (a plain IPv6 peer; only
    /// where [::1] exists). One local client
    DualV6,
    /// the same with three local clients
    DualV6Three,
    /// SOCKS5 only: one local socket, ONE association, a target A that answers exchange 0
    /// ("question-1") only `UNSEND_DELAY_MS` after it got it. As soon as A has question-1 (its own
    /// log), the same local client sends ONE datagram to a second destination that the server
    /// cannot send to; then the answer of A must still reach the local client (a datagram that
    /// cannot be sent is lost like on a plain UDP socket, it must not take other exchanges down),
    /// and exchange 2 ("question-2", to A again) must reach A from the same server-side address
    /// as question-1 did. Question-1 is transmitted ONCE (a retransmission would mask the loss of
    /// its answer). The variants are the second destinations:
    /// DOMAINNAME `no-such-host.invalid` (never resolves, RFC 6761)
    UnsendName,
    /// 127.0.0.1, port 0 (sendto: EINVAL)
    UnsendPort0,
    /// the limited broadcast address 255.255.255.255:9 (sendto: EACCES without SO_BROADCAST, or no route)
    UnsendBroadcast,
    /// DOMAINNAME with the octets ff fe 2e 65 78 61 6d 70 6c 65 (`\xff\xfe.example`: legal in RFC 1928, not UTF-8)
    UnsendNotUtf8,
    /// control: the second destination is a second target of the harness (reachable, it answers)
    UnsendControl,
    /// UDP remote only: the client is started with a fixed-target TCP remote (to an echo target of
    /// the harness) AND a `udp` remote whose configured target host is a name of 256 octets (one
    /// more than a datagram frame can carry: every datagram for it is refused at the sender, which
    /// must have no other effect). A TCP connection through the TCP remote echoes a block; ONE UDP
    /// packet is sent to the UDP remote's local port; `OVERLONG_PAUSE_MS` later the SAME TCP
    /// connection must echo another block, a second TCP connection through the remote must work
    /// and `client_main_inner` must still be running
    OverlongHost256,
    /// control: the same with a name of 255 octets (the longest a datagram frame can carry; it
    /// does not resolve, the server simply cannot forward the datagram)
    OverlongHost255,
}

/// the second destination of an unsendable-destination topology
#[derive(Clone, Copy, Debug, PartialEq, Eq)]
pub enum SecondDst {
    /// DOMAINNAME header (ATYP 3) with these octets and this port
    Name(&'static [u8], u16),
    /// IPv4 header (ATYP 1)
    V4([u8; 4], u16),
    /// the second target of the harness
    Target,
}

impl SecondDst {
    pub fn describe(self) -> String {
        match self {
            SecondDst::Name(n, p) => format!("DOMAINNAME (ATYP 3) {} = \"{}\", port {p}", vcommon::report::hex(n), n.escape_ascii()),
            SecondDst::V4(ip, p) => format!("{}:{p} (ATYP 1)", std::net::Ipv4Addr::from(ip)),
            SecondDst::Target => "a second target of the harness on 127.0.0.1 (reachable; it answers at once)".into(),
        }
    }
}

/// testing aid: the probe of the dual-stack wildcard address reports failure (what a machine
/// with net.ipv6.bindv6only=1 or without IPv6 would see)
const DUAL_LISTENER_FORCE_SKIP_ENV: &str = "VERIF_C01_UDP_DUAL_LISTENER_FORCE_SKIP";

/// Can the dual-stack-listener topologies run here? (why not, for a local application that
/// uses IPv4, resp. one that uses IPv6; None: they can). Probed once: a TCP listener and a UDP
/// socket bound to [::]:0 have to be reachable over the loopback address of that family.
pub fn dual_listener_unavailable(app_v6: bool) -> Option<String> {
    static PROBE: std::sync::OnceLock<(Option<String>, Option<String>)> = std::sync::OnceLock::new();
    let r = PROBE.get_or_init(|| {
        use std::net::{Ipv6Addr, TcpListener as StdListener, TcpStream as StdStream, UdpSocket as StdUdp};
        if std::env::var_os(DUAL_LISTENER_FORCE_SKIP_ENV).is_some() {
            let why = format!("a socket bound to [::] cannot be had [forced by {DUAL_LISTENER_FORCE_SKIP_ENV}]");
            return (Some(why.clone()), Some(why));
        }
        let both = |why: String| (Some(why.clone()), Some(why));
        let tcp = match StdListener::bind("[::]:0") {
            Ok(l) => l,
            Err(e) => return both(format!("cannot bind a TCP listener to [::]:0: {e}")),
        };
        let udp = match StdUdp::bind("[::]:0") {
            Ok(u) => u,
            Err(e) => return both(format!("cannot bind a UDP socket to [::]:0: {e}")),
        };
        let (Ok(tp), Ok(up)) = (tcp.local_addr().map(|a| a.port()), udp.local_addr().map(|a| a.port())) else {
            return both("cannot read back the address of a socket bound to [::]:0".into());
        };
        let _ = udp.set_read_timeout(Some(Duration::from_secs(2)));
        let reach = |ip: IpAddr| -> Option<String> {
            if let Err(e) = StdStream::connect_timeout(&SocketAddr::new(ip, tp), Duration::from_secs(5)) {
                return Some(format!("a TCP listener bound to [::] is not reachable over {ip}: {e}"));
            }
            let from = match StdUdp::bind(SocketAddr::new(ip, 0)) {
                Ok(s) => s,
                Err(e) => return Some(format!("cannot bind a UDP socket to {ip}: {e}")),
            };
            let mut buf = [0u8; 16];
            for _ in 0..3 {
                if from.send_to(b"probe", SocketAddr::new(ip, up)).is_err() {
                    continue;
                }
                if let Ok((5, src)) = udp.recv_from(&mut buf) {
                    if src.ip().to_canonical() == ip {
                        return None;
                    }
                }
            }
            Some(format!("a UDP socket bound to [::] does not receive what is sent to {ip} (net.ipv6.bindv6only = 1?)"))
        };
        let v4 = reach(IpAddr::from([127, 0, 0, 1]));
        let v6 = if ipv6_loopback() { reach(IpAddr::V6(Ipv6Addr::LOCALHOST)) } else { Some("this machine has no IPv6 loopback address [::1]".into()) };
        (v4, v6)
    });
    if app_v6 { r.1.clone() } else { r.0.clone() }
}

/// Does this machine (network namespace) have the IPv6 loopback address, for UDP sockets too?
pub fn ipv6_loopback() -> bool {
    static PROBE: std::sync::OnceLock<bool> = std::sync::OnceLock::new();
    *PROBE.get_or_init(|| std::net::UdpSocket::bind("[::1]:0").is_ok() && super::c01_tcp::ipv6_loopback())
}

/// length of the payloads of the real-time scenarios
pub const SLOW_LEN: usize = 32;
/// length of the payloads of the stray-datagram scenarios
pub const STRAY_LEN: usize = 32;
/// length of the payloads of the two-address-families scenarios
pub const FAMILIES_LEN: usize = 32;
/// how long the FIRST transmission of an exchange of a two-address-families scenario gets before
/// the control exchange (a fresh association) is made
pub const FAMILIES_FIRST_TX_MS: u64 = 500;
/// silence of the idle-gap scenario beyond UDP_PRUNE_TIMEOUT
pub const GAP_EXTRA_S: u64 = 2;
/// how long the first datagram after the idle gap may take to the target (no retransmission before)
pub const GAP_FIRST_TX_MS: u64 = 2000;
/// one-pruned-then-newcomer scenario: how long client B goes on (one exchange per second) beyond
/// 2 * UDP_PRUNE_TIMEOUT after its first exchange
pub const NEWCOMER_EXTRA_S: u64 = 3;
/// ... how long each of those keep-alive exchanges waits for its reply (unanswered ones are not
/// retransmitted: the next one follows on the second)
pub const NEWCOMER_KEEPALIVE_WAIT_MS: u64 = 900;
/// ... the scenario did what it is meant to do when no two consecutive datagrams of B were further
/// apart than UDP_PRUNE_TIMEOUT minus this (B was never idle long enough to be pruned) and A had
/// been silent for at least 2 * UDP_PRUNE_TIMEOUT when C sent its first datagram
pub const NEWCOMER_PRUNE_MARGIN_S: u64 = 2;
/// ... what its violation keys end in
pub const NEWCOMER_KEY_SUFFIX: &str = ".after-prune";
/// length of the payloads of the unsendable-destination scenarios
pub const UNSEND_LEN: usize = 32;
/// how long target A of an unsendable-destination scenario waits before it answers question-1
pub const UNSEND_DELAY_MS: u64 = 700;
/// how long the ONE transmission of question-1 gets to show up at target A (after that the
/// scenario goes on with the loss tolerance of everywhere else and judges nothing definitively)
pub const UNSEND_FIRST_TX_MS: u64 = 5000;
/// how long after target A SENT its answer to question-1 the local client waits for it before
/// it goes on with question-2 (the answer still counts if it is there at the end of the scenario)
pub const UNSEND_LOST_AFTER_MS: u64 = 3000;
/// question-2 must reach target A less than UDP_PRUNE_TIMEOUT minus this after question-1 was
/// sent for the two server-side source addresses to be compared (an idle flow may be forgotten)
pub const UNSEND_PRUNE_MARGIN_S: u64 = 2;
/// the keys of the unsendable-destination scenarios (a variant name follows)
pub const UNSEND_LOST_KEY: &str = "udp.reply.lost-after-unsendable-destination";
pub const UNSEND_PORT_KEY: &str = "udp.source-port-changed-after-unsendable-destination";
/// overlong-target-host scenarios: length of the ONE datagram sent to the UDP remote ...
pub const OVERLONG_LEN: usize = 32;
/// ... length of each block echoed over a TCP connection ...
pub const OVERLONG_TCP_LEN: usize = 1000;
/// ... time between the datagram and the next use of the TCP connection ...
pub const OVERLONG_PAUSE_MS: u64 = 500;
/// ... port of the UDP remote's target (discard; nothing is ever sent there) ...
pub const OVERLONG_DST_PORT: u16 = 9;
/// ... and what their keys begin with (what was found and `.256` / `.255-control` follow)
pub const OVERLONG_KEY: &str = "udp.overlong-host";
/// leg number inside the payload of the control exchange of the stray-datagram scenarios (no real leg has it)
const CONTROL_LEG: usize = 3;

pub fn prune_timeout() -> Duration {
    rusty_penguin_lib::config::UDP_PRUNE_TIMEOUT
}

impl Topo {
    /// the topologies of the ordinary matrix
    pub const ALL: [Topo; 6] = [Topo::One, Topo::Three, Topo::Shared, Topo::TwoPorts, Topo::TwoHosts, Topo::Varying];
    /// the real-time topologies (about 2 * UDP_PRUNE_TIMEOUT of wall time each, mostly asleep)
    pub const SLOW: [Topo; 4] = [Topo::PruneThenNewcomer, Topo::Steady, Topo::Idle, Topo::IdleGap];
    /// the stray-datagram topologies (SOCKS5 UDP only, one payload length, both tiers)
    pub const STRAY: [Topo; 3] = [Topo::StrayShort, Topo::StrayAtyp, Topo::StrayTruncated];
    /// the two-address-families topologies (SOCKS5 UDP with IP-typed headers only, one payload
    /// length, both tiers, only where [::1] exists)
    pub const FAMILIES: [Topo; 2] = [Topo::TwoFamilies, Topo::TwoFamilies6];
    /// the dual-stack-listener topologies (SOCKS5 UDP only; the local application uses IPv4, resp.
    /// IPv6, for the control connection and for the relay; both tiers; only where a socket bound
    /// to [::] is reachable over the loopback address of that family)
    pub const DUAL_LISTENER: [Topo; 4] = [Topo::DualV4, Topo::DualV4Three, Topo::DualV6, Topo::DualV6Three];
    /// the unsendable-destination topologies (SOCKS5 UDP only, one payload length, both tiers;
    /// about `UNSEND_DELAY_MS` + the start of a tunnel of wall time each, mostly asleep); the last one is the control
    pub const UNSENDABLE: [Topo; 5] = [Topo::UnsendName, Topo::UnsendPort0, Topo::UnsendBroadcast, Topo::UnsendNotUtf8, Topo::UnsendControl];
    /// the overlong-target-host topologies (UDP remote only, both tiers; about
    /// `OVERLONG_PAUSE_MS` + the start of a tunnel of wall time each); the last one is the control
    pub const OVERLONG: [Topo; 2] = [Topo::OverlongHost256, Topo::OverlongHost255];
    /// octets of the target host of the UDP remote of an overlong-target-host topology, and what
    /// its violation keys end in
    pub fn overlong(self) -> Option<(usize, &'static str)> {
        match self {
            Topo::OverlongHost256 => Some((256, "256")),
            Topo::OverlongHost255 => Some((255, "255-control")),
            _ => None,
        }
    }
    /// the second destination of an unsendable-destination topology, its name inside violation
    /// keys and topology names, and why the server cannot send to it
    pub fn unsendable(self) -> Option<(SecondDst, &'static str, &'static str)> {
        match self {
            Topo::UnsendName => Some((SecondDst::Name(b"no-such-host.invalid", 9), "unresolvable-name", "the name does not resolve")),
            Topo::UnsendPort0 => Some((SecondDst::V4([127, 0, 0, 1], 0), "port-0", "sendto() to port 0 fails with EINVAL")),
            Topo::UnsendBroadcast => Some((SecondDst::V4([255, 255, 255, 255], 9), "limited-broadcast", "sendto() to the limited broadcast address fails with EACCES on a socket without SO_BROADCAST, or there is no route")),
            Topo::UnsendNotUtf8 => Some((SecondDst::Name(b"\xff\xfe.example", 9), "non-utf8-name", "the octets of the name are not UTF-8, nothing resolves them")),
            Topo::UnsendControl => Some((SecondDst::Target, "control-reachable-destination", "CONTROL: the server can send to it")),
            _ => None,
        }
    }
    /// Some(the local application uses IPv6) for the dual-stack-listener topologies
    pub fn dual_listener(self) -> Option<bool> {
        match self {
            Topo::DualV4 | Topo::DualV4Three => Some(false),
            Topo::DualV6 | Topo::DualV6Three => Some(true),
            _ => None,
        }
    }
    /// number of local clients of a dual-stack-listener topology
    pub fn dual_listener_clients(self) -> usize {
        if matches!(self, Topo::DualV4Three | Topo::DualV6Three) { 3 } else { 1 }
    }
    /// what the violation keys of this topology end in (the ordinary topologies: nothing)
    pub fn key_suffix(self) -> &'static str {
        if self == Topo::PruneThenNewcomer {
            return NEWCOMER_KEY_SUFFIX;
        }
        match self.dual_listener() {
            Some(false) => ".dual-stack-listener-ipv4-app",
            Some(true) => ".dual-stack-listener-ipv6-app",
            None => "",
        }
    }
    /// why this topology cannot be run on this machine (None: it can)
    pub fn unavailable(self) -> Option<String> {
        if let Some(v6) = self.dual_listener() {
            return dual_listener_unavailable(v6);
        }
        if self.two_families() && !ipv6_loopback() {
            return Some("this machine has no IPv6 loopback address [::1]".into());
        }
        None
    }
    pub fn two_families(self) -> bool {
        matches!(self, Topo::TwoFamilies | Topo::TwoFamilies6)
    }
    /// the scenario may make a control exchange through a fresh association
    pub fn has_control(self) -> bool {
        self.stray().is_some() || self.two_families() || self.unsendable().is_some()
    }
    pub fn slow(self) -> bool {
        matches!(self, Topo::PruneThenNewcomer | Topo::Steady | Topo::Idle | Topo::IdleGap)
    }
    /// the malformed datagram of a stray-datagram topology, and its name inside violation keys
    pub fn stray(self) -> Option<(&'static [u8], &'static str)> {
        match self {
            Topo::StrayShort => Some((&[0, 0], "2-bytes")),
            Topo::StrayAtyp => Some((&[0, 0, 0, 9, 1, 2, 3], "unknown-atyp")),
            Topo::StrayTruncated => Some((&[0, 0, 0, 1, 127, 0], "truncated-ipv4-header")),
            _ => None,
        }
    }
    pub fn name(self) -> &'static str {
        match self {
            Topo::One => "1-client",
            Topo::Three => "3-clients",
            Topo::Shared => "1-socket-2-entries",
            Topo::TwoPorts => "1-association-2-targets-same-host",
            Topo::TwoHosts => "1-association-2-targets-same-port",
            Topo::Varying => "1-client-varying-payload-lengths",
            Topo::Steady => "steady-sender-silent-target",
            Topo::Idle => "idle-longer-than-prune-timeout",
            Topo::IdleGap => "idle-between-one-and-two-prune-timeouts",
            Topo::PruneThenNewcomer => "3-clients-first-one-pruned-second-one-active-then-newcomer",
            Topo::StrayShort => "stray-datagram-2-bytes-to-relay",
            Topo::StrayAtyp => "stray-datagram-unknown-atyp-to-relay",
            Topo::StrayTruncated => "stray-datagram-truncated-ipv4-header-to-relay",
            Topo::TwoFamilies => "1-association-2-targets-ipv4-then-ipv6",
            Topo::TwoFamilies6 => "1-association-2-targets-ipv6-then-ipv4",
            Topo::DualV4 => "dual-stack-listener-ipv4-application-1-client",
            Topo::DualV4Three => "dual-stack-listener-ipv4-application-3-clients",
            Topo::DualV6 => "dual-stack-listener-ipv6-application-1-client",
            Topo::DualV6Three => "dual-stack-listener-ipv6-application-3-clients",
            Topo::UnsendName => "1-association-slow-target-then-unsendable-destination-unresolvable-name",
            Topo::UnsendPort0 => "1-association-slow-target-then-unsendable-destination-port-0",
            Topo::UnsendBroadcast => "1-association-slow-target-then-unsendable-destination-limited-broadcast",
            Topo::UnsendNotUtf8 => "1-association-slow-target-then-unsendable-destination-non-utf8-name",
            Topo::UnsendControl => "1-association-slow-target-then-unsendable-destination-control-reachable-destination",
            Topo::OverlongHost256 => "tcp-remote-beside-udp-remote-with-target-host-of-256-octets",
            Topo::OverlongHost255 => "tcp-remote-beside-udp-remote-with-target-host-of-255-octets-control",
        }
    }
    pub fn parse(s: &str) -> Option<Self> {
        Self::ALL.into_iter().chain(Self::SLOW).chain(Self::STRAY).chain(Self::FAMILIES).chain(Self::DUAL_LISTENER).chain(Self::UNSENDABLE).chain(Self::OVERLONG).find(|e| e.name() == s)
    }
}

pub const EXCHANGES: usize = 3;
/// waits before each retransmission and before giving up: 5 retransmissions, 21.5 s in all
const WAITS_MS: [u64; 6] = [500, 1000, 2000, 4000, 6000, 8000];
const WAITS_SHORT_MS: [u64; 6] = [200, 300, 500, 500, 500, 1000];

#[derive(Clone, Debug, PartialEq, Eq, Hash)]
pub struct UdpCase {
    pub kind: UKind,
    pub size: usize,
    pub topo: Topo,
}

impl UdpCase {
    pub fn to_json(&self) -> Value {
        json!({
            "kind": "udp", "entry": self.kind.name(), "payload_len": self.size, "topology": self.topo.name(),
            "exchanges_per_leg": self.exchanges(),
            "udp_prune_timeout_s": prune_timeout().as_secs(),
            "exchanges_of_each_leg": (self.topo == Topo::PruneThenNewcomer).then(|| (0..self.legs().len()).map(|l| self.exchanges_of(l)).collect::<Vec<_>>()),
            "history": (self.topo == Topo::PruneThenNewcomer).then(|| format!("leg 0 = client A, leg 1 = client B, leg 2 = client C (three local sockets; UDP remote: one listening port, SOCKS5: one association each, all made at the start). A: exchange 0; B: exchange 0; A is silent from here on; B: exchanges 1..={n}, one per second (each waits {NEWCOMER_KEEPALIVE_WAIT_MS} ms for its reply, no retransmission); then C: exchange 0 (its first datagram ever); B: exchange {}; C: exchange 1. Every exchange but B's 1..={n} is retransmitted with the usual loss tolerance", self.newcomer_keepalives() + 1, n = self.newcomer_keepalives())),
            "stray_datagram_hex": self.topo.stray().map(|(d, _)| vcommon::report::hex(d)),
            "socks_listener": self.topo.dual_listener().map(|_| "[::]:PORT (remote specification [::]:PORT:socks; the UDP relay of an association is bound to [::]:0)"),
            "application_uses": self.topo.dual_listener().map(|v6| if v6 { "[::1] for the control connection, for its UDP socket and (BND.ADDR being unspecified) for the relay address" } else { "127.0.0.1 for the control connection, for its UDP socket and (BND.ADDR being unspecified) for the relay address" }),
            "slow_target_answers_exchange_0_after_ms": self.topo.unsendable().map(|_| UNSEND_DELAY_MS),
            "second_destination_of_exchange_1": self.topo.unsendable().map(|(d, _, why)| format!("{} ({why}); sent once, as soon as target A has exchange 0", d.describe())),
            "udp_remote_target_host": self.topo.overlong().map(|(n, _)| format!("{n} x 'a' (remote specification 127.0.0.1:PORT:aaa...a:{OVERLONG_DST_PORT}/udp), beside the TCP remote 127.0.0.1:PORT:127.0.0.1:ECHO-PORT of the same client")),
            "sequence": self.topo.overlong().map(|_| format!("TCP connection 0 through the TCP remote echoes {OVERLONG_TCP_LEN} bytes; ONE datagram of payload_len bytes to the UDP remote's local port; {OVERLONG_PAUSE_MS} ms; connection 0 echoes {OVERLONG_TCP_LEN} more bytes; a new connection 1 echoes {OVERLONG_TCP_LEN} bytes; client_main_inner is still running")),
            "targets": if self.topo.two_families() { json!((0..self.exchanges()).map(|q| if (self.target_idx(0, q) == 0) == (self.topo == Topo::TwoFamilies) { "127.0.0.1:P (ATYP 1)" } else { "[::1]:Q (ATYP 4)" }).collect::<Vec<_>>()) } else { Value::Null },
            "payload_rule": "payload length of exchange seq = len, except in the varying-lengths topology (len, 3, len+500, 0, len+1); request(len, leg, seq): len 1 -> [0x40|leg<<4|seq]; len>=2 -> [0xC0|leg, seq, xorshift64* stream]; reply = request XOR mask bytewise, mask 0xA5 for target A and 0x5A for target B; exchange seq goes to target seq%2 in the two-target topologies; see c01_udp.rs",
            "requests_hex": (0..self.legs().len()).map(|l| (0..self.exchanges().min(4)).map(|q| { let r = request(self.len_at(q), l, q); vcommon::report::hex(&r[..r.len().min(16)]) }).collect::<Vec<_>>()).collect::<Vec<_>>(),
        })
    }
    pub fn from_json(v: &Value) -> Option<Self> {
        Some(Self { kind: UKind::parse(v["entry"].as_str()?)?, size: usize::try_from(v["payload_len"].as_u64()?).ok()?, topo: Topo::parse(v["topology"].as_str()?)? })
    }
    pub fn label(&self) -> String {
        format!("udp {} len={} {}", self.kind.name(), self.size, self.topo.name())
    }
    /// (local socket index, entry index) per leg
    pub fn legs(&self) -> Vec<(usize, usize)> {
        match (self.topo, self.kind.socks()) {
            (Topo::One | Topo::Varying, _) => vec![(0, 0)],
            (Topo::Three | Topo::PruneThenNewcomer, false) => vec![(0, 0), (1, 0), (2, 0)],
            (Topo::Three | Topo::PruneThenNewcomer, true) => vec![(0, 0), (1, 1), (2, 2)],
            (Topo::Shared, _) => vec![(0, 0), (0, 1)],
            (Topo::TwoPorts | Topo::TwoHosts | Topo::Steady | Topo::Idle | Topo::IdleGap, _) => vec![(0, 0)],
            (Topo::StrayShort | Topo::StrayAtyp | Topo::StrayTruncated, _) => vec![(0, 0)],
            (Topo::TwoFamilies | Topo::TwoFamilies6, _) => vec![(0, 0)],
            (Topo::DualV4 | Topo::DualV6, _) => vec![(0, 0)],
            (Topo::DualV4Three | Topo::DualV6Three, _) => vec![(0, 0), (1, 1), (2, 2)],
            (Topo::UnsendName | Topo::UnsendPort0 | Topo::UnsendBroadcast | Topo::UnsendNotUtf8 | Topo::UnsendControl, _) => vec![(0, 0)],
            (Topo::OverlongHost256 | Topo::OverlongHost255, _) => vec![(0, 0)],
        }
    }
    /// one-pruned-then-newcomer scenario: number of keep-alive exchanges of client B
    pub fn newcomer_keepalives(&self) -> usize {
        (2 * prune_timeout().as_secs() + NEWCOMER_EXTRA_S) as usize
    }
    /// number of request datagrams (with distinct payloads) leg `leg` sends (the same for every
    /// leg, except in the one-pruned-then-newcomer scenario)
    pub fn exchanges_of(&self, leg: usize) -> usize {
        match (self.topo, leg) {
            (Topo::PruneThenNewcomer, 0) => 1,
            (Topo::PruneThenNewcomer, 2) => 2,
            _ => self.exchanges(),
        }
    }
    /// number of request datagrams (with distinct payloads) a leg sends (the leg that sends most)
    pub fn exchanges(&self) -> usize {
        match self.topo {
            // client B: its first exchange, the keep-alive exchanges, its last exchange
            Topo::PruneThenNewcomer => self.newcomer_keepalives() + 2,
            // one per second at t = 0, 1, ..., 2T+3
            Topo::Steady => 2 * prune_timeout().as_secs() as usize + 4,
            Topo::Idle | Topo::IdleGap => 2,
            Topo::Varying => 5,
            // A, B, A, B
            Topo::TwoFamilies | Topo::TwoFamilies6 => 4,
            // ONE datagram, never answered
            Topo::OverlongHost256 | Topo::OverlongHost255 => 1,
            _ => EXCHANGES,
        }
    }
    /// Is this point part of the matrix? (the two-target topologies need a per-datagram destination,
    /// the stray-datagram ones a relay port)
    pub fn valid(&self) -> bool {
        if self.topo.two_families() {
            // (a domain-typed header would need a name for [::1]; the IP-typed headers say it all)
            return self.kind == UKind::SocksIp;
        }
        if self.topo.dual_listener().is_some() || self.topo.unsendable().is_some() {
            return self.kind.socks();
        }
        if self.topo.overlong().is_some() {
            // (a SOCKS5 UDP header cannot carry a name of more than 255 octets; a remote specification can)
            return self.kind == UKind::Remote;
        }
        !(matches!(self.topo, Topo::TwoPorts | Topo::TwoHosts) || self.topo.stray().is_some()) || self.kind.socks()
    }
    /// payload length of exchange `seq` (constant except in the varying-lengths topology)
    pub fn len_at(&self, seq: usize) -> usize {
        if self.topo == Topo::Varying {
            match seq % 5 {
                0 => self.size,
                1 => 3,
                2 => (self.size + 500).min(65000),
                3 => 0,
                _ => (self.size + 1).min(65000),
            }
        } else {
            self.size
        }
    }
    pub fn n_targets(&self) -> usize {
        // (unsendable-destination topologies: question-1 to A, one datagram to the second
        // destination -- a target only in the control variant --, question-2 to A)
        if matches!(self.topo, Topo::TwoPorts | Topo::TwoHosts | Topo::TwoFamilies | Topo::TwoFamilies6 | Topo::UnsendControl) { 2 } else { 1 }
    }
    /// Which target exchange `seq` of a leg is addressed to (A, B, A for the two-target topologies).
    pub fn target_idx(&self, _leg: usize, seq: usize) -> usize {
        if self.n_targets() == 2 { seq % 2 } else { 0 }
    }
}

pub fn request(len: usize, leg: usize, seq: usize) -> Vec<u8> {
    match len {
        0 => Vec::new(),
        1 => vec![0x40 | ((leg as u8) << 4) | (seq as u8)],
        _ => {
            let mut v = vec![0xC0 | leg as u8, seq as u8];
            let mut x: u64 = 0x9e37_79b9_7f4a_7c15 ^ ((leg as u64 + 1) << 40) ^ ((seq as u64 + 1) << 8);
            while v.len() < len {
                x ^= x >> 12;
                x ^= x << 25;
                x ^= x >> 27;
                v.extend_from_slice(&x.wrapping_mul(0x2545_f491_4f6c_dd1d).to_le_bytes());
            }
            v.truncate(len);
            v
        }
    }
}

/// every target answers with its own transformation, so a reply tells which target produced it
pub const MASKS: [u8; 2] = [0xA5, 0x5A];

pub fn reply_of(req: &[u8], mask: u8) -> Vec<u8> {
    req.iter().map(|b| b ^ mask).collect()
}

fn len_class(len: usize) -> String {
    if len <= 4 { format!("len{len}") } else { "len-big".into() }
}

#[derive(Default, Clone, Debug)]
pub struct UdpStats {
    pub requests_at_target: u64,
    pub replies_verified: u64,
    pub socks_headers_parsed: u64,
    pub socks_header_addr_is_target: u64,
    pub socks_header_addr_is_client: u64,
    pub socks_header_addr_other: u64,
    /// (also counted in one of the three above) the address is an IPv4-mapped IPv6 address (ATYP 4, ::ffff:a.b.c.d)
    pub socks_header_addr_ipv4_mapped: u64,
    pub retransmissions: u64,
    pub duplicates: u64,
    pub target_sources: u64,
    /// unsendable-destination scenarios in which the definitive judgement could be made: question-1
    /// was transmitted once, target A received it, the datagram to the second destination left
    /// the local client while A's answer was outstanding, and A sent its answer
    pub unsendable_judged: u64,
    /// ... of which: the answer reached the local client only after `UNSEND_LOST_AFTER_MS` (late, not lost)
    pub unsendable_answer_late: u64,
    /// one-pruned-then-newcomer scenarios in which the history was what it is meant to be: no two
    /// consecutive datagrams of client B further apart than UDP_PRUNE_TIMEOUT - `NEWCOMER_PRUNE_MARGIN_S`
    /// (B cannot have been pruned) and client A silent for at least 2 * UDP_PRUNE_TIMEOUT when the
    /// newcomer C sent its first datagram (A was pruned), and all of C's and B's later exchanges were made
    pub newcomer_judged: u64,
    /// ... keep-alive exchanges of client B that had no reply when the next one was due (tolerated)
    pub newcomer_keepalives_unanswered: u64,
    /// overlong-target-host scenarios that went through their whole sequence without a finding
    pub overlong_completed: u64,
    /// ... bytes echoed over the TCP connections of those scenarios (before and after the datagram)
    pub overlong_tcp_bytes_echoed: u64,
}

pub struct UdpOutcome {
    pub failures: Vec<Failure>,
    pub obs: Value,
    pub port_race: bool,
    pub stats: UdpStats,
    pub wall: Duration,
}

type Log = Arc<Mutex<Vec<(SocketAddr, Vec<u8>)>>>;

fn lk<T>(m: &Mutex<T>) -> std::sync::MutexGuard<'_, T> {
    m.lock().unwrap_or_else(std::sync::PoisonError::into_inner)
}

async fn recv_loop(sock: Arc<UdpSocket>, log: Log, note: Arc<Notify>, answer: Option<u8>) {
    let mut buf = vec![0u8; 65536 + 64];
    loop {
        let Ok((n, src)) = sock.recv_from(&mut buf).await else {
            tokio::time::sleep(Duration::from_millis(1)).await;
            continue;
        };
        let data = buf[..n].to_vec();
        if let Some(mask) = answer {
            let _ = sock.send_to(&reply_of(&data, mask), src).await;
        }
        lk(&log).push((src, data));
        note.notify_waiters();
    }
}

/// What the slow target of an unsendable-destination scenario did, and when: a datagram received
/// from `peer` (`answer_sent` false), or the answer to the request `req` sent to `peer`.
struct TargetEvent {
    at: Instant,
    peer: SocketAddr,
    req: Vec<u8>,
    answer_sent: bool,
}

type EvLog = Arc<Mutex<Vec<TargetEvent>>>;

/// Target A of the unsendable-destination scenarios: like `recv_loop` with an answer, but the
/// answer to `slow_req` is sent `delay` later (the target goes on receiving in between), and every
/// receipt and every answer that was handed to the kernel is recorded with its time and peer.
async fn slow_target_loop(sock: Arc<UdpSocket>, log: Log, events: EvLog, mask: u8, slow_req: Vec<u8>, delay: Duration) {
    let mut buf = vec![0u8; 65536 + 64];
    loop {
        let Ok((n, src)) = sock.recv_from(&mut buf).await else {
            // (the ICMP error of an answer sent to a socket that is gone shows up here)
            tokio::time::sleep(Duration::from_millis(1)).await;
            continue;
        };
        let data = buf[..n].to_vec();
        lk(&events).push(TargetEvent { at: Instant::now(), peer: src, req: data.clone(), answer_sent: false });
        lk(&log).push((src, data.clone()));
        let wait = if data == slow_req { delay } else { Duration::ZERO };
        let (sock, events) = (sock.clone(), events.clone());
        tokio::spawn(async move {
            if !wait.is_zero() {
                tokio::time::sleep(wait).await;
            }
            let reply = reply_of(&data, mask);
            // (a pending ICMP error of an earlier answer is reported by one send and cleared)
            for _ in 0..3 {
                if sock.send_to(&reply, src).await.is_ok() {
                    lk(&events).push(TargetEvent { at: Instant::now(), peer: src, req: data, answer_sent: true });
                    return;
                }
            }
        });
    }
}

/// Payload of a datagram as the local client sees it (SOCKS5: header stripped by the reference parser).
fn client_view(socks: bool, raw: &[u8]) -> Result<&[u8], String> {
    if !socks {
        return Ok(raw);
    }
    let h = proto::parse_udp_header(raw)?;
    if h.frag != 0 {
        return Err(format!("FRAG is {} in a reply of a relay that was never sent a fragment", h.frag));
    }
    Ok(&raw[h.data_at..])
}

/// Has exchange `seq` been answered? Some(true): the expected reply is there; Some(false):
/// something else arrived from the entry point since the request went out (the oracle will
/// judge it; no point in retransmitting); None: nothing yet.
fn answered(log: &Log, socks: bool, from: SocketAddr, want: &[u8], seq: usize, base: usize, earlier: &[Vec<u8>]) -> Option<bool> {
    let g = lk(log);
    let mut n = 0usize;
    let mut wrong = false;
    for (idx, (src, raw)) in g.iter().enumerate() {
        if *src != from {
            // the expected reply showing up from another address is an answer too (a wrong one)
            if idx >= base && !want.is_empty() && client_view(socks, raw).is_ok_and(|p| p == want) {
                wrong = true;
            }
            continue;
        }
        match client_view(socks, raw) {
            Ok(p) if p == want => n += 1,
            Ok(p) if earlier.iter().any(|e| e == p) => {}
            _ => wrong |= idx >= base,
        }
    }
    // empty payloads carry no sequence number: the n-th exchange needs the n-th empty reply
    if (want.is_empty() && n > seq) || (!want.is_empty() && n > 0) {
        Some(true)
    } else if wrong {
        Some(false)
    } else {
        None
    }
}

struct LegResult {
    sent: u64,
    /// transmissions addressed to each target
    sent_to: [u64; 2],
    retrans: u64,
    /// exchanges that got an answer (right or wrong)
    completed: usize,
    /// ... of which the answer was not the expected reply
    wrong: usize,
    /// (key, description, deadline-type) to use instead of the generic "reply missing" when `completed` falls short
    missing: Option<(String, String, bool)>,
    /// idle-gap scenario: the first transmission after the gap was not at the target within
    /// GAP_FIRST_TX_MS (before any retransmission); how many datagrams the target had seen by then
    first_tx_after_gap_lost: Option<usize>,
    /// two-address-families scenarios: exchanges whose FIRST transmission verifiably never reached
    /// its target while a fresh association reached it (descriptions; these exchanges were
    /// completed by a retransmission, the one that was not is in `missing`)
    family_lost: Vec<String>,
    /// unsendable-destination scenarios: (key, description) of what the definitive judgement found
    /// (deadline-type failures: they count only when they show again with the scenario run alone)
    unsendable: Vec<(String, String)>,
    /// unsendable-destination scenarios: the preconditions of the definitive judgement held
    /// (see `UdpStats::unsendable_judged`), and the answer to question-1 came late
    unsendable_judged: bool,
    unsendable_late: bool,
    /// one-pruned-then-newcomer scenario: the scenario ended in another leg (which carries the
    /// finding); the rest of this leg's exchanges were never attempted
    cut_short: bool,
    /// ... (leg B) the preconditions held: see `UdpStats::newcomer_judged`
    newcomer_judged: bool,
    /// ... (leg B) keep-alive exchanges that had no reply when the next one was due
    keepalives_unanswered: u64,
}

impl LegResult {
    fn new() -> Self {
        LegResult { sent: 0, sent_to: [0; 2], retrans: 0, completed: 0, wrong: 0, missing: None, first_tx_after_gap_lost: None, family_lost: Vec::new(), unsendable: Vec::new(), unsendable_judged: false, unsendable_late: false, cut_short: false, newcomer_judged: false, keepalives_unanswered: 0 }
    }
}

/// the key of "a datagram to a target of the other address family is not delivered"
pub const FAMILY_KEY: &str = "udp.socks5.second-address-family-unreachable";

/// Wait up to `ms` for exchange `seq` to be answered, without transmitting anything.
async fn wait_answer(io: &LegIo, want: &[u8], seq: usize, base: usize, earlier: &[Vec<u8>], ms: u64) -> Option<bool> {
    let until = Instant::now() + Duration::from_millis(ms);
    loop {
        let notified = io.note.notified();
        let ok = answered(&io.log, io.socks, io.entry, want, seq, base, earlier);
        if ok.is_some() {
            return ok;
        }
        let now = Instant::now();
        if now >= until {
            return None;
        }
        let _ = tokio::time::timeout(until - now, notified).await;
    }
}

/// The local end of a leg.
struct LegIo {
    sock: Arc<UdpSocket>,
    log: Log,
    note: Arc<Notify>,
    socks: bool,
    entry: SocketAddr,
}

/// Transmit `wire` to the entry point once per element of `waits` (stopping as soon as the
/// exchange is answered) and wait that long for the answer each time. `first_attempt` is the
/// number of transmissions of this exchange made before (a transmission other than the very
/// first counts as a retransmission).
#[allow(clippy::too_many_arguments)]
async fn transmit(io: &LegIo, wire: &[u8], want: &[u8], seq: usize, base: usize, earlier: &[Vec<u8>], waits: &[u64], first_attempt: usize, tk: usize, res: &mut LegResult) -> Option<bool> {
    let mut ok = None;
    for (k, w) in waits.iter().enumerate() {
        if io.sock.send_to(wire, io.entry).await.is_ok() {
            res.sent += 1;
            res.sent_to[tk] += 1;
            if first_attempt + k > 0 {
                res.retrans += 1;
            }
        }
        let until = Instant::now() + Duration::from_millis(*w);
        loop {
            let notified = io.note.notified();
            ok = answered(&io.log, io.socks, io.entry, want, seq, base, earlier);
            if ok.is_some() {
                break;
            }
            let now = Instant::now();
            if now >= until {
                break;
            }
            let _ = tokio::time::timeout(until - now, notified).await;
        }
        if ok.is_some() {
            break;
        }
    }
    ok
}

/// What the stray-datagram scenarios need besides the leg itself.
#[derive(Clone)]
pub struct StrayCtx {
    /// the SOCKS entry point (TCP)
    proxy: SocketAddr,
    client_done: Arc<AtomicBool>,
    deadline: Instant,
}

/// Control exchange of the stray-datagram and two-address-families scenarios: a FRESH association at the same entry
/// point (same client, same server, same target), one exchange with the usual loss tolerance.
/// Ok(milliseconds the answered transmission took) or Err(what went wrong).
async fn control_exchange(ctx: &StrayCtx, target: &(SocketAddr, Option<String>), mask: u8, tag: usize, waits: &[u64]) -> Result<u64, String> {
    let mut ctl = env::connect_tcp_entry(ctx.proxy, &ctx.client_done, ctx.deadline).await.map_err(|e| format!("connect to the SOCKS entry point: {e:?}"))?;
    let mut relay = match tokio::time::timeout(ctx.deadline.saturating_duration_since(Instant::now()), proto::socks5_udp_associate(&mut ctl)).await {
        Ok(Ok(a)) => a,
        Ok(Err(sh)) => return Err(format!("UDP ASSOCIATE: {sh:?}")),
        Err(_) => return Err("UDP ASSOCIATE: no answer".into()),
    };
    if relay.ip().is_unspecified() {
        relay.set_ip(IpAddr::from([127, 0, 0, 1]));
    }
    let sock = UdpSocket::bind("127.0.0.1:0").await.map_err(|e| format!("bind: {e}"))?;
    let req = request(STRAY_LEN, CONTROL_LEG, tag);
    let want = reply_of(&req, mask);
    let wire = proto::build_udp_request(target.0, target.1.as_deref(), &req);
    let mut buf = vec![0u8; 65536 + 64];
    for w in waits {
        let sent_at = Instant::now();
        sock.send_to(&wire, relay).await.map_err(|e| format!("send: {e}"))?;
        let until = sent_at + Duration::from_millis(*w);
        loop {
            let left = until.saturating_duration_since(Instant::now());
            if left.is_zero() {
                break;
            }
            match tokio::time::timeout(left, sock.recv_from(&mut buf)).await {
                Ok(Ok((n, src))) => {
                    if src == relay && client_view(true, &buf[..n]).is_ok_and(|p| p == want) {
                        return Ok(sent_at.elapsed().as_millis() as u64);
                    }
                }
                Ok(Err(_)) => tokio::time::sleep(Duration::from_millis(1)).await,
                Err(_) => break,
            }
        }
    }
    drop(ctl);
    Err(format!("no reply after {} transmissions over {} ms", waits.len(), waits.iter().sum::<u64>()))
}

#[allow(clippy::too_many_arguments)]
async fn run_leg(leg: usize, case: UdpCase, sock: Arc<UdpSocket>, log: Log, note: Arc<Notify>, entry: SocketAddr, targets: Vec<(SocketAddr, Option<String>)>, short: bool, tlogs: Vec<Log>, stray_ctx: Option<StrayCtx>) -> LegResult {
    let socks = case.kind.socks();
    let mut res = LegResult::new();
    let mut earlier: Vec<Vec<u8>> = Vec::new();
    let waits = if short { WAITS_SHORT_MS } else { WAITS_MS };
    let io = LegIo { sock, log, note, socks, entry };
    let mut stray_sent_at: Option<Instant> = None;
    for seq in 0..case.exchanges() {
        if case.topo == Topo::Idle && seq == 1 {
            // long enough for the client's map entry AND the server's forwarder to be pruned
            tokio::time::sleep(2 * prune_timeout() + Duration::from_secs(1)).await;
        }
        if case.topo == Topo::IdleGap && seq == 1 {
            // the server's forwarder of this flow has given up (UDP_PRUNE_TIMEOUT without traffic);
            // whether the client still knows the flow depends on its prune tick
            tokio::time::sleep(prune_timeout() + Duration::from_secs(GAP_EXTRA_S)).await;
        }
        if let (Some((stray, _)), 1) = (case.topo.stray(), seq) {
            // from a socket that is NOT the one of the association's client
            match UdpSocket::bind("127.0.0.1:0").await {
                Ok(other) => {
                    if other.send_to(stray, entry).await.is_err() {
                        res.missing = Some(("machinery".into(), "cannot send the stray datagram".into(), false));
                        return res;
                    }
                    stray_sent_at = Some(Instant::now());
                }
                Err(e) => {
                    res.missing = Some(("machinery".into(), format!("bind the stray socket: {e}"), false));
                    return res;
                }
            }
        }
        let req = request(case.len_at(seq), leg, seq);
        let tk = case.target_idx(leg, seq);
        let (target, domain) = &targets[tk];
        let want = reply_of(&req, MASKS[tk]);
        let wire = if socks { proto::build_udp_request(*target, domain.as_deref(), &req) } else { req.clone() };
        let base = lk(&io.log).len();
        let at_target = || lk(&tlogs[tk]).iter().filter(|(_, d)| *d == req).count();
        let ok = if case.topo == Topo::IdleGap && seq == 1 {
            // the first transmission is judged on its own: GAP_FIRST_TX_MS for it to show up at the
            // target; only then the usual retransmissions (so that the scenario goes on either way)
            let mut ok = transmit(&io, &wire, &want, seq, base, &earlier, &[GAP_FIRST_TX_MS], 0, tk, &mut res).await;
            if at_target() == 0 {
                res.first_tx_after_gap_lost = Some(lk(&tlogs[tk]).len());
            }
            if ok.is_none() {
                ok = transmit(&io, &wire, &want, seq, base, &earlier, &waits[1..], 1, tk, &mut res).await;
            }
            ok
        } else if let (Some((stray, variant)), Some(ctx), true) = (case.topo.stray(), stray_ctx.as_ref(), seq >= 1) {
            // three transmissions; if none is answered: is it this association only? A fresh
            // association through the same client, server and target is tried (with the full loss
            // tolerance), then the old one once more.
            let mut ok = transmit(&io, &wire, &want, seq, base, &earlier, &waits[..3], 0, tk, &mut res).await;
            if ok.is_none() {
                match control_exchange(ctx, &targets[0], MASKS[0], 0, &waits).await {
                    Ok(rtt_ms) => {
                        let last_wait = (20 * rtt_ms).max(1000);
                        ok = transmit(&io, &wire, &want, seq, base, &earlier, &[last_wait], 3, tk, &mut res).await;
                        if ok.is_none() {
                            res.missing = Some((
                                format!("udp.association-killed-by-stray-datagram.{variant}"),
                                format!(
                                    "the first exchange of the association worked; then ANOTHER local socket sent the {}-byte datagram {} to the relay address {entry}; after that, exchange {seq} of the legitimate client got no reply to 4 transmissions over {} ms (the target received that request {} time(s)), although in between a fresh association at the same SOCKS entry point exchanged a datagram with the same target in {rtt_ms} ms: the association is dead, {} ms after the stray datagram",
                                    stray.len(),
                                    vcommon::report::hex(stray),
                                    waits[..3].iter().sum::<u64>() + last_wait,
                                    at_target(),
                                    stray_sent_at.map_or(0, |t| t.elapsed().as_millis())
                                ),
                                false,
                            ));
                            return res;
                        }
                    }
                    Err(_) => {
                        // nothing works any more: not specific to this association; the generic verdict
                        ok = transmit(&io, &wire, &want, seq, base, &earlier, &waits[3..], 3, tk, &mut res).await;
                    }
                }
            }
            ok
        } else if let (true, Some(ctx), true) = (case.topo.two_families(), stray_ctx.as_ref(), seq >= 1) {
            // The first transmission is judged on its own. Not at its target after FAMILIES_FIRST_TX_MS:
            // is it the path to that target? A fresh association through the same client and server
            // is tried (full loss tolerance); if that one reaches the target and, a long time later
            // (>= 1 s and >= 20 times what the fresh association took), the datagram of the old
            // association still has not arrived, it was not delayed: it was never delivered.
            let mut ok = transmit(&io, &wire, &want, seq, base, &earlier, &[FAMILIES_FIRST_TX_MS], 0, tk, &mut res).await;
            let mut lost: Option<(u64, u64)> = None;
            if ok.is_none() && at_target() == 0 {
                if let Ok(rtt_ms) = control_exchange(ctx, &targets[tk], MASKS[tk], seq, &waits).await {
                    let more = (20 * rtt_ms).max(1000);
                    ok = wait_answer(&io, &want, seq, base, &earlier, more).await;
                    if ok.is_none() && at_target() == 0 {
                        lost = Some((FAMILIES_FIRST_TX_MS + more, rtt_ms));
                    }
                }
            }
            if ok.is_none() {
                ok = transmit(&io, &wire, &want, seq, base, &earlier, &waits[1..], 1, tk, &mut res).await;
            }
            if let Some((waited, rtt_ms)) = lost {
                let before: Vec<String> = (0..seq).map(|q| format!("{}", targets[case.target_idx(leg, q)].0)).collect();
                let d = format!(
                    "one local socket, ONE association: the exchange(s) before (with {before:?}, in this order) worked; exchange {seq} was addressed to {} ({}), a target of the other address family than the one before: its first transmission was not at that target {waited} ms later, although in between a FRESH association at the same SOCKS entry point exchanged a datagram with that very target in {rtt_ms} ms (the path works, the datagram was not delivered); {}",
                    target,
                    if target.is_ipv4() { "ATYP 1" } else { "ATYP 4" },
                    if ok.is_some() { format!("the exchange was completed only by a retransmission (the target saw the request {} time(s) after {} transmissions)", at_target(), res.sent_to[tk]) } else { format!("the {} retransmissions over {} ms got no reply either (the target saw the request {} time(s))", waits.len() - 1, waits[1..].iter().sum::<u64>(), at_target()) }
                );
                if ok.is_some() {
                    res.family_lost.push(d);
                } else {
                    res.missing = Some((FAMILY_KEY.into(), d, false));
                }
            }
            ok
        } else {
            transmit(&io, &wire, &want, seq, base, &earlier, &waits, 0, tk, &mut res).await
        };
        match ok {
            None => {
                if case.topo == Topo::Idle && seq == 1 {
                    res.missing = Some((
                        format!("udp.reply.missing-after-idle.{}", case.kind.family()),
                        format!(
                            "the first exchange worked; after {} s of silence (UDP_PRUNE_TIMEOUT is {} s) the same local client sent again ({} transmissions over {} ms) and no reply came back",
                            2 * prune_timeout().as_secs() + 1,
                            prune_timeout().as_secs(),
                            waits.len(),
                            waits.iter().sum::<u64>()
                        ),
                        true,
                    ));
                }
                if case.topo == Topo::IdleGap && seq == 1 {
                    res.missing = Some((
                        format!("udp.reply.missing-after-idle-gap.{}", case.kind.family()),
                        format!(
                            "the first exchange worked; after {} s of silence (UDP_PRUNE_TIMEOUT is {} s) the same local client sent again ({} transmissions over {} ms) and no reply came back",
                            prune_timeout().as_secs() + GAP_EXTRA_S,
                            prune_timeout().as_secs(),
                            waits.len(),
                            GAP_FIRST_TX_MS + waits[1..].iter().sum::<u64>()
                        ),
                        true,
                    ));
                }
                return res;
            }
            Some(true) => {}
            Some(false) => res.wrong += 1,
        }
        earlier.push(want);
        res.completed += 1;
        tokio::task::yield_now().await;
    }
    res
}

/// The unsendable-destination scenarios (see `Topo::UnsendName`): question-1 to the slow target A
/// (ONE transmission), one datagram to the second destination while A's answer is outstanding,
/// the answer of A, question-2 to A (usual loss tolerance).
///
/// Definitive judgement, made only on positive evidence that a loss is not network loss:
///  * `UNSEND_LOST_KEY`: A's own log shows that it received question-1 and that it SENT its answer
///    (and to which address); the local client does not have that answer `UNSEND_LOST_AFTER_MS`
///    after A sent it and still does not have it at the end of the scenario; and the path works:
///    question-2, sent afterwards through the same association, is answered by A (every hop
///    of the way back keeps the order of datagrams, so an answer to question-1 that was merely
///    slow would be there before the answer to question-2) -- or, if question-2 is not answered
///    either, a FRESH association at the same entry point exchanges a datagram with A;
///  * `UNSEND_PORT_KEY`: A's own log shows question-2 coming from another address than question-1
///    although less than UDP_PRUNE_TIMEOUT - `UNSEND_PRUNE_MARGIN_S` passed between the local
///    client's sending question-1 and A's receiving question-2 (the flow cannot have gone idle).
/// `completed` counts the steps gone through; it stays below 3 only when the generic verdict
/// (or the lost-answer verdict with an unanswered question-2) applies.
#[allow(clippy::too_many_arguments)]
async fn run_unsendable(case: UdpCase, sock: Arc<UdpSocket>, log: Log, note: Arc<Notify>, entry: SocketAddr, targets: Vec<(SocketAddr, Option<String>)>, short: bool, events: EvLog, ctx: StrayCtx) -> LegResult {
    let mut res = LegResult::new();
    let Some((dst, variant, why)) = case.topo.unsendable() else {
        res.missing = Some(("machinery".into(), "not an unsendable-destination topology".into(), false));
        return res;
    };
    let fam = case.kind.family();
    let waits = if short { WAITS_SHORT_MS } else { WAITS_MS };
    let io = LegIo { sock, log, note, socks: true, entry };
    let (a, a_dom) = targets[0].clone();
    let reqs: Vec<Vec<u8>> = (0..3).map(|q| request(case.len_at(q), 0, q)).collect();
    let want1 = reply_of(&reqs[0], MASKS[0]);
    // (only the control variant ever sees it)
    let want_b = reply_of(&reqs[1], MASKS[1]);
    let want2 = reply_of(&reqs[2], MASKS[0]);
    let wire1 = proto::build_udp_request(a, a_dom.as_deref(), &reqs[0]);
    let wire2 = proto::build_udp_request(a, a_dom.as_deref(), &reqs[2]);
    let wire_b = match dst {
        SecondDst::Name(name, port) => {
            let mut v = vec![0u8, 0, 0, 3, name.len() as u8];
            v.extend_from_slice(name);
            v.extend_from_slice(&port.to_be_bytes());
            v.extend_from_slice(&reqs[1]);
            v
        }
        SecondDst::V4(ip, port) => proto::build_udp_request(SocketAddr::from((ip, port)), None, &reqs[1]),
        SecondDst::Target => match targets.get(1) {
            Some((b, b_dom)) => proto::build_udp_request(*b, b_dom.as_deref(), &reqs[1]),
            None => {
                res.missing = Some(("machinery".into(), "the control variant has no second target".into(), false));
                return res;
            }
        },
    };
    // target A's own log: first receipt of a request, and the answer to it that A handed to the kernel
    let at_a = |req: &[u8]| lk(&events).iter().find(|e| !e.answer_sent && e.req == req).map(|e| (e.at, e.peer));
    let answer_of_a = |req: &[u8]| lk(&events).iter().find(|e| e.answer_sent && e.req == req).map(|e| (e.at, e.peer));
    let have1 = |io: &LegIo| lk(&io.log).iter().any(|(src, raw)| *src == entry && client_view(true, raw).is_ok_and(|p| p == want1));
    let delay = Duration::from_millis(UNSEND_DELAY_MS);

    // ---- 1. question-1, ONE transmission
    let base1 = lk(&io.log).len();
    let t_send1 = Instant::now();
    if io.sock.send_to(&wire1, entry).await.is_err() {
        res.missing = Some(("machinery".into(), "cannot send question-1".into(), false));
        return res;
    }
    res.sent += 1;
    res.sent_to[0] += 1;
    let mut r1 = None;
    while r1.is_none() && t_send1.elapsed() < Duration::from_millis(UNSEND_FIRST_TX_MS) {
        r1 = at_a(&reqs[0]);
        if r1.is_none() {
            tokio::time::sleep(Duration::from_millis(1)).await;
        }
    }
    // the preconditions of the definitive judgement
    let mut single = r1.is_some();
    let mut ok1: Option<bool> = None;
    if r1.is_none() {
        // not at A: network loss as far as anybody can tell; the loss tolerance of everywhere else
        ok1 = transmit(&io, &wire1, &want1, 0, base1, &[], &waits[1..], 1, 0, &mut res).await;
        if ok1.is_none() {
            return res;
        }
    }
    // ---- 2. ONE datagram to the second destination, while the answer of A is outstanding
    if io.sock.send_to(&wire_b, entry).await.is_err() {
        res.missing = Some(("machinery".into(), "cannot send the datagram for the second destination".into(), false));
        return res;
    }
    let t_b = Instant::now();
    res.sent += 1;
    if dst == SecondDst::Target {
        res.sent_to[1] += 1;
    }
    // ---- 3. the answer of A: until UNSEND_LOST_AFTER_MS after A sent it
    let mut a_sent: Option<(Instant, SocketAddr)> = None;
    if let (None, Some((r1_at, _))) = (ok1, r1) {
        loop {
            let notified = io.note.notified();
            ok1 = answered(&io.log, true, entry, &want1, 0, base1, std::slice::from_ref(&want_b));
            if ok1.is_some() {
                break;
            }
            if a_sent.is_none() {
                a_sent = answer_of_a(&reqs[0]);
            }
            let until = match a_sent {
                Some((at, _)) => at + Duration::from_millis(UNSEND_LOST_AFTER_MS),
                // (A has not sent yet; it is the harness's own task, so this is a matter of scheduling)
                None => r1_at + delay + Duration::from_millis(UNSEND_FIRST_TX_MS),
            };
            let now = Instant::now();
            if now >= until {
                break;
            }
            let _ = tokio::time::timeout((until - now).min(Duration::from_millis(20)), notified).await;
        }
        if a_sent.is_none() {
            a_sent = answer_of_a(&reqs[0]);
        }
        if ok1.is_none() && a_sent.is_none() {
            // A never answered (its answer task did not get to run or could not send): nothing
            // can be said about the subject; question-1 is retransmitted like any other request
            single = false;
            ok1 = transmit(&io, &wire1, &want1, 0, base1, std::slice::from_ref(&want_b), &waits[1..], 1, 0, &mut res).await;
            if ok1.is_none() {
                return res;
            }
        }
    }
    let waited1_ms = a_sent.map_or(0, |(at, _)| at.elapsed().as_millis());
    let judged = single && a_sent.is_some_and(|(at, _)| t_b < at);
    res.unsendable_judged = judged;
    if ok1 == Some(false) {
        res.wrong += 1;
    }
    // ---- 4. question-2, with the usual loss tolerance; a fresh association as control if it gets no answer
    let base2 = lk(&io.log).len();
    let earlier = vec![want1.clone(), want_b.clone()];
    let mut ok2 = transmit(&io, &wire2, &want2, 2, base2, &earlier, &waits[..3], 0, 0, &mut res).await;
    let mut fresh: Option<Result<u64, String>> = None;
    if ok2.is_none() {
        fresh = Some(control_exchange(&ctx, &targets[0], MASKS[0], 0, &waits).await);
        ok2 = transmit(&io, &wire2, &want2, 2, base2, &earlier, &waits[3..], 3, 0, &mut res).await;
    }
    if ok2 == Some(false) {
        res.wrong += 1;
    }
    let q2_tx = res.sent_to[0] - 1;
    if ok1.is_none() && !judged && !have1(&io) {
        // the answer of A is missing but the datagram for the second destination left too late
        // (after A had answered): nothing definitive; question-1 is retransmitted like any other request
        ok1 = transmit(&io, &wire1, &want1, 0, base1, &[want_b.clone(), want2.clone()], &waits[1..], 1, 0, &mut res).await;
        if ok1.is_none() {
            res.completed = 0;
            return res;
        }
    }
    // ---- judgement: the answer to question-1
    let history = |r1: (Instant, SocketAddr), s1: (Instant, SocketAddr)| {
        format!(
            "one local socket, ONE association: question-1 was sent ONCE to target A ({a}), which answers it {UNSEND_DELAY_MS} ms after it got it; A received it from {} (+{} ms) and, {} ms after that, the same local client sent ONE datagram through the same association to {} ({why}); A then SENT its answer to {} (+{} ms; A's own log)",
            r1.1,
            r1.0.saturating_duration_since(t_send1).as_millis(),
            t_b.saturating_duration_since(r1.0).as_millis(),
            dst.describe(),
            s1.1,
            s1.0.saturating_duration_since(t_send1).as_millis()
        )
    };
    let lost1 = ok1.is_none() && !have1(&io);
    if ok1.is_none() && !lost1 {
        // it was there in the end: late, not lost
        res.unsendable_late = true;
    }
    if let (true, true, Some(r1), Some(s1)) = (lost1, judged, r1, a_sent) {
        let path = match (&ok2, &fresh) {
            (Some(_), _) => Some(format!("although question-2, sent afterwards through the SAME association to the same target, was answered ({q2_tx} transmission(s)): every hop of the way back keeps the order of datagrams, so the answer to question-1 was not slow, it was not delivered")),
            (None, Some(Ok(rtt_ms))) => Some(format!("question-2, sent afterwards through the same association, got no reply either ({q2_tx} transmissions over {} ms), although in between a FRESH association at the same SOCKS entry point exchanged a datagram with target A in {rtt_ms} ms (the path works)", waits.iter().sum::<u64>())),
            _ => None,
        };
        match path {
            Some(p) => {
                let d = format!(
                    "{}; that answer had not reached the local client {waited1_ms} ms later (limit {UNSEND_LOST_AFTER_MS} ms) and was still missing at the end of the scenario ({} ms after A sent it), {p}. A datagram that cannot be sent is lost like on a plain UDP socket; it must not take the client's other exchanges down",
                    history(r1, s1),
                    s1.0.elapsed().as_millis()
                );
                if ok2.is_some() {
                    res.unsendable.push((format!("{UNSEND_LOST_KEY}.{variant}"), d));
                } else {
                    res.missing = Some((format!("{UNSEND_LOST_KEY}.{variant}"), d, true));
                }
            }
            None => {
                // nothing works any more: not specific to this association; the generic verdict
                res.completed = 0;
                res.missing = Some((
                    format!("udp.reply.missing.{fam}.{}", len_class(case.size)),
                    format!(
                        "{}; neither that answer ({} ms) nor an answer to question-2 ({q2_tx} transmissions over {} ms) reached the local client, and a fresh association at the same SOCKS entry point did not reach target A either ({})",
                        history(r1, s1),
                        s1.0.elapsed().as_millis(),
                        waits.iter().sum::<u64>(),
                        fresh.as_ref().and_then(|f| f.as_ref().err()).map_or("?", String::as_str)
                    ),
                    true,
                ));
                return res;
            }
        }
    }
    // ---- judgement: the server-side source address of the association's datagrams at A
    if let (Some((_, src1)), Some((at2, src2))) = (at_a(&reqs[0]), at_a(&reqs[2])) {
        let span = at2.saturating_duration_since(t_send1);
        if src1 != src2 && span + Duration::from_secs(UNSEND_PRUNE_MARGIN_S) < prune_timeout() {
            res.unsendable.push((
                format!("{UNSEND_PORT_KEY}.{variant}"),
                format!(
                    "one local socket, ONE association, one target A ({a}): question-1 reached A from {src1}; then the same local client sent ONE datagram to {} ({why}); question-2, sent to A afterwards, reached A from {src2}, {} ms after the local client sent question-1 (UDP_PRUNE_TIMEOUT is {} s: the flow never went idle). The datagrams of one association to one target come from one address (an answer finds its way back only to the address the request came from; the server's socket of the flow has to stay); the answer to question-1 {}",
                    dst.describe(),
                    span.as_millis(),
                    prune_timeout().as_secs(),
                    if lost1 { "never reached the local client" } else { "reached the local client" }
                ),
            ));
        }
    }
    res.completed = if ok2.is_some() { 3 } else { 2 };
    res
}

/// TCP target of the overlong-target-host scenarios: every connection gets back what it sends.
async fn echo_target(l: tokio::net::TcpListener, accepted: Arc<std::sync::atomic::AtomicUsize>) {
    use tokio::io::{AsyncReadExt, AsyncWriteExt};
    // (dropped, and with it every connection task, when this task is aborted)
    let mut conns = tokio::task::JoinSet::new();
    loop {
        let Ok((mut s, _)) = l.accept().await else {
            tokio::time::sleep(Duration::from_millis(1)).await;
            continue;
        };
        accepted.fetch_add(1, std::sync::atomic::Ordering::SeqCst);
        let _ = s.set_nodelay(true);
        conns.spawn(async move {
            let mut buf = vec![0u8; 16384];
            loop {
                match s.read(&mut buf).await {
                    Ok(0) | Err(_) => return,
                    Ok(n) => {
                        if s.write_all(&buf[..n]).await.is_err() {
                            return;
                        }
                    }
                }
            }
        });
    }
}

/// Write `block` to `s` and read it back. Err((what happened, deadline-type)): the connection
/// ended or gave an error or other bytes (false), or nothing more came before `until` (true).
async fn echo_exchange(s: &mut TcpStream, block: &[u8], until: Instant) -> Result<(), (String, bool)> {
    use tokio::io::{AsyncReadExt, AsyncWriteExt};
    let started = Instant::now();
    let mut got: Vec<u8> = Vec::with_capacity(block.len());
    let io = async {
        if let Err(e) = s.write_all(block).await {
            return Err(format!("writing {} bytes failed: {e} ({:?})", block.len(), e.kind()));
        }
        let mut buf = vec![0u8; 4096];
        while got.len() < block.len() {
            match s.read(&mut buf).await {
                Ok(0) => return Err(format!("{} bytes written, then the connection was closed (EOF) after {} of them had come back", block.len(), got.len())),
                Ok(n) => got.extend_from_slice(&buf[..n]),
                Err(e) => return Err(format!("{} bytes written, then reading failed after {} of them had come back: {e} ({:?})", block.len(), got.len(), e.kind())),
            }
        }
        Ok(())
    };
    match tokio::time::timeout(until.saturating_duration_since(started), io).await {
        Ok(Ok(())) if got == block => Ok(()),
        Ok(Ok(())) => {
            let at = got.iter().zip(block).position(|(a, b)| a != b).unwrap_or(block.len());
            Err((format!("{} bytes written, {} bytes came back and they differ from offset {at} on", block.len(), got.len()), false))
        }
        Ok(Err(m)) => Err((format!("{m}, {} ms after the write began", started.elapsed().as_millis()), false)),
        Err(_) => Err((format!("{} bytes written, only {} of them had come back {} ms later (connection still open)", block.len(), got.len(), started.elapsed().as_millis()), true)),
    }
}

/// The overlong-target-host scenarios (see `Topo::OverlongHost256`): one client with a TCP remote
/// to an echo target and a `udp` remote whose target host has 256 (control: 255) octets.
///
/// Judgement (keys `OVERLONG_KEY`.<what>.<variant>), all about what happens AFTER the one datagram
/// was sent to the UDP remote's local port (everything before it worked, or the scenario ends
/// with a key `OVERLONG_KEY`.before-the-datagram.*):
///  * `tcp-stream-broken`: the TCP connection that echoed a block before the datagram does not
///    echo the next one (definitive when it was closed, reset or echoed other bytes; deadline-type
///    when it is merely silent until the deadline);
///  * `new-connection-refused`: a new connection to the TCP remote's local port is not accepted,
///    or is accepted and does not echo;
///  * `client-ended`: `client_main_inner` has returned.
async fn run_overlong(envr: &Env, case: &UdpCase, deadline_s: u64) -> UdpOutcome {
    use std::sync::atomic::{AtomicUsize, Ordering};
    let t0 = Instant::now();
    let deadline = t0 + Duration::from_secs(deadline_s);
    let lab = case.label();
    let mut failures: Vec<Failure> = Vec::new();
    let mut stats = UdpStats::default();
    let machinery = |m: String| UdpOutcome {
        failures: vec![Failure { key: "machinery".into(), desc: format!("{lab}: {m}"), deadline: false }],
        obs: json!({"machinery": true}),
        port_race: false,
        stats: UdpStats::default(),
        wall: t0.elapsed(),
    };
    let Some((host_len, variant)) = case.topo.overlong() else {
        return machinery("not an overlong-target-host topology".into());
    };
    let host = "a".repeat(host_len);

    // ---- target: TCP echo
    let listener = match tokio::net::TcpListener::bind("127.0.0.1:0").await {
        Ok(l) => l,
        Err(e) => return machinery(format!("bind the echo target: {e}")),
    };
    let echo_addr = listener.local_addr().expect("echo addr");
    let accepted = Arc::new(AtomicUsize::new(0));
    let echo_task = tokio::spawn(echo_target(listener, accepted.clone()));

    // ---- subject: one client, two remotes
    let (lt, lu) = (env::lease_port(false), env::lease_port(true));
    let remotes = vec![format!("127.0.0.1:{}:127.0.0.1:{}", lt.port, echo_addr.port()), format!("127.0.0.1:{}:{host}:{OVERLONG_DST_PORT}/udp", lu.port)];
    let mut tunnel: Tunnel = match env::start_tunnel(envr, &remotes).await {
        Ok(t) => t,
        Err(e) => {
            echo_task.abort();
            return machinery(e);
        }
    };
    let client_done = tunnel.client_done.clone();
    let tcp_entry = SocketAddr::from(([127, 0, 0, 1], lt.port));
    let udp_entry = SocketAddr::from(([127, 0, 0, 1], lu.port));
    let what = format!("one client with the remotes 127.0.0.1:{}:127.0.0.1:{} (TCP, to an echo target) and 127.0.0.1:{}:<{host_len} x 'a'>:{OVERLONG_DST_PORT}/udp", lt.port, echo_addr.port(), lu.port);
    let blocks: Vec<Vec<u8>> = vec![request(OVERLONG_TCP_LEN, 0, 0), request(OVERLONG_TCP_LEN, 0, 1), request(OVERLONG_TCP_LEN, 1, 0)];

    // (key without its head and variant, description, deadline-type)
    let mut found: Vec<(String, String, bool)> = Vec::new();
    let mut steps: Vec<&'static str> = Vec::new();
    let mut echoed = 0u64;
    // the datagram left the harness while the client was running: what follows is judged
    let mut sent_at: Option<Instant> = None;
    let mut conn0: Option<TcpStream> = None;
    let mut conn1: Option<TcpStream> = None;
    'seq: {
        // ---- 1. a TCP connection through the TCP remote: it works
        let mut s = match env::connect_tcp_entry(tcp_entry, &client_done, deadline).await {
            Ok(s) => s,
            // (the subject status below says how it ended)
            Err(ConnectFail::ClientExited) => break 'seq,
            Err(ConnectFail::Deadline(m)) => {
                found.push(("before-the-datagram.tcp-entry-unreachable".into(), format!("{what}: cannot connect to the TCP remote's local port within {deadline_s} s: {m}"), true));
                break 'seq;
            }
        };
        let r = echo_exchange(&mut s, &blocks[0], deadline).await;
        conn0 = Some(s);
        if let Err((m, dl)) = r {
            if !client_done.load(Ordering::SeqCst) {
                found.push(("before-the-datagram.tcp-echo-failed".into(), format!("{what}: the first TCP connection through the TCP remote, before any datagram was sent: {m}"), dl));
            }
            break 'seq;
        }
        echoed += blocks[0].len() as u64;
        steps.push("connection-0-echoed-before");
        match env::wait_udp_bound(lu.port, &client_done, deadline).await {
            Ok(()) => {}
            Err(ConnectFail::ClientExited) => break 'seq,
            Err(ConnectFail::Deadline(m)) => {
                found.push(("before-the-datagram.udp-entry-unreachable".into(), format!("{what}: the UDP remote never bound its port: {m}"), true));
                break 'seq;
            }
        }
        // ---- 2. ONE datagram to the UDP remote
        let usock = match UdpSocket::bind("127.0.0.1:0").await {
            Ok(s) => s,
            Err(e) => {
                found.push(("machinery".into(), format!("bind the local udp client: {e}"), false));
                break 'seq;
            }
        };
        if client_done.load(Ordering::SeqCst) {
            break 'seq;
        }
        if let Err(e) = usock.send_to(&request(case.size, 0, 0), udp_entry).await {
            found.push(("machinery".into(), format!("cannot send the datagram: {e}"), false));
            break 'seq;
        }
        sent_at = Some(Instant::now());
        steps.push("datagram-sent");
        // ---- 3. time for whatever the datagram sets off
        tokio::time::sleep(Duration::from_millis(OVERLONG_PAUSE_MS)).await;
        let after = |t: Instant| t.elapsed().as_millis();
        let history = format!("{what}: a TCP connection through the TCP remote echoed {OVERLONG_TCP_LEN} bytes; then ONE datagram of {} bytes was sent to the UDP remote's local port {udp_entry} (its target host has {host_len} octets: {})", case.size, if host_len > 255 { "one more than a datagram frame carries, the datagram is refused at the sender and that is all that may happen" } else { "the most a datagram frame carries; the name does not resolve, the server cannot forward the datagram and that is all that may happen" });
        // ---- 4. the SAME TCP connection
        if let (Some(s), Some(t)) = (conn0.as_mut(), sent_at) {
            match echo_exchange(s, &blocks[1], deadline).await {
                Ok(()) => {
                    echoed += blocks[1].len() as u64;
                    steps.push("connection-0-echoed-after");
                }
                Err((m, dl)) => found.push(("tcp-stream-broken".into(), format!("{history}; {OVERLONG_PAUSE_MS} ms later the SAME TCP connection was used again: {m} ({} ms after the datagram). No datagram terminates the connection or disturbs stream traffic", after(t)), dl)),
            }
        }
        // ---- 5. a new TCP connection through the remote
        if let Some(t) = sent_at {
            match tokio::time::timeout(deadline.saturating_duration_since(Instant::now()), TcpStream::connect(tcp_entry)).await {
                Ok(Ok(mut s)) => {
                    let _ = s.set_nodelay(true);
                    let r = echo_exchange(&mut s, &blocks[2], deadline).await;
                    conn1 = Some(s);
                    match r {
                        Ok(()) => {
                            echoed += blocks[2].len() as u64;
                            steps.push("connection-1-echoed");
                        }
                        Err((m, dl)) => found.push(("new-connection-refused".into(), format!("{history}; afterwards a NEW connection to the TCP remote's local port {tcp_entry} was accepted but not served: {m} ({} ms after the datagram; the echo target has accepted {} connection(s) in all). Local connections keep working", after(t), accepted.load(Ordering::SeqCst)), dl)),
                    }
                }
                Ok(Err(e)) => found.push(("new-connection-refused".into(), format!("{history}; afterwards a NEW connection to the TCP remote's local port {tcp_entry} failed: {e} ({:?}; {} ms after the datagram): nobody listens there any more. Local connections keep working", e.kind(), after(t)), false)),
                Err(_) => found.push(("new-connection-refused".into(), format!("{history}; afterwards a NEW connection to the TCP remote's local port {tcp_entry} was not established within the deadline of {deadline_s} s"), true)),
            }
        }
    }

    // ---- 6. subject status
    let mut port_race = false;
    if let Some(ex) = tunnel.client_exit().await {
        if ex.addr_in_use {
            port_race = true;
        }
        match sent_at {
            Some(t) if !ex.addr_in_use => failures.push(Failure {
                key: format!("{OVERLONG_KEY}.client-ended.{variant}"),
                desc: format!("{lab}: {what}: everything worked until ONE datagram of {} bytes was sent to the UDP remote's local port (target host of {host_len} octets); {} ms later client_main_inner has ended: {}{}. A datagram is refused or lost, the client as a whole keeps running", case.size, t.elapsed().as_millis(), ex.text, if ex.panicked { " (panic)" } else { "" }),
                deadline: false,
            }),
            _ => failures.push(Failure { key: if ex.panicked { "subject.client-panicked".into() } else { "subject.client-exited".into() }, desc: format!("{lab}: the penguin client ended before the datagram was sent: {}", ex.text), deadline: false }),
        }
    }
    if tunnel.server_finished() {
        failures.push(Failure { key: "subject.server-exited".into(), desc: format!("{lab}: run_listener ended"), deadline: false });
    }
    echo_task.abort();
    tunnel.stop();
    drop((conn0, conn1));
    for (k, d, dl) in found {
        let key = if k == "machinery" { k } else { format!("{OVERLONG_KEY}.{k}.{variant}") };
        failures.push(Failure { key, desc: format!("{lab}: {d}"), deadline: dl });
    }
    drop((lt, lu));
    if failures.is_empty() {
        if steps.len() == 4 {
            stats.overlong_completed = 1;
            stats.overlong_tcp_bytes_echoed = echoed;
        } else {
            // cannot happen: a sequence that stops early leaves a finding or a client that has ended
            failures.push(Failure { key: "machinery".into(), desc: format!("{lab}: the sequence stopped after {steps:?} without a finding"), deadline: false });
        }
    }
    let mut keys: Vec<String> = failures.iter().map(|f| f.key.clone()).collect();
    keys.sort();
    keys.dedup();
    UdpOutcome { obs: json!({"failure_keys": keys, "steps": steps, "tcp_bytes_echoed": echoed, "echo_target_accepted": accepted.load(Ordering::SeqCst)}), failures, port_race, stats, wall: t0.elapsed() }
}

/// The steady sender: one datagram per second, a silent target, one reply at the end.
#[allow(clippy::too_many_arguments)]
async fn run_steady(case: UdpCase, sock: Arc<UdpSocket>, log: Log, note: Arc<Notify>, entry: SocketAddr, target: (SocketAddr, Option<String>), tsock: Arc<UdpSocket>, tlog: Log, short: bool) -> LegResult {
    let socks = case.kind.socks();
    let fam = case.kind.family();
    let nx = case.exchanges();
    let mut res = LegResult::new();
    let wire_of = |seq: usize| {
        let req = request(case.len_at(seq), 0, seq);
        if socks { proto::build_udp_request(target.0, target.1.as_deref(), &req) } else { req }
    };
    let started = Instant::now();
    for seq in 0..nx {
        if sock.send_to(&wire_of(seq), entry).await.is_ok() {
            res.sent += 1;
            res.sent_to[0] += 1;
        }
        if seq + 1 < nx {
            // absolute schedule: the gaps never add up to more than a second each
            tokio::time::sleep_until(tokio::time::Instant::from_std(started + Duration::from_secs(seq as u64 + 1))).await;
        }
    }
    let last = request(case.len_at(nx - 1), 0, nx - 1);
    // the last request has to be at the target (loss tolerance: up to 5 more transmissions, still one per second)
    let mut src = None;
    for attempt in 0..6 {
        let until = Instant::now() + Duration::from_secs(1);
        while Instant::now() < until {
            if let Some((a, _)) = lk(&tlog).iter().find(|(_, d)| *d == last) {
                src = Some(*a);
                break;
            }
            tokio::time::sleep(Duration::from_millis(5)).await;
        }
        if src.is_some() || attempt == 5 {
            break;
        }
        if sock.send_to(&wire_of(nx - 1), entry).await.is_ok() {
            res.sent += 1;
            res.sent_to[0] += 1;
            res.retrans += 1;
        }
    }
    let arrived = lk(&tlog).len();
    res.completed = nx - 1;
    let Some(src) = src else {
        res.missing = Some((
            format!("udp.request.lost-while-steady-sending.{fam}"),
            format!("after {} s of sending one datagram per second, the last request (6 transmissions) never reached the target; the target received {arrived} of the {} datagrams sent", nx - 1, res.sent),
            true,
        ));
        return res;
    };
    // now the target answers the last request (and repeats the answer: loss tolerance)
    let want = reply_of(&last, MASKS[0]);
    let base = lk(&log).len();
    let waits = if short { WAITS_SHORT_MS } else { WAITS_MS };
    let mut ok = None;
    for w in waits {
        let _ = tsock.send_to(&want, src).await;
        let until = Instant::now() + Duration::from_millis(w);
        loop {
            let notified = note.notified();
            ok = answered(&log, socks, entry, &want, nx - 1, base, &[]);
            if ok.is_some() || Instant::now() >= until {
                break;
            }
            let _ = tokio::time::timeout(until.saturating_duration_since(Instant::now()), notified).await;
        }
        if ok.is_some() {
            break;
        }
    }
    match ok {
        Some(true) => res.completed = nx,
        Some(false) => {
            res.completed = nx;
            res.wrong += 1;
        }
        None => {
            res.missing = Some((
                format!("udp.reply.lost-after-steady-sending.{fam}"),
                format!(
                    "the local client sent one datagram per second for {} s (UDP_PRUNE_TIMEOUT is {} s; the target received {arrived} of them and stayed silent); the target then answered the last request {} times over {} ms, from the address the request came from: no reply reached the local client although its flow never went idle",
                    nx - 1,
                    prune_timeout().as_secs(),
                    waits.len(),
                    waits.iter().sum::<u64>()
                ),
                true,
            ));
        }
    }
    res
}

/// The one-pruned-then-newcomer scenario (see `Topo::PruneThenNewcomer`). `ios`: the local ends
/// of clients A, B, C. One task plays the whole history; the result is one `LegResult` per client.
///
/// Judgement: the generic oracle of `run_udp` judges every datagram any local socket received (a
/// reply at another socket than the one that sent the request: `udp.reply.misdelivered.*`, not a
/// deadline-type failure). Here: an exchange of A, B (first and last) or C that gets no reply
/// after the usual retransmissions ends the scenario with `udp.reply.missing.<family>` (a
/// deadline-type failure: it counts only when it shows again with the scenario run alone); while
/// an exchange after the keep-alive phase is waiting, the other clients' logs are watched: the
/// expected reply showing up THERE is an answer too (a wrong one; no point in retransmitting).
/// All keys of this topology end in `NEWCOMER_KEY_SUFFIX`.
async fn run_prune_newcomer(case: UdpCase, ios: Vec<LegIo>, target: (SocketAddr, Option<String>), short: bool) -> Vec<LegResult> {
    let fam = case.kind.family();
    let socks = case.kind.socks();
    let waits = if short { WAITS_SHORT_MS } else { WAITS_MS };
    let n_keep = case.newcomer_keepalives();
    let names = ["A", "B", "C"];
    let mut res: Vec<LegResult> = (0..3).map(|_| LegResult::new()).collect();
    let mut earlier: Vec<Vec<Vec<u8>>> = vec![Vec::new(); 3];
    if ios.len() != 3 {
        res[0].missing = Some(("machinery".into(), "the one-pruned-then-newcomer scenario needs three local clients".into(), false));
        return res;
    }
    let wire_of = |req: &[u8]| if socks { proto::build_udp_request(target.0, target.1.as_deref(), req) } else { req.to_vec() };
    // the expected reply is in the log of ANOTHER local client
    let elsewhere = |leg: usize, want: &[u8]| (0..3).filter(|o| *o != leg).find(|o| lk(&ios[*o].log).iter().any(|(_, raw)| client_view(socks, raw).is_ok_and(|p| p == want)));
    let started = Instant::now();
    let mut history: Vec<String> = Vec::new();
    // (leg, seq, watch the other clients' logs)
    let mut plan: Vec<(usize, usize, bool)> = vec![(0, 0, false), (1, 0, false)];
    plan.extend((1..=n_keep).map(|k| (1, k, false)));
    plan.extend([(2, 0, true), (1, n_keep + 1, true), (2, 1, true)]);
    // when A's exchange was answered (A is silent from then on), when B's first exchange was
    // answered (the keep-alive schedule counts from there), B's last transmission and the
    // longest time between two of them, A's silence when C first sent
    let mut a_done: Option<Instant> = None;
    let mut b_first_done: Option<Instant> = None;
    let mut b_last_tx: Option<Instant> = None;
    let mut b_max_gap = Duration::ZERO;
    let mut a_silence_at_c: Option<Duration> = None;
    for (leg, seq, watch) in plan {
        let keepalive = leg == 1 && (1..=n_keep).contains(&seq);
        if let (true, Some(t)) = (keepalive, b_first_done) {
            // absolute schedule: the gaps never add up to more than a second each
            tokio::time::sleep_until(tokio::time::Instant::from_std(t + Duration::from_secs(seq as u64))).await;
        }
        let io = &ios[leg];
        let req = request(case.len_at(seq), leg, seq);
        let want = reply_of(&req, MASKS[0]);
        let wire = wire_of(&req);
        let base = lk(&io.log).len();
        let now = Instant::now();
        if leg == 1 {
            if let Some(t) = b_last_tx {
                b_max_gap = b_max_gap.max(now.saturating_duration_since(t));
            }
        }
        if (leg, seq) == (2, 0) {
            a_silence_at_c = a_done.map(|t| now.saturating_duration_since(t));
        }
        let mut ok = None;
        if keepalive {
            ok = transmit(io, &wire, &want, seq, base, &earlier[leg], &[NEWCOMER_KEEPALIVE_WAIT_MS], 0, 0, &mut res[leg]).await;
            b_last_tx = Some(now);
            if ok.is_none() {
                // tolerated: the next one follows (a reply that comes late is still judged by the oracle)
                res[leg].keepalives_unanswered += 1;
                ok = Some(true);
            }
        } else {
            for (k, w) in waits.iter().enumerate() {
                if leg == 1 {
                    let t = Instant::now();
                    if let Some(l) = b_last_tx {
                        b_max_gap = b_max_gap.max(t.saturating_duration_since(l));
                    }
                    b_last_tx = Some(t);
                }
                ok = transmit(io, &wire, &want, seq, base, &earlier[leg], &[*w], k, 0, &mut res[leg]).await;
                if ok.is_some() {
                    break;
                }
                if watch {
                    if let Some(o) = elsewhere(leg, &want) {
                        history.push(format!("the reply to exchange {seq} of {} showed up at the socket of {} after {} transmission(s)", names[leg], names[o], k + 1));
                        ok = Some(false);
                        break;
                    }
                }
            }
        }
        let at_ms = started.elapsed().as_millis();
        match ok {
            None => {
                let silence = a_silence_at_c.map_or_else(|| "the newcomer C has not sent anything yet".to_string(), |d| format!("A had been silent for {} ms when the newcomer C sent its first datagram", d.as_millis()));
                res[leg].missing = Some((
                    format!("udp.reply.missing.{fam}"),
                    format!(
                        "three local clients A, B, C ({}); history so far: [{}]; then exchange {seq} of client {} ({} bytes) got no reply after {} transmissions over {} ms, +{at_ms} ms into the scenario, and the reply did not show up at another client's socket either (UDP_PRUNE_TIMEOUT is {} s; {silence}; B's datagrams were never more than {} ms apart; {} of B's keep-alive exchanges were unanswered when the next one was due)",
                        if socks { "one SOCKS5 UDP association each" } else { "three sockets talking to the same UDP remote" },
                        history.join("; "),
                        names[leg],
                        case.len_at(seq),
                        waits.len(),
                        waits.iter().sum::<u64>(),
                        prune_timeout().as_secs(),
                        b_max_gap.as_millis(),
                        res[1].keepalives_unanswered
                    ),
                    true,
                ));
                for (l, r) in res.iter_mut().enumerate() {
                    r.cut_short = l != leg;
                }
                return res;
            }
            Some(true) => {}
            Some(false) => res[leg].wrong += 1,
        }
        earlier[leg].push(want);
        res[leg].completed += 1;
        match (leg, seq) {
            (0, 0) => a_done = Some(Instant::now()),
            (1, 0) => b_first_done = Some(Instant::now()),
            _ => {}
        }
        if !keepalive {
            history.push(format!("+{at_ms} ms: exchange {seq} of {} done", names[leg]));
        } else if seq == n_keep {
            history.push(format!("+{at_ms} ms: exchanges 1..={n_keep} of B, one per second ({} without a reply when the next one was due)", res[1].keepalives_unanswered));
        }
        tokio::task::yield_now().await;
    }
    let margin = Duration::from_secs(NEWCOMER_PRUNE_MARGIN_S);
    res[1].newcomer_judged = b_max_gap + margin < prune_timeout() && a_silence_at_c.is_some_and(|d| d >= 2 * prune_timeout());
    res
}

/// Run one UDP matrix point once.
pub async fn run_udp(envr: &Env, case: &UdpCase, deadline_s: u64, short_waits: bool) -> UdpOutcome {
    let t0 = Instant::now();
    let deadline = t0 + Duration::from_secs(deadline_s);
    let mut failures: Vec<Failure> = Vec::new();
    let mut stats = UdpStats::default();
    let fam = case.kind.family();
    let lab = case.label();
    let socks = case.kind.socks();
    // dual-stack-listener topologies: the SOCKS listener is on [::], the local application uses
    // ONE address family for everything (everywhere else: listener and application on 127.0.0.1)
    let dual_listener = case.topo.dual_listener();
    let app_ip: IpAddr = if dual_listener == Some(true) { IpAddr::V6(std::net::Ipv6Addr::LOCALHOST) } else { IpAddr::from([127, 0, 0, 1]) };
    let key_sfx = case.topo.key_suffix();
    let machinery = |m: String| UdpOutcome {
        failures: vec![Failure { key: "machinery".into(), desc: m, deadline: false }],
        obs: json!({"machinery": true}),
        port_race: false,
        stats: UdpStats::default(),
        wall: t0.elapsed(),
    };
    let legs = case.legs();
    let n_socks = legs.iter().map(|l| l.0).max().unwrap_or(0) + 1;
    let n_entries = legs.iter().map(|l| l.1).max().unwrap_or(0) + 1;

    // ---- target
    if !case.valid() {
        return machinery(format!("{lab}: not a point of the matrix"));
    }
    if let Some(why) = case.topo.unavailable() {
        // (the matrix and the replay leave these points out and say so; nobody else asks)
        return machinery(format!("{lab}: cannot be run on this machine: {why}"));
    }
    if case.topo.overlong().is_some() {
        // (a scenario of its own: TCP connections beside ONE datagram that is never answered)
        return run_overlong(envr, case, deadline_s).await;
    }
    let n_targets = case.n_targets();
    let mut tsocks: Vec<Arc<UdpSocket>> = Vec::new();
    for attempt in 0..50 {
        tsocks.clear();
        let a = match UdpSocket::bind(if case.topo == Topo::TwoFamilies6 { "[::1]:0" } else { "127.0.0.1:0" }).await {
            Ok(s) => s,
            Err(e) => return machinery(format!("bind udp target: {e}")),
        };
        let pa = a.local_addr().expect("target addr").port();
        tsocks.push(Arc::new(a));
        if n_targets == 2 {
            // same host string, other port -- or other host string (127.0.0.2), same port -- or the other address family
            let second = match case.topo {
                Topo::TwoPorts | Topo::TwoFamilies6 | Topo::UnsendControl => UdpSocket::bind("127.0.0.1:0").await,
                Topo::TwoFamilies => UdpSocket::bind("[::1]:0").await,
                _ => UdpSocket::bind(("127.0.0.2", pa)).await,
            };
            match second {
                Ok(b) => tsocks.push(Arc::new(b)),
                Err(_) if attempt < 49 => continue,
                Err(e) => return machinery(format!("bind second udp target: {e}")),
            }
        }
        break;
    }
    let target_addrs: Vec<SocketAddr> = tsocks.iter().map(|s| s.local_addr().expect("target addr")).collect();
    let target = target_addrs[0];
    let tlogs: Vec<Log> = (0..n_targets).map(|_| Arc::new(Mutex::new(Vec::new()))).collect();
    let mut tasks = Vec::new();
    // (unsendable-destination scenarios: what target A did, and when)
    let events: EvLog = Arc::new(Mutex::new(Vec::new()));
    for (k, ts) in tsocks.iter().enumerate() {
        if k == 0 && case.topo.unsendable().is_some() {
            tasks.push(tokio::spawn(slow_target_loop(ts.clone(), tlogs[0].clone(), events.clone(), MASKS[0], request(case.len_at(0), 0, 0), Duration::from_millis(UNSEND_DELAY_MS))));
            continue;
        }
        tasks.push(tokio::spawn(recv_loop(ts.clone(), tlogs[k].clone(), Arc::new(Notify::new()), if case.topo == Topo::Steady { None } else { Some(MASKS[k]) })));
    }

    // ---- subject
    let mut leases = Vec::new();
    let remotes: Vec<String> = if socks {
        let l = env::lease_port(false);
        let s = if dual_listener.is_some() { format!("[::]:{}:socks", l.port) } else { format!("127.0.0.1:{}:socks", l.port) };
        leases.push(l);
        vec![s]
    } else {
        (0..n_entries)
            .map(|_| {
                let l = env::lease_port(true);
                let s = format!("127.0.0.1:{}:127.0.0.1:{}/udp", l.port, target.port());
                leases.push(l);
                s
            })
            .collect()
    };
    let mut tunnel: Tunnel = match env::start_tunnel(envr, &remotes).await {
        Ok(t) => t,
        Err(e) => return machinery(e),
    };
    let client_done = tunnel.client_done.clone();

    // ---- entry points
    let mut entry_addrs: Vec<SocketAddr> = Vec::new();
    let mut controls: Vec<TcpStream> = Vec::new();
    let mut setup_fail: Option<(String, String, bool)> = None;
    if socks {
        let paddr = SocketAddr::new(app_ip, leases[0].port);
        for e in 0..n_entries {
            match env::connect_tcp_entry(paddr, &client_done, deadline).await {
                Ok(mut s) => match tokio::time::timeout(deadline.saturating_duration_since(Instant::now()), proto::socks5_udp_associate(&mut s)).await {
                    Ok(Ok(mut a)) => {
                        if a.ip().is_unspecified() {
                            // "the address the proxy was reached at", in the family the application uses
                            a.set_ip(app_ip);
                        }
                        entry_addrs.push(a);
                        controls.push(s);
                    }
                    Ok(Err(sh)) => {
                        setup_fail = Some((format!("udp.socks5.associate-failed.{:?}", std::mem::discriminant(&sh)).replace(['(', ')', ' '], ""), format!("UDP ASSOCIATE number {e} failed: {sh:?}"), false));
                        break;
                    }
                    Err(_) => {
                        setup_fail = Some(("udp.hang.socks5-associate".into(), format!("UDP ASSOCIATE number {e} got no answer within {deadline_s} s"), true));
                        break;
                    }
                },
                Err(ConnectFail::ClientExited) => {
                    setup_fail = Some((String::new(), String::new(), false));
                    break;
                }
                Err(ConnectFail::Deadline(m)) => {
                    setup_fail = Some((format!("udp.entry.unreachable.{fam}"), format!("cannot connect to the SOCKS entry point: {m}"), true));
                    break;
                }
            }
        }
    } else {
        for l in &leases {
            match env::wait_udp_bound(l.port, &client_done, deadline).await {
                Ok(()) => entry_addrs.push(SocketAddr::from(([127, 0, 0, 1], l.port))),
                Err(ConnectFail::ClientExited) => {
                    setup_fail = Some((String::new(), String::new(), false));
                    break;
                }
                Err(ConnectFail::Deadline(m)) => {
                    setup_fail = Some((format!("udp.entry.unreachable.{fam}"), format!("the UDP remote never bound its port: {m}"), true));
                    break;
                }
            }
        }
    }

    // ---- local clients
    let mut socks_v: Vec<Arc<UdpSocket>> = Vec::new();
    let mut logs: Vec<Log> = Vec::new();
    let mut leg_results: Vec<Option<LegResult>> = Vec::new();
    if setup_fail.is_none() {
        let mut notes = Vec::new();
        for _ in 0..n_socks {
            let s = match UdpSocket::bind(SocketAddr::new(app_ip, 0)).await {
                Ok(s) => Arc::new(s),
                Err(e) => return machinery(format!("bind local udp client: {e}")),
            };
            let log: Log = Arc::new(Mutex::new(Vec::new()));
            let note = Arc::new(Notify::new());
            tasks.push(tokio::spawn(recv_loop(s.clone(), log.clone(), note.clone(), None)));
            socks_v.push(s);
            logs.push(log);
            notes.push(note);
        }
        // the host string put into a domain-typed header: the name of 127.0.0.1, resp. the literal
        // of the second loopback address (no name resolves to it)
        let targets: Vec<(SocketAddr, Option<String>)> = target_addrs
            .iter()
            .map(|a| {
                let d = if case.kind != UKind::SocksDomain {
                    None
                } else if a.ip() == IpAddr::from([127, 0, 0, 1]) {
                    Some(envr.domain.clone())
                } else {
                    Some(a.ip().to_string())
                };
                (*a, d)
            })
            .collect();
        let mut handles = Vec::new();
        // (one task plays the whole history of the one-pruned-then-newcomer scenario)
        let whole = (case.topo == Topo::PruneThenNewcomer).then(|| {
            let ios: Vec<LegIo> = legs.iter().map(|(si, ei)| LegIo { sock: socks_v[*si].clone(), log: logs[*si].clone(), note: notes[*si].clone(), socks, entry: entry_addrs[*ei] }).collect();
            tokio::spawn(run_prune_newcomer(case.clone(), ios, targets[0].clone(), short_waits))
        });
        for (l, (si, ei)) in legs.iter().enumerate() {
            if whole.is_some() {
                break;
            }
            if case.topo == Topo::Steady {
                handles.push(tokio::spawn(run_steady(case.clone(), socks_v[*si].clone(), logs[*si].clone(), notes[*si].clone(), entry_addrs[*ei], targets[0].clone(), tsocks[0].clone(), tlogs[0].clone(), short_waits)));
                continue;
            }
            let stray_ctx = case.topo.has_control().then(|| StrayCtx { proxy: SocketAddr::from(([127, 0, 0, 1], leases[0].port)), client_done: client_done.clone(), deadline });
            if let (true, Some(ctx)) = (case.topo.unsendable().is_some(), stray_ctx.clone()) {
                handles.push(tokio::spawn(run_unsendable(case.clone(), socks_v[*si].clone(), logs[*si].clone(), notes[*si].clone(), entry_addrs[*ei], targets.clone(), short_waits, events.clone(), ctx)));
                continue;
            }
            handles.push(tokio::spawn(run_leg(l, case.clone(), socks_v[*si].clone(), logs[*si].clone(), notes[*si].clone(), entry_addrs[*ei], targets.clone(), short_waits, tlogs.clone(), stray_ctx)));
        }
        for h in handles {
            leg_results.push(h.await.ok());
        }
        if let Some(h) = whole {
            match h.await {
                Ok(v) => leg_results.extend(v.into_iter().map(Some)),
                Err(_) => leg_results.extend(legs.iter().map(|_| None)),
            }
        }
        // stragglers (duplicates, misrouted copies) get a moment to arrive
        tokio::time::sleep(Duration::from_millis(40)).await;
    }

    // ---- subject status
    let mut port_race = false;
    let mut subject_note = String::new();
    if let Some(ex) = tunnel.client_exit().await {
        if ex.addr_in_use {
            port_race = true;
        }
        subject_note = format!(" [subject: {}]", ex.text);
        failures.push(Failure {
            key: if ex.panicked { "subject.client-panicked".into() } else { "subject.client-exited".into() },
            desc: format!("{lab}: the penguin client ended while UDP clients were being served: {}", ex.text),
            deadline: false,
        });
    }
    if tunnel.server_finished() {
        failures.push(Failure { key: "subject.server-exited".into(), desc: format!("{lab}: run_listener ended"), deadline: false });
    }
    for t in &tasks {
        t.abort();
    }
    tunnel.stop();
    drop(controls);
    let local_addrs: Vec<SocketAddr> = socks_v.iter().map(|s| s.local_addr().expect("local addr")).collect();

    // (the keys of the dual-stack-listener topologies end in the topology: what fails there only is told apart)
    let mut push = |key: String, desc: String, dl: bool| failures.push(Failure { key: if key == "machinery" { key } else { format!("{key}{key_sfx}") }, desc: format!("{lab}: {desc}{subject_note}"), deadline: dl });
    if let Some((k, d, dl)) = setup_fail {
        if !k.is_empty() {
            push(k, d, dl);
        }
        let mut keys: Vec<String> = failures.iter().map(|f| f.key.clone()).collect();
        keys.sort();
        keys.dedup();
        return UdpOutcome { obs: json!({"failure_keys": keys, "completed": []}), failures, port_race, stats, wall: t0.elapsed() };
    }

    // ---- oracle: the targets' logs
    let all_lq: Vec<(usize, usize)> = (0..legs.len()).flat_map(|l| (0..case.exchanges_of(l)).map(move |q| (l, q))).collect();
    let tl: Vec<(SocketAddr, Vec<u8>)> = tlogs.iter().flat_map(|l| lk(l).clone()).collect();
    let mut sources = HashSet::new();
    for (k, tlog) in tlogs.iter().enumerate() {
        let log_k = lk(tlog).clone();
        for (src, data) in &log_k {
            stats.requests_at_target += 1;
            sources.insert(*src);
            let for_here = all_lq.iter().any(|(l, q)| case.target_idx(*l, *q) == k && request(case.len_at(*q), *l, *q) == *data);
            if for_here {
                continue;
            }
            if case.topo.has_control() && (0..8).any(|tag| *data == request(STRAY_LEN, CONTROL_LEG, tag)) {
                // the control exchange (a fresh association) of a stray-datagram / two-address-families scenario
                continue;
            }
            if let Some((l, q)) = all_lq.iter().find(|(l, q)| request(case.len_at(*q), *l, *q) == *data) {
                let to = case.target_idx(*l, *q);
                push(
                    format!("udp.request.misdirected.{fam}"),
                    format!(
                        "target {k} ({}) received the datagram of exchange {q} of leg {l} ({} bytes), which the client addressed to target {to} ({}): same flow, {}",
                        target_addrs[k],
                        data.len(),
                        target_addrs[to],
                        match case.topo {
                            Topo::TwoPorts | Topo::UnsendControl => "same host string, other port",
                            Topo::TwoFamilies | Topo::TwoFamilies6 => "other address family",
                            _ => "other host string, same port",
                        }
                    ),
                    false,
                );
            } else {
                push(
                    format!("udp.request.corrupt.{fam}.{}", len_class(case.size)),
                    format!("target {k} received a datagram of {} bytes ({}) that no local client sent (payloads sent have {} bytes)", data.len(), vcommon::report::hex(&data[..data.len().min(24)]), case.size),
                    false,
                );
            }
        }
        // payloads that carry no exchange number (empty ones): at least count
        if n_targets == 2 {
            let addressed: u64 = leg_results.iter().flatten().map(|r| r.sent_to[k]).sum();
            // (the datagrams of control exchanges, which fresh associations sent, are not the legs')
            let n_control = if case.topo.has_control() { log_k.iter().filter(|(_, d)| (0..8).any(|tag| *d == request(STRAY_LEN, CONTROL_LEG, tag))).count() } else { 0 };
            if (log_k.len() - n_control) as u64 > addressed {
                push(
                    format!("udp.request.misdirected.{fam}"),
                    format!("target {k} ({}) received {} datagrams but only {addressed} were addressed to it (the other target, {}, received {})", target_addrs[k], log_k.len(), target_addrs[1 - k], lk(&tlogs[1 - k]).len()),
                    false,
                );
            }
        }
    }
    stats.target_sources = sources.len() as u64;

    // ---- oracle: what every local socket received
    let mut completed: Vec<usize> = Vec::new();
    let mut recv_per_leg = vec![0u64; legs.len()];
    let mut wrong_answers = 0usize;
    for (si, log) in logs.iter().enumerate() {
        let entries_of_socket: Vec<(usize, usize)> = legs.iter().enumerate().filter(|(_, (s, _))| *s == si).map(|(l, (_, e))| (l, *e)).collect();
        for (src, raw) in lk(log).iter() {
            let Some((leg, _)) = entries_of_socket.iter().find(|(_, e)| entry_addrs[*e] == *src) else {
                let whose = if entry_addrs.contains(src) { "an entry point this client never sent to" } else if target_addrs.contains(src) { "the target itself" } else { "an unknown address" };
                push(
                    format!("udp.reply.wrong-source.{fam}"),
                    format!("local client {si} ({}) received a datagram from {src} ({whose}); it only ever sent to {:?}", local_addrs[si], entries_of_socket.iter().map(|(_, e)| entry_addrs[*e]).collect::<Vec<_>>()),
                    false,
                );
                continue;
            };
            recv_per_leg[*leg] += 1;
            let payload: &[u8] = if socks {
                match proto::parse_udp_header(raw) {
                    Err(m) => {
                        let class = if m.starts_with("ATYP") {
                            "atyp"
                        } else if m.starts_with("RSV") {
                            "rsv"
                        } else {
                            "truncated"
                        };
                        push(
                            format!("udp.socks5.header-malformed.{class}"),
                            format!("a reply relayed to local client {si} does not start with an RFC 1928 UDP header: {m}; datagram {} (payload expected {} bytes)", vcommon::report::hex(&raw[..raw.len().min(32)]), case.size),
                            false,
                        );
                        continue;
                    }
                    Ok(h) => {
                        stats.socks_headers_parsed += 1;
                        if h.frag != 0 {
                            push("udp.socks5.header-frag".into(), format!("a relayed reply carries FRAG={} although fragmentation was never used", h.frag), false);
                            continue;
                        }
                        if matches!(&h.addr, UdpAddr::Ip(IpAddr::V6(a)) if a.to_ipv4_mapped().is_some()) {
                            stats.socks_header_addr_ipv4_mapped += 1;
                        }
                        match &h.addr {
                            UdpAddr::Ip(ip) if target_addrs.iter().any(|t| *ip == t.ip() && h.port == t.port()) => stats.socks_header_addr_is_target += 1,
                            UdpAddr::Ip(ip) if ip.to_canonical() == local_addrs[si].ip() && h.port == local_addrs[si].port() => stats.socks_header_addr_is_client += 1,
                            _ => stats.socks_header_addr_other += 1,
                        }
                        &raw[h.data_at..]
                    }
                }
            } else {
                raw
            };
            let issued = leg_results[*leg].as_ref().map_or(0, |r| (r.completed + 1).min(case.exchanges_of(*leg)));
            if (0..issued).any(|q| reply_of(&request(case.len_at(q), *leg, q), MASKS[case.target_idx(*leg, q)]) == payload) {
                stats.replies_verified += 1;
                continue;
            }
            if n_targets == 2 && !payload.is_empty() {
                if let Some(q) = (0..issued).find(|q| reply_of(&request(case.len_at(*q), *leg, *q), MASKS[1 - case.target_idx(*leg, *q)]) == payload) {
                    let to = case.target_idx(*leg, q);
                    push(
                        format!("udp.reply.from-wrong-target.{fam}"),
                        format!("local client {si}: exchange {q} was addressed to target {to} ({}) but the reply that came back was produced by target {} ({})", target_addrs[to], 1 - to, target_addrs[1 - to]),
                        false,
                    );
                    continue;
                }
            }
            let other = all_lq.iter().copied().find(|(l, q)| reply_of(&request(case.len_at(*q), *l, *q), MASKS[case.target_idx(*l, *q)]) == payload);
            match other {
                Some((l, q)) if l != *leg => push(
                    format!("udp.reply.misdelivered.{fam}"),
                    format!("local client {si} received, from {src}, the reply to exchange {q} of leg {l} (socket {}, entry {}), which it did not originate", legs[l].0, legs[l].1),
                    false,
                ),
                Some((_, q)) => push(format!("udp.reply.unsolicited.{fam}"), format!("local client {si} received the reply to its exchange {q} before sending the request"), false),
                None => push(
                    format!("udp.reply.corrupt.{fam}.{}", len_class(case.size)),
                    format!(
                        "local client {si} received from {src} a payload of {} bytes ({}) that is the reply to nothing that was sent (replies have {} bytes); raw datagram {}",
                        payload.len(),
                        vcommon::report::hex(&payload[..payload.len().min(24)]),
                        case.size,
                        vcommon::report::hex(&raw[..raw.len().min(32)])
                    ),
                    false,
                ),
            }
        }
    }
    for (l, r) in leg_results.iter().enumerate() {
        let Some(r) = r else {
            push("machinery".into(), format!("leg {l} task failed"), false);
            continue;
        };
        let nx = case.exchanges_of(l);
        stats.retransmissions += r.retrans;
        stats.newcomer_judged += u64::from(r.newcomer_judged);
        stats.newcomer_keepalives_unanswered += r.keepalives_unanswered;
        completed.push(r.completed);
        if recv_per_leg[l] > r.sent {
            push(format!("udp.reply.unsolicited.{fam}"), format!("leg {l} sent {} datagrams but received {} from its entry point", r.sent, recv_per_leg[l]), false);
        }
        stats.duplicates += recv_per_leg[l].saturating_sub(r.completed as u64);
        wrong_answers += r.wrong;
        if let Some(seen) = r.first_tx_after_gap_lost {
            push(
                format!("udp.request.lost-after-idle-gap.{fam}"),
                format!(
                    "the first exchange worked; after {} s of silence (UDP_PRUNE_TIMEOUT is {} s: between one and two prune timeouts) the same local socket sent the next request to the same entry point: that datagram was not at the target {GAP_FIRST_TX_MS} ms later (the target had received {seen} datagram(s) by then, all of the first exchange); {}",
                    prune_timeout().as_secs() + GAP_EXTRA_S,
                    prune_timeout().as_secs(),
                    if r.completed == nx { format!("only a retransmission got through ({} retransmission(s) in this scenario)", r.retrans) } else { "the retransmissions got no reply either".to_string() }
                ),
                true,
            );
        }
        for d in &r.family_lost {
            push(FAMILY_KEY.into(), d.clone(), false);
        }
        for (k, d) in &r.unsendable {
            push(k.clone(), d.clone(), true);
        }
        stats.unsendable_judged += u64::from(r.unsendable_judged);
        stats.unsendable_answer_late += u64::from(r.unsendable_late);
        if r.completed < nx && !r.cut_short {
            if let Some((k, d, dl)) = &r.missing {
                push(k.clone(), format!("{d}; datagrams received by the local client from its entry point: {}", recv_per_leg[l]), *dl);
                continue;
            }
            let at_target = tl.iter().filter(|(_, d)| *d == request(case.len_at(r.completed), l, r.completed)).count();
            push(
                format!("udp.reply.missing.{fam}.{}", len_class(case.size)),
                format!(
                    "leg {l} (socket {}, entry {}): exchange {} of {} bytes got no reply after {} transmissions over {} ms; the target saw that request {at_target} time(s) and answered each; datagrams received on this leg: {}",
                    legs[l].0,
                    legs[l].1,
                    r.completed,
                    case.size,
                    WAITS_MS.len(),
                    if short_waits { WAITS_SHORT_MS } else { WAITS_MS }.iter().sum::<u64>(),
                    recv_per_leg[l]
                ),
                true,
            );
        }
    }
    drop(leases);
    let mut keys: Vec<String> = failures.iter().map(|f| f.key.clone()).collect();
    keys.sort();
    keys.dedup();
    if wrong_answers > 0 && keys.is_empty() {
        // cannot happen: every wrong answer is in a log and the log is judged datagram by datagram
        failures.push(Failure { key: "machinery".into(), desc: format!("{lab}: {wrong_answers} exchange(s) were answered wrongly but the oracle flagged nothing"), deadline: false });
    }
    UdpOutcome { obs: json!({"failure_keys": keys, "completed": completed}), failures, port_race, stats, wall: t0.elapsed() }
}

pub fn self_test() -> Result<(), String> {
    for len in [1usize, 2, 3, 4, 1400] {
        let mut seen = HashSet::new();
        for l in 0..3 {
            for q in 0..EXCHANGES {
                let r = request(len, l, q);
                if r.len() != len {
                    return Err("request length".into());
                }
                if !seen.insert(r.clone()) || !seen.insert(reply_of(&r, MASKS[0])) || !seen.insert(reply_of(&r, MASKS[1])) {
                    return Err(format!("requests/replies of length {len} are not pairwise distinct"));
                }
            }
        }
    }
    Ok(())
}
