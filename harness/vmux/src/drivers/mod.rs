use crate::Args;
use crate::report::Report;

pub mod c09;
pub mod c18;
pub mod c20;

pub fn dispatch(args: &Args) -> Report {
    match args.id.as_str() {
        "C09" => c09::run(args),
        "C18" => c18::run(args),
        "C20" => c20::run(args),
        other => panic!("no driver for {other}"),
    }
}
