//! C16: "Keepalive detects a dead peer in bounded time and never a live one".
//!
//! Every test drives one `Multiplexor` task over an in-memory `WebSocket` whose peer is a
//! script: it reads what the task sends and answers each `Ping` number `k` with a `Pong` after
//! `delay(k)` (or never). The tests run in real time (the workspace does not enable tokio's
//! `test-util`), with intervals of a few hundred milliseconds and margins of >= 100 ms.
//
// SPDX-License-Identifier: Apache-2.0 OR GPL-3.0-or-later

use penguin_mux::config::Options;
use penguin_mux::timing::OptionalDuration;
use penguin_mux::ws::{Message, WebSocket};
use penguin_mux::{Error, Multiplexor, TaskData};
use rand::SeedableRng;
use rand::rngs::SmallRng;
use std::sync::{Arc, Mutex};
use std::task::{Context, Poll};
use std::time::{Duration, Instant};
use tokio::sync::mpsc;

/// The local end of an in-memory WebSocket.
struct ChanWs {
    tx: Option<mpsc::UnboundedSender<Message>>,
    rx: mpsc::UnboundedReceiver<Message>,
}

impl WebSocket for ChanWs {
    fn poll_ready_unpin(&mut self, _cx: &mut Context<'_>) -> Poll<Result<(), Error>> {
        Poll::Ready(if self.tx.is_some() {
            Ok(())
        } else {
            Err(Error::Closed)
        })
    }
    fn start_send_unpin(&mut self, item: Message) -> Result<(), Error> {
        let Some(tx) = &self.tx else {
            return Err(Error::Closed);
        };
        // A peer that has gone away just swallows what we send
        tx.send(item).ok();
        Ok(())
    }
    fn poll_flush_unpin(&mut self, _cx: &mut Context<'_>) -> Poll<Result<(), Error>> {
        Poll::Ready(Ok(()))
    }
    fn poll_close_unpin(&mut self, _cx: &mut Context<'_>) -> Poll<Result<(), Error>> {
        self.tx.take();
        Poll::Ready(Ok(()))
    }
    fn poll_next_unpin(&mut self, cx: &mut Context<'_>) -> Poll<Option<Result<Message, Error>>> {
        self.rx.poll_recv(cx).map(|m| m.map(Ok))
    }
}

/// What the scripted peer saw and what became of the task.
struct Outcome {
    /// `Some((result, when))` if the task exited while we were watching; `when` is relative to
    /// the moment the task was started.
    exit: Option<(Result<(), Error>, Duration)>,
    /// When each `Ping` reached the peer, relative to the moment the task was started.
    pings: Vec<Duration>,
    /// When each `Pong` was handed to the task, relative to the moment the task was started.
    pongs: Vec<Duration>,
}

struct Peer {
    /// Messages to the mux task
    to_mux: mpsc::UnboundedSender<Message>,
    /// Messages from the mux task
    from_mux: mpsc::UnboundedReceiver<Message>,
}

fn ms(n: u64) -> Duration {
    Duration::from_millis(n)
}

fn new_mux(options: Options) -> (Multiplexor<SmallRng>, TaskData<ChanWs, Instant>, Peer) {
    let (to_peer, from_mux) = mpsc::unbounded_channel();
    let (to_mux, from_peer) = mpsc::unbounded_channel();
    let ws = ChanWs {
        tx: Some(to_peer),
        rx: from_peer,
    };
    let (mux, taskdata) =
        Multiplexor::new_detailed::<_, Instant>(ws, options, SmallRng::seed_from_u64(16));
    (mux, taskdata, Peer { to_mux, from_mux })
}

/// Start the task `spawn_delay` after creating the `Multiplexor`, answer `Ping` number `k`
/// after `delay(k)` (`None`: never), and watch the task for `watch`.
async fn run(
    options: Options,
    spawn_delay: Duration,
    delay: impl Fn(usize) -> Option<Duration> + Send + 'static,
    watch: Duration,
) -> Outcome {
    let (mux, taskdata, peer) = new_mux(options);
    tokio::time::sleep(spawn_delay).await;
    let start = Instant::now();
    let mut task = tokio::spawn(taskdata.into_task());
    let pings = Arc::new(Mutex::new(Vec::new()));
    let pongs = Arc::new(Mutex::new(Vec::new()));
    let peer_task = {
        let pings = pings.clone();
        let pongs = pongs.clone();
        let Peer {
            to_mux,
            mut from_mux,
        } = peer;
        tokio::spawn(async move {
            let mut k = 0;
            while let Some(msg) = from_mux.recv().await {
                if msg != Message::Ping {
                    continue;
                }
                pings.lock().unwrap().push(start.elapsed());
                if let Some(d) = delay(k) {
                    let to_mux = to_mux.clone();
                    let pongs = pongs.clone();
                    tokio::spawn(async move {
                        tokio::time::sleep(d).await;
                        pongs.lock().unwrap().push(start.elapsed());
                        to_mux.send(Message::Pong).ok();
                    });
                }
                k += 1;
            }
        })
    };
    let exit = match tokio::time::timeout(watch, &mut task).await {
        Ok(joined) => Some((
            joined.expect("the multiplexor task panicked"),
            start.elapsed(),
        )),
        Err(_) => {
            task.abort();
            None
        }
    };
    peer_task.abort();
    drop(mux);
    let pings = pings.lock().unwrap().clone();
    let pongs = pongs.lock().unwrap().clone();
    Outcome { exit, pings, pongs }
}

fn assert_still_running(outcome: &Outcome, what: &str) {
    if let Some((result, when)) = &outcome.exit {
        panic!(
            "{what}: the task exited with {result:?} after {when:?}\n  pings reached the peer at {:?}\n  pongs were delivered at   {:?}",
            outcome.pings, outcome.pongs
        );
    }
}

// ---------------------------------------------------------------------------------------------
// Controls: these pass on the unmodified tree and show that the harness itself is sound.
// ---------------------------------------------------------------------------------------------

/// Interval first, timeout second, peer answers at once: no timeout.
#[tokio::test]
async fn control_live_peer_is_not_timed_out() {
    let options = Options::new()
        .keepalive_interval(ms(200).into())
        .keepalive_timeout(ms(300).into());
    let outcome = run(options, ms(0), |_| Some(ms(0)), ms(1500)).await;
    assert_still_running(&outcome, "control");
    assert!(outcome.pings.len() >= 6, "pings: {:?}", outcome.pings);
}

/// Interval first, timeout second, peer never answers: timeout within [T, T + I].
#[tokio::test]
async fn control_dead_peer_is_timed_out() {
    let options = Options::new()
        .keepalive_interval(ms(200).into())
        .keepalive_timeout(ms(300).into());
    let outcome = run(options, ms(0), |_| None, ms(1500)).await;
    let (result, when) = outcome.exit.expect("a silent peer must be detected");
    assert!(matches!(result, Err(Error::KeepaliveTimeout)), "{result:?}");
    assert!(when >= ms(300) && when <= ms(500 + 150), "{when:?}");
}

/// Answered at once for three rounds, then silent, with T > I and with T = I: the timeout
/// comes no earlier than T and no later than T + I after the last `Pong`.
/// (On the unmodified tree the T = I half can fail early because of finding 6.)
#[tokio::test]
async fn control_peer_that_goes_silent_is_timed_out_within_bounds() {
    for (interval, timeout) in [(200, 500), (200, 200)] {
        let options = Options::new()
            .keepalive_interval(ms(interval).into())
            .keepalive_timeout(ms(timeout).into());
        let delay = |k: usize| (k < 3).then_some(ms(0));
        let outcome = run(options, ms(0), delay, ms(3000)).await;
        let (result, when) = outcome.exit.expect("a silent peer must be detected");
        assert!(matches!(result, Err(Error::KeepaliveTimeout)), "{result:?}");
        assert_eq!(outcome.pongs.len(), 3);
        let since_last_pong = when - *outcome.pongs.last().unwrap();
        assert!(
            since_last_pong >= ms(timeout) && since_last_pong <= ms(timeout + interval + 100),
            "I = {interval} ms, T = {timeout} ms: timed out {since_last_pong:?} after the last pong"
        );
    }
}

// ---------------------------------------------------------------------------------------------
// Finding 1: the clamp `T >= I` (and the timeout itself) depends on the order of the setters.
// ---------------------------------------------------------------------------------------------

/// `keepalive_timeout(T)` before `keepalive_interval(I)`, with a perfectly legal T >= I.
/// The setter computes `max(T, interval)` while the interval is still "none", and "none"
/// orders above every finite duration, so the timeout silently becomes "never".
/// A peer that never answers must be detected no later than T + I = 500 ms after start-up.
#[tokio::test]
async fn f1a_timeout_set_before_interval_is_lost() {
    let options = Options::new()
        .keepalive_timeout(ms(300).into())
        .keepalive_interval(ms(200).into());
    let outcome = run(options, ms(0), |_| None, ms(2000)).await;
    assert!(
        outcome.pings.len() >= 2,
        "keepalive is enabled, pings are sent: {:?}",
        outcome.pings
    );
    let Some((result, when)) = outcome.exit else {
        panic!(
            "I = 200 ms, T = 300 ms, the peer never sent a single Pong, and after 2 s \
             (4 x (T + I)) the task is still running; pings reached the peer at {:?}",
            outcome.pings
        );
    };
    assert!(matches!(result, Err(Error::KeepaliveTimeout)), "{result:?}");
    assert!(when >= ms(300) && when <= ms(500 + 150), "{when:?}");
}

/// Changing the interval after the timeout was set leaves T < I unclamped. With I = 400 ms
/// and T = 150 ms the task declares a peer dead that answers every `Ping` at once: at the
/// second tick the last `Pong` is I = 400 ms > T old.
#[tokio::test]
async fn f1b_interval_raised_after_timeout_is_not_clamped() {
    let options = Options::new()
        .keepalive_interval(ms(100).into())
        .keepalive_timeout(ms(150).into())
        .keepalive_interval(ms(400).into());
    let outcome = run(options, ms(0), |_| Some(ms(0)), ms(1500)).await;
    assert_still_running(
        &outcome,
        "I = 400 ms, T = 150 ms (must be clamped to 400 ms), every ping answered at once",
    );
}

// ---------------------------------------------------------------------------------------------
// Finding 2: every ping answered within T, but the task times out.
// ---------------------------------------------------------------------------------------------

/// I = 400 ms, T = 1000 ms. The first ping is answered at once, every later one after 900 ms,
/// which is within T. The pongs are delivered at 0, 1300, 1700, ... ms. At the tick at 1200 ms
/// the oldest unanswered ping (sent at 400 ms) is only 800 ms old, but the last pong is
/// 1200 ms > T old, and the task declares the peer dead.
#[tokio::test]
async fn f2_round_trip_time_rising_within_timeout() {
    let options = Options::new()
        .keepalive_interval(ms(400).into())
        .keepalive_timeout(ms(1000).into());
    let delay = |k: usize| Some(if k == 0 { ms(0) } else { ms(900) });
    let outcome = run(options, ms(0), delay, ms(3000)).await;
    assert_still_running(
        &outcome,
        "I = 400 ms, T = 1000 ms, ping 0 answered at once, every other ping after 900 ms < T",
    );
}

// ---------------------------------------------------------------------------------------------
// Finding 3: `OptionalDuration::from_secs(0)` is not "disabled" and kills the task.
// ---------------------------------------------------------------------------------------------

/// "0" means "disabled" for `OptionalDuration::from(Duration)` and for `str::parse`, but
/// `OptionalDuration::from_secs(0)` is a finite zero duration, and the task hands it to
/// `tokio::time::interval`, which panics.
#[tokio::test]
async fn f3_zero_seconds_is_not_disabled() {
    assert_eq!(
        OptionalDuration::from(Duration::from_secs(0)),
        OptionalDuration::NONE
    );
    assert_eq!(
        "0".parse::<OptionalDuration>().unwrap(),
        OptionalDuration::NONE
    );
    let options = Options::new().keepalive_interval(OptionalDuration::from_secs(0));
    let (_mux, taskdata, mut peer) = new_mux(options);
    let mut task = tokio::spawn(taskdata.into_task());
    match tokio::time::timeout(ms(500), &mut task).await {
        // Still running: keepalive is disabled
        Err(_) => task.abort(),
        Ok(r) => panic!("keepalive disabled with `from_secs(0)`, but the task ended: {r:?}"),
    }
    assert!(
        peer.from_mux.try_recv().is_err(),
        "no ping with keepalive disabled"
    );
}

// ---------------------------------------------------------------------------------------------
// Finding 4: the reference point "start-up" is the constructor, not the start of the task.
// ---------------------------------------------------------------------------------------------

/// `new_detailed` hands out the task as a future for the caller to spawn. If it is spawned
/// more than T after `new_detailed` returned, the very first tick finds a "last pong" older
/// than T and ends the connection before a single `Ping` was sent.
#[tokio::test]
async fn f4_task_started_late_times_out_at_once() {
    let options = Options::new()
        .keepalive_interval(ms(200).into())
        .keepalive_timeout(ms(300).into());
    let outcome = run(options, ms(600), |_| Some(ms(0)), ms(1500)).await;
    assert_still_running(
        &outcome,
        "I = 200 ms, T = 300 ms, task spawned 600 ms after `new_detailed`, peer answers at once",
    );
}

// ---------------------------------------------------------------------------------------------
// Finding 5: the task stops reading (and so misses the pongs) while the accept queue is full.
// ---------------------------------------------------------------------------------------------

/// The peer opens more streams than `stream_buffer_size` while the application is busy and
/// does not call `accept_stream_channel` for longer than T. The task blocks on the accept
/// queue inside its receive loop, the `Pong`s (all sent at once) stay unread in the transport,
/// and the ping loop declares the live peer dead.
#[tokio::test]
async fn f5_full_accept_queue_hides_the_pongs() {
    use penguin_mux::frame::Frame;
    let options = Options::new()
        .stream_buffer_size(1)
        .keepalive_interval(ms(200).into())
        .keepalive_timeout(ms(300).into());
    let (mux, taskdata, peer) = new_mux(options);
    let Peer {
        to_mux,
        mut from_mux,
    } = peer;
    // Two `Connect`s: the first fills the accept queue, the second blocks the task
    to_mux
        .send(Frame::new_connect(b"a", 1, 0x11, 8).into())
        .unwrap();
    to_mux
        .send(Frame::new_connect(b"b", 2, 0x22, 8).into())
        .unwrap();
    let start = Instant::now();
    let mut task = tokio::spawn(taskdata.into_task());
    let peer_task = tokio::spawn(async move {
        while let Some(msg) = from_mux.recv().await {
            if msg == Message::Ping {
                to_mux.send(Message::Pong).ok();
            }
        }
    });
    // The application is busy for 1 s, then accepts everything
    let exit = tokio::time::timeout(ms(1000), &mut task).await;
    if let Ok(r) = exit {
        panic!(
            "every ping was answered at once, but the task ended with {r:?} after {:?}",
            start.elapsed()
        );
    }
    let s1 = mux.accept_stream_channel().await.unwrap();
    let s2 = mux.accept_stream_channel().await.unwrap();
    drop((s1, s2));
    task.abort();
    peer_task.abort();
}

// ---------------------------------------------------------------------------------------------
// Finding 6: T = I (which is also what every T < I is clamped to) times out live peers.
// ---------------------------------------------------------------------------------------------

/// With T = I the check at tick `k + 1` compares `I + (lateness of tick k + 1) - (lateness of
/// tick k) - (round trip time)` with `T = I`: the live peer is declared dead as soon as one
/// tick is later than its predecessor by more than the round trip time. Timer wake-ups are
/// routinely late by a millisecond or so; here the round trip takes a few microseconds.
#[tokio::test]
async fn f6_timeout_equal_to_interval_kills_a_live_peer() {
    let options = Options::new()
        .keepalive_interval(ms(50).into())
        // Lower than the interval: clamped to 50 ms
        .keepalive_timeout(ms(20).into());
    let outcome = run(options, ms(0), |_| Some(ms(0)), ms(5000)).await;
    assert_still_running(
        &outcome,
        "I = 50 ms, T = 20 ms (clamped to 50 ms), every ping answered at once",
    );
}
