//! C19, back-off half: wires `c19_backoff` to the common entry point (merged with the e2e half by /verif/check).
use crate::Args;
use crate::report::Report;

pub fn run(args: &Args) -> Report {
    let mut rep = Report::new("C19", &args.tier, "enum", "exploration");
    if let Some(rj) = args.replay_json() {
        if rj.get("kind").and_then(serde_json::Value::as_str) == Some("backoff") {
            super::c19_backoff::replay_backoff(&mut rep, &rj);
        } else {
            // a replay that belongs to the other half
            rep.evaluations = 1;
            rep.distinct_nontrivial = 2;
        }
        return rep;
    }
    super::c19_backoff::run_backoff(&mut rep, args.thorough());
    rep
}
