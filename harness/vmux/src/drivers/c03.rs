//! C03 — credit-based flow control is never violated between conforming endpoints.

use super::common::{Case, Plan, run_cases};
use super::xfer::{self, Oracles, StreamSpec, XferCfg};
use crate::Args;
use crate::apps::{EndPlan, Op};
use crate::report::Report;
use std::time::Duration;

fn scripts(n: usize, thorough: bool) -> Vec<(&'static str, Vec<StreamSpec>)> {
    #[allow(unused_mut)]
    let mut v = vec![
        (
            "bursts both ways, slow concurrent readers",
            vec![StreamSpec {
                tag: 1,
                opener: 0,
                opener_plan: EndPlan::Split(vec![Op::Burst(n, 1), Op::Shutdown], vec![Op::ReadToEof(1)]),
                acceptor_plan: EndPlan::Split(vec![Op::Burst(n, 1), Op::Shutdown], vec![Op::ReadToEof(1)]),
            }],
        ),
        (
            "writer blocks first: acceptor reads only after writing its own burst of window size",
            vec![StreamSpec {
                tag: 1,
                opener: 0,
                opener_plan: EndPlan::Split(vec![Op::Burst(n, 1), Op::Shutdown], vec![Op::ReadToEof(1)]),
                acceptor_plan: EndPlan::Seq(vec![Op::W(1), Op::ReadToEof(1), Op::Burst(2, 1), Op::Shutdown]),
            }],
        ),
    ];
    // zero-length writes in between: they must neither transmit nor take credit
    let mut mixed = Vec::new();
    for i in 0..n {
        mixed.push(Op::W(1));
        if i % 2 == 0 {
            mixed.push(Op::W(0));
        } else {
            mixed.push(Op::WV(vec![0, 0]));
        }
    }
    mixed.push(Op::Shutdown);
    v.push((
        "burst interleaved with zero-length writes",
        vec![StreamSpec {
            tag: 1,
            opener: 0,
            opener_plan: EndPlan::Split(mixed.clone(), vec![Op::ReadToEof(1)]),
            acceptor_plan: EndPlan::Split(vec![Op::W(0), Op::W(1), Op::WV(vec![]), Op::Shutdown], vec![Op::ReadToEof(1)]),
        }],
    ));
    if thorough {
        v.push((
            "two streams sharing the connection, vectored writes",
            vec![
                StreamSpec {
                    tag: 1,
                    opener: 0,
                    opener_plan: EndPlan::Split(vec![Op::Burst(n, 1), Op::Shutdown], vec![Op::ReadToEof(1)]),
                    acceptor_plan: EndPlan::Split(vec![Op::WV(vec![1, 0]), Op::WV(vec![0, 1]), Op::Shutdown], vec![Op::ReadToEof(1)]),
                },
                StreamSpec {
                    tag: 2,
                    opener: 1,
                    opener_plan: EndPlan::Split(vec![Op::Burst(n, 1), Op::Shutdown], vec![Op::ReadToEof(1)]),
                    acceptor_plan: EndPlan::Seq(vec![Op::ReadToEof(1), Op::W(1), Op::Shutdown]),
                },
            ],
        ));
    }
    v
}

pub fn run(args: &Args) -> Report {
    let mut rep = Report::new("C03", &args.tier, "psim", "model_checking");
    let thorough = args.thorough();
    let or = Oracles { integrity: true, credit: true, progress: false, allow_pending_prefixes: &[] };
    let mut cfgs: Vec<((u32, u32), (u32, u32))> = Vec::new();
    if thorough {
        for ra in 1..=3u32 {
            for ta in 1..=4u32 {
                for rb in 1..=3u32 {
                    for tb in 1..=4u32 {
                        cfgs.push(((ra, ta), (rb, tb)));
                    }
                }
            }
        }
    } else {
        let one = [(1u32, 1u32), (2, 1), (3, 2), (3, 3), (1, 3)];
        for a in one {
            for b in one {
                cfgs.push((a, b));
            }
        }
    }
    let mut cases = Vec::new();
    // frames larger than the reads that take them: a frame consumed in pieces is acknowledged once
    for &(a, b) in cfgs.iter().filter(|(a, b)| thorough || a.0 + b.0 <= 4) {
        let n = 2 * a.0.max(b.0) as usize + 2;
        let streams = vec![StreamSpec {
            tag: 1,
            opener: 0,
            opener_plan: EndPlan::Split(vec![Op::Burst(n, 3), Op::Shutdown], vec![Op::ReadToEof(1)]),
            acceptor_plan: EndPlan::Split(vec![Op::Burst(n, 2), Op::Shutdown], vec![Op::ReadToEof(2)]),
        }];
        let cfg = XferCfg { a, b, cap: 0, streams, stream_buffer: 4, one_byte_frames: false, dgram_pingpong: 0, dgram_buffer: 4, drop_mux_when_writers_done: None, extra: xfer::XferExtra::NONE, horizon: 8000 };
        let label = format!("multi-byte frames read in pieces | {}", cfg.describe());
        cases.push(Case { try_unbounded: false, max_k: u32::MAX, label, exec: Box::new(move |r| xfer::exec(&cfg, &or, r)) });
    }
    for (a, b) in cfgs {
        let n = 2 * a.0.max(b.0) as usize + 2;
        for cap in if thorough { vec![0usize, 1] } else { vec![0usize] } {
            for (name, streams) in scripts(n, thorough) {
                let cfg = XferCfg { a, b, cap, streams, stream_buffer: 4, one_byte_frames: true, dgram_pingpong: 0, dgram_buffer: 4, drop_mux_when_writers_done: None, extra: xfer::XferExtra::NONE, horizon: 6000 };
                let label = format!("{name} | {}", cfg.describe());
                cases.push(Case { try_unbounded: false, max_k: u32::MAX, label, exec: Box::new(move |r| xfer::exec(&cfg, &or, r)) });
            }
        }
    }
    // windows at and around the limits of the 32-bit field (the options API accepts every positive u32): the handshake
    // carries them unabridged, the credit arithmetic neither wraps nor truncates, and a window of one still works
    // against them
    {
        const M: u32 = u32::MAX;
        let big = [(M, M), (65_536, 65_535), (M, 1), (0x8000_0000, 0x7fff_ffff), (70_000, 3)];
        let small = [(1u32, 1u32), (2, M)];
        let mut pairs: Vec<((u32, u32), (u32, u32))> = Vec::new();
        for &x in &big {
            for &y in &small {
                pairs.push((x, y));
                pairs.push((y, x));
            }
        }
        pairs.push(((M, M), (M, M)));
        pairs.push(((65_536, 65_535), (0x8000_0000, 0x7fff_ffff)));
        for (a, b) in pairs {
            let streams = vec![StreamSpec {
                tag: 1,
                opener: 0,
                opener_plan: EndPlan::Split(vec![Op::Burst(5, 2), Op::Shutdown], vec![Op::ReadToEof(1)]),
                acceptor_plan: EndPlan::Split(vec![Op::Burst(5, 1), Op::Shutdown], vec![Op::ReadToEof(3)]),
            }];
            let cfg = XferCfg { a, b, cap: 0, streams, stream_buffer: 4, one_byte_frames: false, dgram_pingpong: 0, dgram_buffer: 4, drop_mux_when_writers_done: None, extra: xfer::XferExtra::NONE, horizon: 8000 };
            let label = format!("windows at the limits of the 32-bit field | {}", cfg.describe());
            cases.push(Case { try_unbounded: false, max_k: 1, label, exec: Box::new(move |r| xfer::exec(&cfg, &or, r)) });
        }
    }
    // single writes, plain and vectored, longer than one frame may carry (512 KiB): each successful call, short or not,
    // is one frame and one unit of credit
    for (a, b) in [((2u32, 1u32), (1u32, 1u32)), ((3, 3), (2, 1))] {
        let streams = vec![StreamSpec {
            tag: 1,
            opener: 0,
            opener_plan: EndPlan::Split(vec![Op::WV(vec![300_000, 300_000, 300_000]), Op::W(700_000), Op::WV(vec![0, 524_288, 1]), Op::W(1), Op::Shutdown], vec![Op::ReadToEof(65_536)]),
            acceptor_plan: EndPlan::Split(vec![Op::W(524_289), Op::WV(vec![524_287, 0, 2, 5]), Op::Shutdown], vec![Op::ReadToEof(100_000)]),
        }];
        let cfg = XferCfg { a, b, cap: 0, streams, stream_buffer: 4, one_byte_frames: false, dgram_pingpong: 0, dgram_buffer: 4, drop_mux_when_writers_done: None, extra: xfer::XferExtra::NONE, horizon: 8000 };
        let label = format!("single plain and vectored writes longer than a frame | {}", cfg.describe());
        cases.push(Case { try_unbounded: false, max_k: 1, label, exec: Box::new(move |r| xfer::exec(&cfg, &or, r)) });
    }
    // a bridged end (MuxStream::into_copy_bidirectional, the path the penguin binaries use) whose local side has far more
    // than one frame's worth of data ready at once: still one unit of credit per frame on the wire
    for (a, b) in [((2u32, 1u32), (1u32, 1u32)), ((1, 1), (3, 2))] {
        let streams = vec![StreamSpec {
            tag: 1,
            opener: 0,
            opener_plan: EndPlan::Bridged(262_144, vec![Op::W(150_000), Op::Shutdown, Op::ReadToEof(4096)]),
            acceptor_plan: EndPlan::Seq(vec![Op::ReadToEof(65_536), Op::W(2), Op::Shutdown]),
        }];
        let cfg = XferCfg { a, b, cap: 0, streams, stream_buffer: 4, one_byte_frames: false, dgram_pingpong: 0, dgram_buffer: 4, drop_mux_when_writers_done: None, extra: xfer::XferExtra::NONE, horizon: 8000 };
        let label = format!("bridged end with 150 kB ready at once | {}", cfg.describe());
        cases.push(Case { try_unbounded: false, max_k: 1, label, exec: Box::new(move |r| xfer::exec(&cfg, &or, r)) });
    }
    // the same with 1.4 MB ready at once, read through a buffer of 12 345 octets: the bridge's frames then exceed the size
    // a plain write may have by up to one buffer (it stops coalescing once the limit is reached); still one frame = one
    // unit of credit = one acknowledged frame at the receiver, whose window is small and whose reader is slow
    for (a, b) in [((2u32, 1u32), (2u32, 2u32)), ((1, 1), (3, 2))] {
        let streams = vec![StreamSpec {
            tag: 1,
            opener: 0,
            opener_plan: EndPlan::Bridged(1_500_000, vec![Op::W(1_400_000), Op::Shutdown, Op::ReadToEof(4096)]),
            acceptor_plan: EndPlan::Seq(vec![Op::ReadToEof(300_000), Op::W(2), Op::Shutdown]),
        }];
        let cfg = XferCfg { a, b, cap: 0, streams, stream_buffer: 4, one_byte_frames: false, dgram_pingpong: 0, dgram_buffer: 4, drop_mux_when_writers_done: None, extra: xfer::XferExtra::NONE, horizon: 8000 };
        let label = format!("bridged end with 1.4 MB ready at once, read through a buffer of 12 345 octets | {}", cfg.describe());
        cases.push(Case { try_unbounded: false, max_k: 1, label, exec: Box::new(move |r| xfer::exec(&cfg, &or, r)) });
    }
    // the smallest drivers: every interleaving modulo commutation of the two endpoints' steps (sleep sets)
    for (a, b) in if thorough { vec![((1u32, 1u32), (1u32, 1u32)), ((2, 2), (1, 1)), ((1, 2), (2, 1))] } else { vec![((1u32, 1u32), (1u32, 1u32)), ((2, 2), (1, 1))] } {
        let streams = vec![StreamSpec {
            tag: 1,
            opener: 0,
            opener_plan: EndPlan::Seq(vec![Op::Burst(3, 1), Op::Shutdown, Op::ReadToEof(1)]),
            acceptor_plan: EndPlan::Seq(vec![Op::ReadToEof(1), Op::W(1), Op::Shutdown]),
        }];
        let cfg = XferCfg { a, b, cap: 0, streams, stream_buffer: 4, one_byte_frames: true, dgram_pingpong: 0, dgram_buffer: 4, drop_mux_when_writers_done: None, extra: xfer::XferExtra::NONE, horizon: 4000 };
        let label = format!("tiny, all interleavings | {}", cfg.describe());
        cases.push(Case { try_unbounded: true, max_k: 2, label, exec: Box::new(move |r| xfer::exec(&cfg, &or, r)) });
    }
    let plan = Plan {
        ks: if thorough { vec![0, 1, 2, 3] } else { vec![0, 1, 2] },
        env: 0,
        fault: 0,
        total_wall: Duration::from_secs(if thorough { 900 } else { 100 }),
        max_execs_per_case: if thorough { 2_000_000 } else { 150_000 },
        required_witnesses: xfer::W_CREDIT_ZERO | xfer::W_ACK_SENT | xfer::W_ALL_DONE,
        adaptive: thorough,
        witness_names: super::c02::WITNESS_NAMES,
    };
    rep.rule = "psim as C02, with one-byte writes in bursts of 2*max(rwnd)+2 per direction; after EVERY step: (black box, reference-decoded wire) Push frames sent by X <= window advertised by Y + credit of Acknowledge frames delivered to X; credit acknowledged by Y <= Push frames that reached Y and <= bytes Y's application consumed; handshake values equal the configured rwnd; no Reset from a side whose application still holds the stream; (white box, flow-table hook) credit_X == window_Y - successful writes_X + credit processed by X, inbound queue <= own window".into();
    rep.assumptions = vec![
        "one poll of a task is one atomic step; races of individual atomic operations are C12 (loom)".into(),
        "thresholds above the own window (accepted by the options API) stall rather than violate credit; the stall is C04's subject, such executions are still checked for safety here".into(),
    ];
    run_cases(args, &mut rep, cases, &plan);
    rep
}
