//! C11 hunt: a burst of datagrams that is larger than what the link can carry
//! right away (a) gets the connection terminated by the keepalive and (b) holds
//! up the stream traffic of the same endpoint for as long as the backlog lasts.
//!
//! Both endpoints are real `Multiplexor`s over real `tungstenite` WebSockets. The
//! only unusual part is the link: a relay between the two ends forwards the bytes of
//! the A -> B direction at about 1 MB/s (every real link has *some* finite rate).
//
// SPDX-License-Identifier: Apache-2.0 OR GPL-3.0-or-later

use bytes::Bytes;
use penguin_mux::config::Options;
use penguin_mux::{Datagram, Multiplexor};
use std::sync::Arc;
use std::sync::atomic::{AtomicUsize, Ordering};
use std::time::{Duration, Instant};
use tokio::io::{AsyncRead, AsyncReadExt, AsyncWrite, AsyncWriteExt, DuplexStream};
use tokio::task::JoinSet;
use tokio_tungstenite::{WebSocketStream, tungstenite::protocol::Role};

/// Forward bytes at `CHUNK` bytes per `TICK` (8 KiB / 8 ms, about 1 MB/s)
const CHUNK: usize = 8 * 1024;
const TICK: Duration = Duration::from_millis(8);

async fn throttled_copy(mut r: impl AsyncRead + Unpin, mut w: impl AsyncWrite + Unpin) {
    let mut buf = vec![0u8; CHUNK];
    let mut next = tokio::time::Instant::now();
    loop {
        let n = match r.read(&mut buf).await {
            Ok(0) | Err(_) => break,
            Ok(n) => n,
        };
        if w.write_all(&buf[..n]).await.is_err() {
            break;
        }
        let cost = TICK.mul_f64(n as f64 / CHUNK as f64);
        next = next.max(tokio::time::Instant::now()) + cost;
        tokio::time::sleep_until(next).await;
    }
    w.shutdown().await.ok();
}

/// A <-> B, where the A -> B direction is bandwidth-limited and B -> A is not.
async fn slow_uplink_pair() -> (WebSocketStream<DuplexStream>, WebSocketStream<DuplexStream>) {
    let (a_end, a_relay) = tokio::io::duplex(16 * 1024);
    let (b_relay, b_end) = tokio::io::duplex(16 * 1024);
    let (a_relay_r, mut a_relay_w) = tokio::io::split(a_relay);
    let (mut b_relay_r, b_relay_w) = tokio::io::split(b_relay);
    tokio::spawn(throttled_copy(a_relay_r, b_relay_w));
    tokio::spawn(async move {
        tokio::io::copy(&mut b_relay_r, &mut a_relay_w).await.ok();
        a_relay_w.shutdown().await.ok();
    });
    (
        WebSocketStream::from_raw_socket(a_end, Role::Client, None).await,
        WebSocketStream::from_raw_socket(b_end, Role::Server, None).await,
    )
}

struct Setup {
    a: Multiplexor,
    a_task: JoinSet<penguin_mux::Result<()>>,
    a_stream: penguin_mux::MuxStream,
    /// Number of datagrams the application on B has received so far
    b_datagrams: Arc<AtomicUsize>,
}

/// B echoes whatever arrives on the stream and checks + counts the datagrams.
async fn setup(a_options: Options) -> Setup {
    let (a_ws, b_ws) = slow_uplink_pair().await;
    let mut a_task = JoinSet::new();
    let a = Multiplexor::new_with_opt(a_ws, a_options, Some(&mut a_task));
    let b = Arc::new(Multiplexor::new_with_opt(b_ws, Options::new(), None));
    let (a_stream, b_stream) = tokio::join!(
        a.new_stream_channel(b"stream.example", 80),
        b.accept_stream_channel()
    );
    let (a_stream, mut b_stream) = (a_stream.unwrap(), b_stream.unwrap());
    tokio::spawn(async move {
        let mut buf = [0u8; 64];
        while let Ok(n) = b_stream.read(&mut buf).await {
            if n == 0 || b_stream.write_all(&buf[..n]).await.is_err() {
                break;
            }
        }
    });
    let b_datagrams = Arc::new(AtomicUsize::new(0));
    let counter = b_datagrams.clone();
    tokio::spawn(async move {
        // Keeps `b` alive, reads as fast as the datagrams come: B's buffer never fills
        let mut expected = 0u32;
        while let Ok(d) = b.get_datagram().await {
            assert_eq!(d.flow_id, expected, "datagrams out of order");
            assert_eq!(d.data.len(), DATAGRAM_LEN);
            expected += 1;
            counter.fetch_add(1, Ordering::SeqCst);
        }
    });
    Setup {
        a,
        a_task,
        a_stream,
        b_datagrams,
    }
}

const DATAGRAM_LEN: usize = 32 * 1024;
/// 4 MiB: about four seconds of the link
const BURST: u32 = 128;

async fn burst(a: &Multiplexor) {
    let payload = Bytes::from(vec![0x5a; DATAGRAM_LEN]);
    for i in 0..BURST {
        a.send_datagram(Datagram {
            flow_id: i,
            target_host: Bytes::from_static(b"dns.example"),
            target_port: 53,
            data: payload.clone(),
        })
        .await
        .expect("the datagram is accepted");
    }
}

/// One small write on the stream and its echo
async fn echo(stream: &mut penguin_mux::MuxStream, tag: u8) -> std::io::Result<()> {
    stream.write_all(&[tag; 8]).await?;
    let mut buf = [0u8; 8];
    stream.read_exact(&mut buf).await?;
    assert_eq!(buf, [tag; 8]);
    Ok(())
}

/// (a) "no datagram, whatever its size or rate, terminates the connection"
#[tokio::test(flavor = "multi_thread", worker_threads = 2)]
async fn datagram_burst_does_not_terminate_the_connection() {
    // The `penguin` client runs with keepalive 25 s / timeout 60 s; scaled down here.
    let options = Options::new()
        .keepalive_interval(Duration::from_millis(250).into())
        .keepalive_timeout(Duration::from_millis(750).into());
    let mut s = setup(options).await;
    // The keepalive is happy with this link when it is idle or carries stream data
    tokio::time::sleep(Duration::from_millis(1200)).await;
    echo(&mut s.a_stream, 1).await.expect("healthy before the burst");
    assert!(s.a_task.try_join_next().is_none(), "task runs before the burst");

    burst(&s.a).await;

    // The link is fine and the peer answers everything at once; all that happens is
    // that 4 MiB of accepted datagrams take four seconds to go out. B reads them as they
    // come, so its buffer is never full and every one of them has to arrive.
    let deadline = Instant::now() + Duration::from_secs(30);
    while s.b_datagrams.load(Ordering::SeqCst) < BURST as usize {
        let task = s.a_task.try_join_next();
        assert!(
            task.is_none(),
            "the datagram burst terminated the connection: mux task exited with {task:?} \
             after {}/{BURST} datagrams were delivered",
            s.b_datagrams.load(Ordering::SeqCst)
        );
        assert!(Instant::now() < deadline, "the backlog does not drain");
        tokio::time::sleep(Duration::from_millis(20)).await;
    }
    // A few more keepalive rounds, and the stream of the same connection still works
    tokio::time::sleep(Duration::from_millis(1200)).await;
    let task = s.a_task.try_join_next();
    assert!(task.is_none(), "mux task exited with {task:?}");
    echo(&mut s.a_stream, 2).await.expect("the stream still works after the burst");
}

/// (b) "no datagram, whatever its size or rate, [...] blocks [...] stream traffic"
#[tokio::test(flavor = "multi_thread", worker_threads = 2)]
async fn datagram_backlog_does_not_hold_up_stream_traffic() {
    // No keepalive: nothing kills the connection, so that the delay itself shows
    let mut s = setup(Options::new()).await;
    echo(&mut s.a_stream, 1).await.expect("healthy before the burst");

    burst(&s.a).await;

    let start = Instant::now();
    tokio::time::timeout(Duration::from_secs(30), echo(&mut s.a_stream, 2))
        .await
        .expect("echo in time")
        .expect("the stream still works");
    let waited = start.elapsed();
    let delivered = s.b_datagrams.load(Ordering::SeqCst);
    // If the stream frame had to wait for the whole backlog, B has seen every one of
    // the datagrams before the frame. The wait then grows with the size of the burst
    // without any bound (and a sender that keeps this rate up blocks the stream forever).
    assert!(
        (delivered as u32) < BURST,
        "eight bytes of stream data waited {waited:?} behind the whole backlog of \
         {BURST} datagrams ({delivered} delivered before the stream frame)"
    );
}

/// Finding 2: a datagram sits in the receive buffer while a caller of `get_datagram`
/// waits for it forever. `get_datagram` takes `&self` and the `Multiplexor` is `Sync`,
/// so two tasks may wait for datagrams at the same time; only one of them is ever woken.
#[tokio::test(flavor = "multi_thread", worker_threads = 2)]
async fn every_waiting_get_datagram_gets_a_datagram() {
    let (a_end, b_end) = tokio::io::duplex(4096);
    let a = Multiplexor::new(WebSocketStream::from_raw_socket(a_end, Role::Client, None).await);
    let b = Arc::new(Multiplexor::new(
        WebSocketStream::from_raw_socket(b_end, Role::Server, None).await,
    ));
    let waiters: Vec<_> = (0..2)
        .map(|_| {
            let b = b.clone();
            tokio::spawn(async move { b.get_datagram().await.map(|d| d.flow_id) })
        })
        .collect();
    // Both are parked in `get_datagram` now
    tokio::time::sleep(Duration::from_millis(200)).await;
    for flow_id in [1, 2] {
        a.send_datagram(Datagram {
            flow_id,
            target_host: Bytes::new(),
            target_port: 0,
            data: Bytes::new(),
        })
        .await
        .unwrap();
    }
    let mut got = Vec::new();
    for (i, waiter) in waiters.into_iter().enumerate() {
        match tokio::time::timeout(Duration::from_secs(5), waiter).await {
            Ok(r) => got.push(r.unwrap().unwrap()),
            Err(_) => {
                // It is not lost and the buffer is not full: the next call finds it
                let left_behind = tokio::time::timeout(Duration::from_secs(1), b.get_datagram())
                    .await
                    .map(|d| d.unwrap().flow_id);
                panic!(
                    "waiter {i} is still waiting 5 s after both datagrams arrived \
                     (delivered so far: {got:?}, found in the buffer by a new call: {left_behind:?})"
                );
            }
        }
    }
    got.sort_unstable();
    assert_eq!(got, [1, 2]);
}
