//! C05 — end-of-stream is reported exactly when the peer finished, after all its data.
//! All operation histories up to a length on both ends of one stream x schedules.

use super::common::{Case, Plan, run_cases};
use crate::Args;
use crate::apps::{EndPlan, Ev, Op, SideCfg, World, op_str, opts};
use crate::explore::{Cost, RunOutput, choose_n};
use crate::link::UNBOUNDED_CAP;
use crate::report::Report;
use crate::sim::{Fnv, Step};
use crate::wiremon::WireMon;
use std::collections::BTreeMap;
use std::time::Duration;

const TAG: u8 = 1;
const W_EOF_SEEN: u64 = 1;
const W_BROKEN_PIPE: u64 = 2;
const W_HALF_CLOSE_DATA: u64 = 4;
const W_RESET: u64 = 8;
const W_CONN_END: u64 = 16;

fn alphabet() -> Vec<Op> {
    vec![Op::W(2), Op::W(0), Op::WV(vec![]), Op::WV(vec![0, 0]), Op::WV(vec![1, 0, 1]), Op::Shutdown, Op::ReadToEof(3), Op::ReadOnce(1), Op::Drop]
}

fn histories(max_len: usize) -> Vec<Vec<Op>> {
    let al = alphabet();
    let mut out: Vec<Vec<Op>> = vec![vec![]];
    let mut frontier: Vec<Vec<Op>> = vec![vec![]];
    for _ in 0..max_len {
        let mut next = Vec::new();
        for h in &frontier {
            if h.last() == Some(&Op::Drop) {
                continue;
            }
            for op in &al {
                let mut h2 = h.clone();
                h2.push(op.clone());
                next.push(h2);
            }
        }
        out.extend(next.iter().cloned());
        frontier = next;
    }
    // an explicit trailing Drop is the same as the implicit one
    out.retain(|h| h.last() != Some(&Op::Drop) || h.len() == 1);
    out
}

pub struct Checker {
    pub tag: u8,
    /// the application of this side let go of its Multiplexor: the connection is being closed in an orderly way
    pub conn_end: Option<usize>,
    /// the stream under test is the only one (pending accept/open tasks are its concern too)
    pub solo: bool,
    mon: WireMon,
    seen_events: usize,
    pub violations: Vec<(String, String)>,
    pub witnesses: u64,
    pub fps: Vec<u64>,
    /// at the end of the previous step: the stream's flow was absent from side's table
    absent_prev: [bool; 2],
    established: [bool; 2],
    frames_seen: usize,
    /// at the end of the previous step: side's connection task had taken a Reset for the stream's flow out of its
    /// socket (black box: the peer's answer to a frame on a flow it has let go of is the only abort signal there is)
    reset_taken_prev: [bool; 2],
}

pub fn push_viol(v: &mut Vec<(String, String)>, key: &str, desc: String) {
    if !v.iter().any(|(k, _)| k == key) {
        v.push((key.to_string(), desc));
    }
}

impl Checker {
    pub fn new(tag: u8) -> Self {
        Self { tag, conn_end: None, solo: true, mon: WireMon::new(), seen_events: 0, violations: Vec::new(), witnesses: 0, fps: Vec::new(), absent_prev: [true, true], established: [false, false], frames_seen: 0, reset_taken_prev: [false, false] }
    }

    pub fn after_step(&mut self, w: &World, step: &Step, item: Option<&crate::link::Item>) {
        {
            let l = w.sim.link.lock();
            self.mon.absorb(&l);
        }
        if let (Step::Deliver(d), Some(it)) = (step, item) {
            self.mon.on_delivered(*d, it);
        }
        let obs = w.obs.borrow();
        let new: Vec<Ev> = obs.events[self.seen_events..].to_vec();
        let base = self.seen_events;
        self.seen_events = obs.events.len();
        let tag_of = |e: &Ev| match e {
            Ev::Read { tag, .. } | Ev::Wrote { tag, .. } | Ev::Shutdown { tag, .. } | Ev::Dropped { tag, .. } | Ev::OpenOk { tag, .. } | Ev::OpenErr { tag, .. } | Ev::Accepted { tag, .. } => Some(*tag),
            _ => None,
        };
        let mytag = self.tag;
        for (off, e) in new.iter().enumerate() {
            if tag_of(e).is_some_and(|t| t != mytag) {
                continue;
            }
            let before: Vec<&Ev> = obs.events[..base + off].iter().filter(|x| tag_of(x).is_none_or(|t| t == mytag)).collect();
            let before = &before;
            match e {
                Ev::Read { dir, res: Ok(0), .. } => {
                    self.witnesses |= W_EOF_SEEN;
                    let wside = usize::from(*dir); // dir 0 is written by the opener (side 0)
                    let shut = before.iter().any(|x| matches!(x, Ev::Shutdown { dir: d, res: Ok(()), .. } if d == dir));
                    let dropped = before.iter().any(|x| matches!(x, Ev::Dropped { side, .. } if *side == wside));
                    let led = obs.dirs.get(&(mytag, *dir)).cloned().unwrap_or_default();
                    if self.conn_end.is_some() {
                        // the connection ended: end-of-stream is due, but only after everything the peer had
                        // TRANSMITTED before the end (what it had merely queued is legitimately lost)
                        let fid = obs.flow_ids.get(&(mytag, wside)).copied();
                        let on_wire: Vec<u8> = self.mon.frames.iter().filter(|(s, f)| *s == wside && Some(f.id()) == fid).filter_map(|(_, f)| if let crate::codec::RFrame::Push { data, .. } = f { Some(data.clone()) } else { None }).flatten().collect();
                        // frames still in flight towards a reader whose own side closed are drained before the end;
                        // a reader on the side that did NOT close loses what was in flight when its task saw Close
                        // (whichever side closed: frames precede the Close of their sender on the wire, and the closing
                        // side drains until it sees the peer's Close)
                        if led.read != on_wire {
                            push_viol(
                                &mut self.violations,
                                "eof.before-transmitted-data",
                                format!("the connection was closed in an orderly way by side {:?}; {:02x?} had been transmitted on direction {dir} before the end but the reader got {:02x?} and then end-of-stream", self.conn_end, on_wire, led.read),
                            );
                        }
                    } else if !shut && !dropped {
                        push_viol(
                            &mut self.violations,
                            "eof.spurious",
                            format!(
                                "a read on direction {dir} returned end-of-stream although the writing end has neither shut down nor dropped the stream and the connection is up (writer accepted {} bytes, reader got {})",
                                led.written.len(),
                                led.read.len()
                            ),
                        );
                    } else if led.read != led.written {
                        push_viol(
                            &mut self.violations,
                            "eof.before-data",
                            format!("end-of-stream on direction {dir} after {} bytes although {} bytes were accepted before the writer finished", led.read.len(), led.written.len()),
                        );
                    }
                }
                Ev::Read { dir, res: Err(e), .. } => {
                    push_viol(&mut self.violations, "read.error", format!("read on direction {dir} failed with {e} (reads only ever end with end-of-stream)"));
                }
                Ev::Wrote { dir, res, asked, .. } => {
                    let me = usize::from(*dir);
                    let own_shutdown = before.iter().any(|x| matches!(x, Ev::Shutdown { dir: d, .. } if d == dir));
                    let peer_dropped = before.iter().any(|x| matches!(x, Ev::Dropped { side, .. } if *side == 1 - me));
                    match res {
                        Ok(n) => {
                            let total: usize = asked.iter().sum();
                            // (a write may legitimately accept fewer bytes than offered; the ledger records what it accepted)
                            let _ = total;
                            if *n > 0 && own_shutdown {
                                push_viol(&mut self.violations, "write.after-shutdown", format!("a write of {n} bytes on direction {dir} succeeded after the local shutdown of that direction"));
                            }
                            if *n > 0 && self.absent_prev[me] && self.established[me] {
                                push_viol(
                                    &mut self.violations,
                                    "write.after-peer-abort",
                                    format!("a write of {n} bytes on direction {dir} succeeded although the local endpoint had already processed the peer's abort (flow gone from the table)"),
                                );
                            }
                            if *n > 0 && self.reset_taken_prev[me] && !(self.absent_prev[me] && self.established[me]) {
                                push_viol(
                                    &mut self.violations,
                                    "write.after-peer-reset",
                                    format!("a write of {n} bytes on direction {dir} succeeded although the local connection task had already taken the peer's Reset for this flow out of its socket (in an earlier step): the peer has let go of the stream, the write goes nowhere"),
                                );
                            }
                            if *n > 0 && before.iter().any(|x| matches!(x, Ev::Shutdown { dir: d, res: Ok(()), .. } if *d == 1 - *dir)) {
                                self.witnesses |= W_HALF_CLOSE_DATA;
                            }
                        }
                        Err(k) => {
                            self.witnesses |= W_BROKEN_PIPE;
                            if k != "BrokenPipe" {
                                push_viol(&mut self.violations, "write.error-kind", format!("write failed with {k}, expected BrokenPipe"));
                            }
                            if !own_shutdown && !peer_dropped && self.conn_end.is_none() {
                                push_viol(
                                    &mut self.violations,
                                    "write.spurious-brokenpipe",
                                    format!("write on direction {dir} failed with BrokenPipe although this end has not shut down, the peer has not dropped the stream and the connection is up"),
                                );
                            }
                        }
                    }
                }
                Ev::Shutdown { dir, res: Err(e), .. } => {
                    push_viol(&mut self.violations, "shutdown.error", format!("shutdown of direction {dir} failed: {e}"));
                }
                Ev::OpenErr { err, .. } | Ev::AcceptErr { err, .. } => {
                    push_viol(&mut self.violations, "open.failed", format!("stream could not be opened: {err}"));
                }
                _ => {}
            }
        }
        // wire: no Push after the same side's Finish on that flow
        while self.frames_seen < self.mon.frames.len() {
            let (side, f) = &self.mon.frames[self.frames_seen];
            if f.op() == 4 {
                let earlier_fin = self.mon.frames[..self.frames_seen].iter().any(|(s, g)| s == side && g.op() == 3 && g.id() == f.id());
                if earlier_fin {
                    push_viol(&mut self.violations, "push.after-finish", format!("side {side} transmitted a Push on flow {:#x} after its own Finish", f.id()));
                }
            }
            if f.op() == 2 {
                self.witnesses |= W_RESET;
            }
            self.frames_seen += 1;
        }
        // Resets taken in by either side so far (for the next step's writes)
        {
            let l = w.sim.link.lock();
            self.mon.absorb_consumed(&l);
        }
        for side in 0..2 {
            if let Some(fid) = obs.flow_ids.get(&(self.tag, side)).copied() {
                // consumed_log holds (direction = sender's side, frame): taken in by the other side
                if self.mon.consumed_log.iter().any(|(d, f)| *d == 1 - side && matches!(f, crate::codec::RFrame::Reset { id } if *id == fid)) {
                    self.reset_taken_prev[side] = true;
                }
            }
        }
        // flow presence (white box) for the write-after-abort rule
        let mut h = Fnv::default();
        for side in 0..2 {
            let fid = obs.flow_ids.get(&(self.tag, side)).copied();
            if let (Some(fid), Some(mux)) = (fid, w.mux[side].as_ref()) {
                let dig = mux.verif_flow_digest();
                let present = dig.iter().any(|f| f.id == fid && f.kind == 1);
                if present {
                    self.established[side] = true;
                }
                self.absent_prev[side] = !present;
                for f in dig {
                    h.u64(u64::from(f.id));
                    h.u64(u64::from(f.credit));
                    h.byte(f.kind | u8::from(f.finish_sent) << 2 | u8::from(f.read_open) << 3);
                    h.u64(f.queued as u64);
                }
            }
        }
        h.u64(obs.events.len() as u64);
        for d in obs.dirs.values() {
            h.u64(d.written.len() as u64);
            h.u64(d.read.len() as u64);
        }
        {
            let l = w.sim.link.lock();
            for d in 0..2 {
                h.u64(l.dirs[d].inflight.len() as u64);
                h.u64(l.dirs[d].ready.len() as u64);
            }
        }
        for (i, t) in w.sim.tasks.iter().enumerate() {
            h.byte(u8::from(t.done) | u8::from(w.sim.is_runnable(i)) << 1);
        }
        self.fps.push(h.0);
    }

    pub fn at_end(&mut self, w: &World, horizon: bool, check_leak: bool) {
        let obs = w.obs.borrow();
        if horizon {
            push_viol(&mut self.violations, "livelock", "step horizon reached".into());
        }
        let mine = format!("s{}.", self.tag);
        let opn = format!("open{}.", self.tag);
        for name in obs.pending() {
            if !(name.starts_with(&mine) || name.starts_with(&opn) || (self.solo && name.starts_with("accept"))) {
                continue;
            }
            // which op is the actor blocked in?
            let side = usize::from(name.ends_with(".b"));
            match obs.current_op.get(&(self.tag, side)) {
                Some(Op::ReadToEof(_) | Op::ReadOnce(_)) if name.starts_with('s') => {
                    let rdir = 1 - side as u8; // side 0 reads dir 1
                    let wside = 1 - side;
                    let t0 = self.tag;
                    let shut = obs.events.iter().any(|x| matches!(x, Ev::Shutdown { tag, dir, res: Ok(()) } if *dir == rdir && *tag == t0));
                    let dropped = obs.events.iter().any(|x| matches!(x, Ev::Dropped { tag, side: s } if *s == wside && *tag == t0));
                    let led = obs.dirs.get(&(self.tag, rdir)).cloned().unwrap_or_default();
                    let data_left = led.read.len() < led.written.len();
                    if self.conn_end.is_some() {
                        push_viol(&mut self.violations, "hang.read-after-connection-end", format!("the connection was closed, yet {name} is still blocked in a read on direction {rdir}"));
                    } else if shut || dropped || data_left {
                        push_viol(
                            &mut self.violations,
                            "stall.read",
                            format!(
                                "quiescent with {name} blocked in a read on direction {rdir} although the writer has {} ({} of {} bytes returned)",
                                if shut { "shut down" } else if dropped { "dropped the stream" } else { "written more data" },
                                led.read.len(),
                                led.written.len()
                            ),
                        );
                    }
                }
                other => {
                    push_viol(&mut self.violations, "stall.other", format!("quiescent with {name} unfinished (blocked in {other:?}); windows are larger than any history, nothing here may block"));
                }
            }
        }
        for ((t, dir), d) in &obs.dirs {
            if *t != self.tag {
                continue;
            }
            if d.read.len() > d.written.len() || d.read[..] != d.written[..d.read.len()] {
                push_viol(&mut self.violations, "integrity.prefix", format!("direction {dir}: read {:02x?} not a prefix of written {:02x?}", d.read, d.written));
            }
        }
        for t in &w.sim.tasks {
            if let Some(p) = &t.panicked {
                push_viol(&mut self.violations, &format!("panic.{}", if t.name.starts_with("task") { "task" } else { "app" }), format!("{} panicked: {p}", t.name));
            }
        }
        // after both ends are done nothing may be left in either flow table
        if check_leak && obs.pending().is_empty() && !horizon {
            for side in 0..2 {
                if let Some(mux) = w.mux[side].as_ref() {
                    let dig = mux.verif_flow_digest();
                    if !dig.is_empty() {
                        push_viol(&mut self.violations, "leak.flow-table", format!("both ends dropped the stream and the link is drained, side {side} still holds {dig:?}"));
                    }
                }
            }
        }
    }
}

fn exec(a_ops: &[Op], b_ops: &[Op], with_drop: bool, render: bool) -> RunOutput {
    let a = SideCfg { opts: opts(8, 1), rng: vec![] };
    let b = SideCfg { opts: opts(8, 2), rng: vec![] };
    let mut w = World::two(UNBOUNDED_CAP, &a, &b);
    let mut plans = BTreeMap::new();
    plans.insert(TAG, EndPlan::SeqKeep(b_ops.to_vec()));
    w.spawn_acceptor(1, 1, plans);
    w.spawn_opener(0, TAG, vec![TAG], 80, EndPlan::SeqKeep(a_ops.to_vec()));
    let mut ck = Checker::new(TAG);
    let mut horizon = false;
    loop {
        if w.sim.steps >= 3000 {
            horizon = true;
            break;
        }
        let en = w.sim.enabled();
        if en.is_empty() {
            break;
        }
        let c = if with_drop && ck.conn_end.is_none() && w.obs.borrow().flow_ids.len() == 2 {
            // once both ends hold the stream: either application may let go of its Multiplexor (the stream lives on)
            let mut kinds = vec![Cost::Sched; en.len()];
            kinds.push(Cost::Fault);
            kinds.push(Cost::Fault);
            crate::explore::choose(&kinds)
        } else {
            choose_n(en.len(), Cost::Sched)
        };
        if c >= en.len() {
            let side = c - en.len();
            w.drop_mux(side);
            ck.conn_end = Some(side);
            ck.witnesses |= W_CONN_END;
            w.sim.log.push(Step::Extra(side));
            continue;
        }
        let step = en[c].clone();
        let item = w.sim.apply(&step);
        ck.after_step(&w, &step, item.as_ref());
    }
    let leak = ck.conn_end.is_none();
    ck.at_end(&w, horizon, leak);
    let mut h = Fnv::default();
    for e in &w.obs.borrow().events {
        h.str(&format!("{e:?}"));
    }
    let out = RunOutput { blocked: false,
        steps: w.sim.steps,
        fingerprints: std::mem::take(&mut ck.fps),
        outcome: h.0,
        violations: std::mem::take(&mut ck.violations),
        witnesses: ck.witnesses,
        horizon,
        rendering: render.then(|| w.sim.render_log().join(" ")),
    };
    w.sim.teardown();
    out
}

pub fn run(args: &Args) -> Report {
    let mut rep = Report::new("C05", &args.tier, "psim", "model_checking");
    let thorough = args.thorough();
    let len = if thorough { 3 } else { 2 };
    let hs = histories(len);
    let mut cases = Vec::new();
    // orderly connection end while the stream is in use: either application drops its Multiplexor at any point
    let hs_small = histories(if thorough { 2 } else { 1 });
    for a in &hs_small {
        for b in &hs_small {
            let (a2, b2) = (a.clone(), b.clone());
            cases.push(Case { try_unbounded: false, max_k: 1, label: format!("A:[{}] B:[{}] + either Multiplexor dropped at any point", op_str(a), op_str(b)), exec: Box::new(move |r| exec(&a2, &b2, true, r)) });
        }
    }
    for a in &hs {
        for b in &hs {
            let (a2, b2) = (a.clone(), b.clone());
            cases.push(Case { try_unbounded: false, max_k: u32::MAX, label: format!("A:[{}] B:[{}]", op_str(a), op_str(b)), exec: Box::new(move |r| exec(&a2, &b2, false, r)) });
        }
    }
    // longer histories of one shape, in both tiers: one end half-closes and lets go of the stream, the other end reads to
    // end-of-stream and only THEN writes several times: the first write may still go out (nobody has told it yet), the
    // Reset that comes back is the only abort signal it ever gets, and every write after it must fail
    for a in [vec![Op::ReadToEof(3), Op::W(2), Op::W(2)], vec![Op::ReadToEof(3), Op::W(2), Op::WV(vec![1, 0, 1])], vec![Op::ReadToEof(3), Op::W(2), Op::W(2), Op::W(2)], vec![Op::ReadToEof(3), Op::W(2), Op::Shutdown]] {
        for b in [vec![Op::Shutdown], vec![Op::W(2), Op::Shutdown]] {
            let (a2, b2) = (a.clone(), b.clone());
            cases.push(Case { try_unbounded: false, max_k: u32::MAX, label: format!("A:[{}] B:[{}]", op_str(&a), op_str(&b)), exec: Box::new(move |r| exec(&a2, &b2, false, r)) });
            let (a2, b2) = (a.clone(), b.clone());
            cases.push(Case { try_unbounded: false, max_k: u32::MAX, label: format!("A:[{}] B:[{}]", op_str(&b), op_str(&a)), exec: Box::new(move |r| exec(&b2, &a2, false, r)) });
        }
    }
    // unusual shapes of ONE write call, then the orderly end: end-of-stream comes after every byte the call reported as
    // written (very many slices; more than a frame may carry, plain and vectored)
    for a in [vec![Op::WV(vec![4; 1500]), Op::Shutdown], vec![Op::WV(vec![1; 5000]), Op::W(2), Op::Shutdown], vec![Op::WV(vec![300_000, 300_000, 300_000]), Op::Shutdown], vec![Op::W(700_000), Op::Shutdown]] {
        for b in [vec![Op::ReadToEof(65_536)], vec![Op::ReadToEof(65_536), Op::W(2), Op::Shutdown]] {
            let (a2, b2) = (a.clone(), b.clone());
            cases.push(Case { try_unbounded: false, max_k: 1, label: format!("A:[{}] B:[{}]", op_str(&a), op_str(&b)), exec: Box::new(move |r| exec(&a2, &b2, false, r)) });
            let (a2, b2) = (a.clone(), b.clone());
            cases.push(Case { try_unbounded: false, max_k: 1, label: format!("A:[{}] B:[{}]", op_str(&b), op_str(&a)), exec: Box::new(move |r| exec(&b2, &a2, false, r)) });
        }
    }
    rep.bounds.insert("history_length_per_end".into(), serde_json::json!(len));
    rep.bounds.insert("histories_per_end".into(), serde_json::json!(hs.len()));
    rep.bounds.insert("alphabet".into(), serde_json::json!(op_str(&alphabet())));
    let plan = Plan {
        ks: if thorough { vec![0, 1, 2, 3] } else { vec![0, 1, 2] },
        env: 0,
        fault: 1,
        total_wall: Duration::from_secs(if thorough { 1500 } else { 100 }),
        max_execs_per_case: 100_000,
        required_witnesses: W_EOF_SEEN | W_BROKEN_PIPE | W_HALF_CLOSE_DATA | W_RESET | W_CONN_END,
        adaptive: thorough,
        witness_names: &[("eof_observed", W_EOF_SEEN), ("broken_pipe_observed", W_BROKEN_PIPE), ("data_flowed_after_half_close", W_HALF_CLOSE_DATA), ("reset_on_wire", W_RESET), ("orderly_connection_end_injected", W_CONN_END)],
    };
    rep.rule = "psim: one stream between two real endpoints; EVERY pair of operation histories (alphabet above, length <= L per end, implicit drop at the end, operations continue after a failed write) x every schedule with <= k deviations; reference model per direction = byte queue + {open, finished, aborted}: a read may return 0 only after the writer's shutdown/drop and only with all accepted bytes returned; writes after own shutdown or after the processed peer abort must fail with BrokenPipe; BrokenPipe needs a cause; no Push after own Finish on the wire; a blocked read needs a reason to block; flow tables empty at the end".into();
    rep.assumptions = vec![
        "windows (8) exceed every history so a write never blocks on credit here; blocking is C03/C04's subject".into(),
        "a zero-length write after a local shutdown may either fail or return 0; only transmission is forbidden".into(),
    ];
    run_cases(args, &mut rep, cases, &plan);
    rep
}
