//! C18 reference: the grammar of RFC 1928 (§3 method negotiation, §4 request,
//! §5 addressing, §6 reply, §7 UDP request header) and of the SOCKS4 / SOCKS4a
//! notes, written from the specification text. Nothing here calls penguin-socks.

/// An address as the wire carries it.
#[derive(Clone, Debug, PartialEq, Eq, Hash)]
pub enum Addr {
    V4([u8; 4]),
    Domain(Vec<u8>),
    V6([u8; 16]),
}

impl Addr {
    pub fn atyp(&self) -> u8 {
        match self {
            Addr::V4(_) => 1,
            Addr::Domain(_) => 3,
            Addr::V6(_) => 4,
        }
    }
    /// RFC 1928 §5 encoding of the address field (without ATYP).
    pub fn field(&self) -> Vec<u8> {
        match self {
            Addr::V4(o) => o.to_vec(),
            Addr::Domain(d) => {
                assert!(d.len() <= 255);
                let mut v = vec![d.len() as u8];
                v.extend_from_slice(d);
                v
            }
            Addr::V6(o) => o.to_vec(),
        }
    }
    pub fn class(&self) -> &'static str {
        match self {
            Addr::V4(_) => "ipv4",
            Addr::Domain(d) if d.is_empty() => "domain0",
            Addr::Domain(_) => "domain",
            Addr::V6(_) => "ipv6",
        }
    }
    pub fn describe(&self) -> String {
        match self {
            Addr::V4(o) => dotted(*o),
            Addr::Domain(d) => format!("domain[{}]", d.len()),
            Addr::V6(o) => format!("v6:{}", vcommon::report::hex(o)),
        }
    }
}

/// Dotted-decimal text of an IPv4 address (the only textual form there is).
pub fn dotted(o: [u8; 4]) -> String {
    format!("{}.{}.{}.{}", o[0], o[1], o[2], o[3])
}

/// Does `text` denote exactly this address? IPv4: dotted decimal, exact.
/// Domain: the octets themselves. IPv6: any RFC 4291 §2.2 text form of the
/// same 16 octets (the RFCs fix the wire octets, not the spelling).
pub fn text_denotes(text: &[u8], a: &Addr) -> bool {
    match a {
        Addr::V4(o) => text == dotted(*o).as_bytes(),
        Addr::Domain(d) => text == d.as_slice(),
        Addr::V6(o) => std::str::from_utf8(text)
            .ok()
            .and_then(|s| s.parse::<std::net::Ipv6Addr>().ok())
            .is_some_and(|p| p.octets() == *o),
    }
}

// ------------------------------------------------------------------ SOCKS5 request (§4)

#[derive(Clone, Debug, PartialEq, Eq)]
pub enum Parse5 {
    Complete { cmd: u8, rsv: u8, addr: Addr, port: u16, used: usize },
    /// a proper prefix of at least one well-formed request
    Incomplete,
    BadVersion(u8),
    /// VER CMD RSV were fine, ATYP is not one of 1, 3, 4
    BadAtyp(u8),
}

/// Parse the address field that follows an ATYP octet. `Ok(None)` = need more.
fn parse_addr(atyp: u8, b: &[u8]) -> Result<Option<(Addr, usize)>, u8> {
    match atyp {
        1 => Ok((b.len() >= 4).then(|| (Addr::V4(b[..4].try_into().unwrap()), 4))),
        4 => Ok((b.len() >= 16).then(|| (Addr::V6(b[..16].try_into().unwrap()), 16))),
        3 => {
            let Some(&n) = b.first() else { return Ok(None) };
            let n = usize::from(n);
            Ok((b.len() >= 1 + n).then(|| (Addr::Domain(b[1..=n].to_vec()), 1 + n)))
        }
        other => Err(other),
    }
}

pub fn parse_request5(b: &[u8]) -> Parse5 {
    let Some(&ver) = b.first() else { return Parse5::Incomplete };
    if ver != 5 {
        return Parse5::BadVersion(ver);
    }
    if b.len() < 4 {
        return Parse5::Incomplete;
    }
    let (cmd, rsv, atyp) = (b[1], b[2], b[3]);
    match parse_addr(atyp, &b[4..]) {
        Err(a) => Parse5::BadAtyp(a),
        Ok(None) => Parse5::Incomplete,
        Ok(Some((addr, n))) => {
            let rest = &b[4 + n..];
            if rest.len() < 2 {
                return Parse5::Incomplete;
            }
            Parse5::Complete { cmd, rsv, addr, port: u16::from(rest[0]) << 8 | u16::from(rest[1]), used: 4 + n + 2 }
        }
    }
}

/// `VER CMD RSV ATYP <field> PORT`; `field` is the raw address field so that
/// unknown address types can be built as well.
pub fn build_request5(ver: u8, cmd: u8, rsv: u8, atyp: u8, field: &[u8], port: u16) -> Vec<u8> {
    let mut v = vec![ver, cmd, rsv, atyp];
    v.extend_from_slice(field);
    v.extend_from_slice(&[(port >> 8) as u8, (port & 0xff) as u8]);
    v
}

// ------------------------------------------------------------------ SOCKS5 replies (§3, §6)

/// `VER REP RSV ATYP BND.ADDR BND.PORT`
pub fn build_reply5(rep: u8, addr: &Addr, port: u16) -> Vec<u8> {
    let mut v = vec![5, rep, 0, addr.atyp()];
    v.extend(addr.field());
    v.extend_from_slice(&[(port >> 8) as u8, (port & 0xff) as u8]);
    v
}

/// A conforming client's view of a reply: (REP, BND.ADDR, BND.PORT), the whole
/// buffer must be exactly one reply.
pub fn parse_reply5(b: &[u8]) -> Option<(u8, Addr, u16)> {
    if b.len() < 4 || b[0] != 5 || b[2] != 0 {
        return None;
    }
    let (addr, n) = parse_addr(b[3], &b[4..]).ok()??;
    let rest = &b[4 + n..];
    (rest.len() == 2).then(|| (b[1], addr, u16::from(rest[0]) << 8 | u16::from(rest[1])))
}

// ------------------------------------------------------------------ SOCKS4 / SOCKS4a

#[derive(Clone, Debug, PartialEq, Eq)]
pub enum Host4 {
    Ip([u8; 4]),
    Domain(Vec<u8>),
}

#[derive(Clone, Debug, PartialEq, Eq)]
pub enum Parse4 {
    /// `used` counts from the CD octet (the VN octet is read by the caller)
    Complete { cmd: u8, host: Host4, port: u16, used: usize, user_len: usize },
    Incomplete,
}

/// Parse `CD DSTPORT DSTIP USERID NUL [DOMAIN NUL]` (everything after VN).
pub fn parse_request4(b: &[u8]) -> Parse4 {
    if b.len() < 7 {
        return Parse4::Incomplete;
    }
    let cmd = b[0];
    let port = u16::from(b[1]) << 8 | u16::from(b[2]);
    let ip: [u8; 4] = b[3..7].try_into().unwrap();
    // The SOCKS4a convention: the server reads a domain name if and only if DSTIP is 0.0.0.x with x != 0.
    // Every other DSTIP (0.0.0.0 and 0.y.z.w included) is a plain SOCKS4 request for that address.
    let is_4a = ip[0] == 0 && ip[1] == 0 && ip[2] == 0 && ip[3] != 0;
    let Some(unul) = b[7..].iter().position(|&x| x == 0) else { return Parse4::Incomplete };
    let after_user = 7 + unul + 1;
    if !is_4a {
        return Parse4::Complete { cmd, host: Host4::Ip(ip), port, used: after_user, user_len: unul };
    }
    let Some(dnul) = b[after_user..].iter().position(|&x| x == 0) else { return Parse4::Incomplete };
    Parse4::Complete {
        cmd,
        host: Host4::Domain(b[after_user..after_user + dnul].to_vec()),
        port,
        used: after_user + dnul + 1,
        user_len: unul,
    }
}

pub fn build_request4(cmd: u8, port: u16, ip: [u8; 4], user: &[u8], domain: Option<&[u8]>) -> Vec<u8> {
    let mut v = vec![cmd, (port >> 8) as u8, (port & 0xff) as u8];
    v.extend_from_slice(&ip);
    v.extend_from_slice(user);
    v.push(0);
    if let Some(d) = domain {
        v.extend_from_slice(d);
        v.push(0);
    }
    v
}

// ------------------------------------------------------------------ UDP request header (§7)

/// `RSV(2) FRAG ATYP DST.ADDR DST.PORT DATA`
pub fn build_udp(rsv: [u8; 2], frag: u8, atyp: u8, field: &[u8], port: u16, data: &[u8]) -> Vec<u8> {
    let mut v = vec![rsv[0], rsv[1], frag, atyp];
    v.extend_from_slice(field);
    v.extend_from_slice(&[(port >> 8) as u8, (port & 0xff) as u8]);
    v.extend_from_slice(data);
    v
}

#[derive(Clone, Debug, PartialEq, Eq)]
pub struct Udp {
    pub rsv: [u8; 2],
    pub frag: u8,
    pub addr: Addr,
    pub port: u16,
    /// offset of DATA in the datagram
    pub data_at: usize,
}

/// Everything that is wrong with a datagram (several may hold at once).
#[derive(Clone, Debug, Default, PartialEq, Eq)]
pub struct UdpFaults {
    pub truncated: bool,
    pub bad_atyp: Option<u8>,
}

/// A conforming peer's parse of a UDP relay datagram. FRAG is reported, not judged.
pub fn parse_udp(b: &[u8]) -> Result<Udp, UdpFaults> {
    if b.len() < 4 {
        return Err(UdpFaults { truncated: true, bad_atyp: None });
    }
    match parse_addr(b[3], &b[4..]) {
        Err(a) => Err(UdpFaults { truncated: false, bad_atyp: Some(a) }),
        Ok(None) => Err(UdpFaults { truncated: true, bad_atyp: None }),
        Ok(Some((addr, n))) => {
            let rest = &b[4 + n..];
            if rest.len() < 2 {
                return Err(UdpFaults { truncated: true, bad_atyp: None });
            }
            Ok(Udp { rsv: [b[0], b[1]], frag: b[2], addr, port: u16::from(rest[0]) << 8 | u16::from(rest[1]), data_at: 4 + n + 2 })
        }
    }
}
