//! Probe harness for C19 (scratch)
#![allow(dead_code)]
use futures_util::{SinkExt, StreamExt};
use penguin_mux::timing::OptionalDuration;
use penguin_mux::{Multiplexor, PROTOCOL_VERSION};
use rusty_penguin_lib::arg::{ClientArgs, Remote, ServerUrl};
use rusty_penguin_lib::client::{Error, HandlerResources, client_main_inner};
use std::str::FromStr;
use std::sync::{Arc, Mutex};
use std::time::{Duration, Instant};
use tokio::io::{AsyncReadExt, AsyncWriteExt};
use tokio::net::{TcpListener, TcpStream};
use tokio_tungstenite::tungstenite::handshake::server::{Request, Response};
use tokio_tungstenite::tungstenite::http::HeaderValue;

#[derive(Clone, Copy, Debug)]
pub enum B {
    /// accept TCP then close at once
    CloseNow,
    /// accept TCP, never answer
    Stall,
    /// WS handshake, wait, send Close frame, then drop
    WsCloseOrderly(u64),
    /// WS handshake, wait, drop TCP
    WsDrop(u64),
    /// WS handshake, then hold the socket without reading
    WsSilent,
    /// WS handshake, read and discard everything
    WsReadOnly,
    /// healthy echo server
    Healthy,
    /// healthy for d ms then drop everything
    HealthyFor(u64),
}

pub type Log = Arc<Mutex<Vec<(Instant, B)>>>;

async fn ws_accept(
    tcp: TcpStream,
) -> Option<tokio_tungstenite::WebSocketStream<TcpStream>> {
    let cb = |_req: &Request, mut resp: Response| {
        resp.headers_mut().insert(
            "sec-websocket-protocol",
            HeaderValue::from_static(PROTOCOL_VERSION),
        );
        Ok(resp)
    };
    tokio_tungstenite::accept_hdr_async(tcp, cb).await.ok()
}

async fn healthy(ws: tokio_tungstenite::WebSocketStream<TcpStream>) {
    let mux = Arc::new(Multiplexor::new(ws));
    let mux2 = mux.clone();
    struct AbortOnDrop(tokio::task::JoinHandle<()>);
    impl Drop for AbortOnDrop {
        fn drop(&mut self) {
            self.0.abort();
        }
    }
    let _guard = AbortOnDrop(tokio::spawn(async move {
        while let Ok(d) = mux2.get_datagram().await {
            if mux2.send_datagram(d).await.is_err() { break; }
        }
    }));
    loop {
        let Ok(mut s) = mux.accept_stream_channel().await else {
            return;
        };
        tokio::spawn(async move {
            let mut buf = vec![0u8; 4096];
            loop {
                match s.read(&mut buf).await {
                    Ok(0) | Err(_) => break,
                    Ok(n) => {
                        if s.write_all(&buf[..n]).await.is_err() {
                            break;
                        }
                    }
                }
            }
            s.shutdown().await.ok();
        });
    }
}

pub async fn fake_server(listener: TcpListener, script: Vec<B>, log: Log) {
    let mut held: Vec<Box<dyn std::any::Any + Send>> = Vec::new();
    let mut it = script.into_iter();
    let mut last = B::Healthy;
    loop {
        let (tcp, _) = listener.accept().await.unwrap();
        let b = it.next().unwrap_or(last);
        last = b;
        log.lock().unwrap().push((Instant::now(), b));
        match b {
            B::CloseNow => drop(tcp),
            B::Stall => held.push(Box::new(tcp)),
            B::WsCloseOrderly(d) => {
                tokio::spawn(async move {
                    let Some(mut ws) = ws_accept(tcp).await else { return };
                    tokio::time::sleep(Duration::from_millis(d)).await;
                    ws.close(None).await.ok();
                    // read until the peer's close arrives
                    while let Some(Ok(_)) = ws.next().await {}
                });
            }
            B::WsDrop(d) => {
                tokio::spawn(async move {
                    let Some(ws) = ws_accept(tcp).await else { return };
                    tokio::time::sleep(Duration::from_millis(d)).await;
                    drop(ws);
                });
            }
            B::WsSilent => {
                if let Some(ws) = ws_accept(tcp).await {
                    held.push(Box::new(ws));
                }
            }
            B::WsReadOnly => {
                tokio::spawn(async move {
                    let Some(mut ws) = ws_accept(tcp).await else { return };
                    while let Some(Ok(_)) = ws.next().await {}
                });
            }
            B::Healthy => {
                tokio::spawn(async move {
                    let Some(ws) = ws_accept(tcp).await else { return };
                    healthy(ws).await;
                });
            }
            B::HealthyFor(d) => {
                tokio::spawn(async move {
                    let Some(ws) = ws_accept(tcp).await else { return };
                    let _ = tokio::time::timeout(Duration::from_millis(d), healthy(ws)).await;
                });
            }
        }
    }
}

pub async fn free_port() -> u16 {
    let l = TcpListener::bind("127.0.0.1:0").await.unwrap();
    l.local_addr().unwrap().port()
}

pub struct Setup {
    pub log: Log,
    pub lport: u16,
    pub client: tokio::task::JoinHandle<Result<(), Error>>,
    pub server: tokio::task::JoinHandle<()>,
}

pub async fn setup(script: Vec<B>, f: impl FnOnce(&mut ClientArgs)) -> Setup {
    let listener = TcpListener::bind("127.0.0.1:0").await.unwrap();
    let sport = listener.local_addr().unwrap().port();
    let lport = free_port().await;
    let mut args = ClientArgs {
        server: ServerUrl::from_str(&format!("ws://127.0.0.1:{sport}/ws")).unwrap(),
        remote: vec![Remote::from_str(&format!("127.0.0.1:{lport}:127.0.0.1:9")).unwrap()],
        keepalive: OptionalDuration::NONE,
        max_retry_count: 0,
        max_retry_interval: 300_000,
        handshake_timeout: OptionalDuration::from_secs(1),
        channel_timeout: OptionalDuration::from_secs(1),
        ..Default::default()
    };
    f(&mut args);
    let args: &'static ClientArgs = Box::leak(Box::new(args));
    let (hr, srx, drx) = HandlerResources::create();
    let hr: &'static HandlerResources = Box::leak(Box::new(hr));
    let log: Log = Arc::new(Mutex::new(Vec::new()));
    let server = tokio::spawn(fake_server(listener, script, log.clone()));
    let client = tokio::spawn(client_main_inner(args, hr, srx, drx));
    Setup {
        log,
        lport,
        client,
        server,
    }
}

fn gaps(log: &Log) -> Vec<u128> {
    let l = log.lock().unwrap();
    l.windows(2)
        .map(|w| w[1].0.duration_since(w[0].0).as_millis())
        .collect()
}

async fn echo_check(lport: u16, payload: &[u8], wait: Duration) -> Result<(), String> {
    let mut s = TcpStream::connect(("127.0.0.1", lport))
        .await
        .map_err(|e| format!("connect: {e}"))?;
    s.write_all(payload).await.map_err(|e| format!("write: {e}"))?;
    let mut buf = vec![0u8; payload.len()];
    match tokio::time::timeout(wait, s.read_exact(&mut buf)).await {
        Err(_) => Err("timeout".into()),
        Ok(Err(e)) => Err(format!("read: {e}")),
        Ok(Ok(_)) => {
            if buf == payload {
                Ok(())
            } else {
                Err("mismatch".into())
            }
        }
    }
}

#[tokio::test(flavor = "multi_thread", worker_threads = 4)]
async fn probe_backoff_reset() {
    let s = setup(
        vec![
            B::CloseNow,
            B::CloseNow,
            B::CloseNow,
            B::WsCloseOrderly(50),
            B::CloseNow,
            B::CloseNow,
            B::WsDrop(50),
            B::CloseNow,
            B::CloseNow,
            B::Healthy,
        ],
        |_| {},
    )
    .await;
    tokio::time::sleep(Duration::from_secs(5)).await;
    println!("gaps: {:?}", gaps(&s.log));
    println!("client finished: {}", s.client.is_finished());
    echo_check(s.lport, b"hello", Duration::from_secs(3)).await.unwrap();
}

#[tokio::test(flavor = "multi_thread", worker_threads = 4)]
async fn probe_pending_across_reconnect() {
    // local connection opened while the handshake is stalled; then request times out; then healthy
    let s = setup(
        vec![B::Stall, B::CloseNow, B::WsReadOnly, B::WsSilent, B::WsCloseOrderly(300), B::Healthy],
        |_| {},
    )
    .await;
    tokio::time::sleep(Duration::from_millis(300)).await;
    let lport = s.lport;
    let a = tokio::spawn(async move { echo_check(lport, b"first", Duration::from_secs(15)).await });
    tokio::time::sleep(Duration::from_millis(100)).await;
    let b = tokio::spawn(async move { echo_check(lport, b"second", Duration::from_secs(15)).await });
    let ra = a.await.unwrap();
    let rb = b.await.unwrap();
    println!("gaps: {:?}", gaps(&s.log));
    println!("log: {:?}", s.log.lock().unwrap().iter().map(|x| x.1).collect::<Vec<_>>());
    println!("client finished: {}", s.client.is_finished());
    ra.unwrap();
    rb.unwrap();
}

#[tokio::test(flavor = "multi_thread", worker_threads = 4)]
async fn probe_give_up() {
    for n in 1..=3u32 {
        let s = setup(vec![B::CloseNow; 10], |a| {
            a.max_retry_count = n;
        })
        .await;
        let r = tokio::time::timeout(Duration::from_secs(10), s.client).await;
        println!("n={n} result {r:?}");
        let n_att = s.log.lock().unwrap().len();
        println!("attempts {} gaps: {:?}", n_att, gaps(&s.log));
    }
    // after a success
    let s = setup(
        vec![B::CloseNow, B::WsDrop(10), B::CloseNow, B::CloseNow, B::CloseNow, B::CloseNow],
        |a| {
            a.max_retry_count = 2;
        },
    )
    .await;
    let r = tokio::time::timeout(Duration::from_secs(10), s.client).await;
    println!("result {r:?}");
    let n_att = s.log.lock().unwrap().len();
        println!("attempts {} gaps: {:?}", n_att, gaps(&s.log));
}

async fn socks5_echo_check(lport: u16, payload: &[u8], wait: Duration) -> Result<(), String> {
    let fut = async {
        let mut s = TcpStream::connect(("127.0.0.1", lport))
            .await
            .map_err(|e| format!("connect: {e}"))?;
        s.write_all(&[5, 1, 0]).await.map_err(|e| format!("w1: {e}"))?;
        let mut b = [0u8; 2];
        s.read_exact(&mut b).await.map_err(|e| format!("r1: {e}"))?;
        let host = b"example.test";
        let mut req = vec![5, 1, 0, 3, host.len() as u8];
        req.extend_from_slice(host);
        req.extend_from_slice(&80u16.to_be_bytes());
        s.write_all(&req).await.map_err(|e| format!("w2: {e}"))?;
        let mut b = [0u8; 10];
        s.read_exact(&mut b).await.map_err(|e| format!("r2: {e}"))?;
        if b[1] != 0 {
            return Err(format!("socks reply {}", b[1]));
        }
        s.write_all(payload).await.map_err(|e| format!("write: {e}"))?;
        let mut buf = vec![0u8; payload.len()];
        s.read_exact(&mut buf).await.map_err(|e| format!("read: {e}"))?;
        if buf == payload { Ok(()) } else { Err("mismatch".to_string()) }
    };
    match tokio::time::timeout(wait, fut).await {
        Err(_) => Err("timeout".into()),
        Ok(r) => r,
    }
}

#[tokio::test(flavor = "multi_thread", worker_threads = 4)]
async fn probe_stress() {
    use rand::RngExt;
    let seeds: u64 = std::env::var("SEEDS").ok().and_then(|s| s.parse().ok()).unwrap_or(3);
    for seed in 0..seeds {
        let mut rng = <rand::rngs::StdRng as rand::SeedableRng>::seed_from_u64(seed);
        let nfail = rng.random_range(1..6);
        let mut script = Vec::new();
        for _ in 0..nfail {
            script.push(match rng.random_range(0..6) {
                0 => B::CloseNow,
                1 => B::Stall,
                2 => B::WsCloseOrderly(rng.random_range(0..400)),
                3 => B::WsDrop(rng.random_range(0..400)),
                4 => B::WsSilent,
                _ => B::WsReadOnly,
            });
        }
        script.push(B::Healthy);
        println!("seed {seed} script {script:?}");
        let socks_port = free_port().await;
        let s = setup(script, |a| {
            a.remote.push(Remote::from_str(&format!("127.0.0.1:{socks_port}:socks")).unwrap());
            a.max_retry_interval = 400;
        })
        .await;
        tokio::time::sleep(Duration::from_millis(100)).await;
        let nconn = rng.random_range(1..120);
        let mut hs = Vec::new();
        for i in 0..nconn {
            let delay = rng.random_range(0..1500u64);
            let tcp = rng.random_range(0..4) == 0;
            let lport = s.lport;
            hs.push(tokio::spawn(async move {
                tokio::time::sleep(Duration::from_millis(delay)).await;
                let payload = format!("payload-{i}");
                let r = if tcp {
                    echo_check(lport, payload.as_bytes(), Duration::from_secs(40)).await
                } else {
                    socks5_echo_check(socks_port, payload.as_bytes(), Duration::from_secs(40)).await
                };
                (i, tcp, r)
            }));
        }
        let mut bad = 0;
        for h in hs {
            let (i, tcp, r) = h.await.unwrap();
            if let Err(e) = r {
                println!("  conn {i} tcp={tcp} failed: {e}");
                bad += 1;
            }
        }
        println!("  client finished: {} log {:?}", s.client.is_finished(), s.log.lock().unwrap().iter().map(|x| x.1).collect::<Vec<_>>());
        assert_eq!(bad, 0, "seed {seed}");
        s.client.abort();
        s.server.abort();
    }
}

#[tokio::test]
async fn probe_stress_ka() {
    use rand::RngExt;
    let seeds: u64 = std::env::var("SEEDS").ok().and_then(|s| s.parse().ok()).unwrap_or(3);
    for seed in 0..seeds {
        let mut rng = <rand::rngs::StdRng as rand::SeedableRng>::seed_from_u64(seed);
        let nfail = rng.random_range(1..6);
        let mut script = Vec::new();
        for _ in 0..nfail {
            script.push(match rng.random_range(0..7) {
                0 => B::CloseNow,
                1 => B::Stall,
                6 => B::WsCloseOrderly(0),
                2 => B::WsCloseOrderly(rng.random_range(0..400)),
                3 => B::WsDrop(rng.random_range(0..400)),
                4 => B::WsSilent,
                _ => B::WsSilent,
            });
        }
        script.push(B::Healthy);
        println!("seed {seed} script {script:?}");
        let socks_port = free_port().await;
        let s = setup(script, |a| {
            a.remote.push(Remote::from_str(&format!("127.0.0.1:{socks_port}:socks")).unwrap());
            a.max_retry_interval = 400;
            a.keepalive = OptionalDuration::from_secs(1);
            a.keepalive_timeout = OptionalDuration::from_secs(1);
            a.channel_timeout = OptionalDuration::NONE;
        })
        .await;
        tokio::time::sleep(Duration::from_millis(100)).await;
        let nconn = rng.random_range(1..120);
        let mut hs = Vec::new();
        for i in 0..nconn {
            let delay = rng.random_range(0..1500u64);
            let tcp = rng.random_range(0..4) == 0;
            let lport = s.lport;
            hs.push(tokio::spawn(async move {
                tokio::time::sleep(Duration::from_millis(delay)).await;
                let payload = format!("payload-{i}");
                let r = if tcp {
                    echo_check(lport, payload.as_bytes(), Duration::from_secs(40)).await
                } else {
                    socks5_echo_check(socks_port, payload.as_bytes(), Duration::from_secs(40)).await
                };
                (i, tcp, r)
            }));
        }
        let mut bad = 0;
        for h in hs {
            let (i, tcp, r) = h.await.unwrap();
            if let Err(e) = r {
                println!("  conn {i} tcp={tcp} failed: {e}");
                bad += 1;
            }
        }
        println!("  client finished: {} log {:?}", s.client.is_finished(), s.log.lock().unwrap().iter().map(|x| x.1).collect::<Vec<_>>());
        assert_eq!(bad, 0, "seed {seed}");
        s.client.abort();
        s.server.abort();
    }
}

#[tokio::test(flavor = "multi_thread", worker_threads = 4)]
async fn probe_halfclose_while_down() {
    let s = setup(vec![B::Stall, B::WsSilent, B::Healthy], |_| {}).await;
    tokio::time::sleep(Duration::from_millis(200)).await;
    let mut c = TcpStream::connect(("127.0.0.1", s.lport)).await.unwrap();
    let payload: Vec<u8> = (0..300_000u32).map(|i| (i % 251) as u8).collect();
    c.write_all(&payload).await.unwrap();
    c.shutdown().await.unwrap();
    let mut out = Vec::new();
    let r = tokio::time::timeout(Duration::from_secs(15), c.read_to_end(&mut out)).await;
    println!("r = {r:?}, out.len = {}", out.len());
    assert_eq!(out, payload);
}

#[test]
fn probe_backoff_exhaustive() {
    use penguin_mux::timing::Backoff;
    let ms = Duration::from_millis;
    let mut n = 0u64;
    for initial in 0..5u64 {
        for max in 0..8u64 {
            for mult in 0..4u32 {
                for max_count in 0..5u32 {
                    // all reset patterns over 7 steps (bit i = reset before step i)
                    for pattern in 0..128u32 {
                        let mut b = Backoff::new(ms(initial), ms(max), mult, max_count);
                        let mut k = 0u32;
                        for step in 0..7 {
                            if pattern & (1 << step) != 0 {
                                b.reset();
                                k = 0;
                            }
                            let expect = if max_count != 0 && k >= max_count {
                                None
                            } else {
                                let raw = (initial as u128) * (mult as u128).pow(k);
                                Some(ms(raw.min(max as u128) as u64))
                            };
                            let got = b.advance();
                            assert_eq!(got, expect, "i={initial} max={max} mult={mult} mc={max_count} pat={pattern:b} step={step}");
                            if got.is_some() {
                                k += 1;
                            }
                            n += 1;
                        }
                    }
                }
            }
        }
    }
    println!("checked {n} advances");
}

#[tokio::test(flavor = "multi_thread", worker_threads = 4)]
async fn probe_traffic_then_drop() {
    tracing_subscriber::fmt().with_env_filter(tracing_subscriber::EnvFilter::from_default_env()).try_init().ok();
    let socks_port = free_port().await;
    let s = setup(
        vec![B::HealthyFor(700), B::HealthyFor(300), B::WsCloseOrderly(100), B::HealthyFor(500), B::Healthy],
        |a| {
            a.remote.push(Remote::from_str(&format!("127.0.0.1:{socks_port}:socks")).unwrap());
        },
    )
    .await;
    tokio::time::sleep(Duration::from_millis(100)).await;
    let mut pumps = Vec::new();
    for i in 0..30 {
        let lport = s.lport;
        pumps.push(tokio::spawn(async move {
            // pump data without reading for a while so that writers get parked
            let mut c = if i % 2 == 0 {
                TcpStream::connect(("127.0.0.1", lport)).await.unwrap()
            } else {
                let mut s = TcpStream::connect(("127.0.0.1", socks_port)).await.unwrap();
                s.write_all(&[5, 1, 0]).await.unwrap();
                let mut b = [0u8; 2];
                if s.read_exact(&mut b).await.is_err() { return 0usize; }
                s.write_all(&[5, 1, 0, 1, 1, 2, 3, 4, 0, 80]).await.unwrap();
                let mut b = [0u8; 10];
                if s.read_exact(&mut b).await.is_err() { return 0; }
                s
            };
            let chunk = vec![7u8; 65536];
            let mut total = 0usize;
            loop {
                match tokio::time::timeout(Duration::from_secs(2), c.write_all(&chunk)).await {
                    Ok(Ok(())) => total += chunk.len(),
                    _ => break,
                }
                if total > 64 << 20 { break; }
            }
            total
        }));
    }
    tokio::time::sleep(Duration::from_secs(6)).await;
    println!("log {:?}", s.log.lock().unwrap().iter().map(|x| x.1).collect::<Vec<_>>());
    println!("client finished: {}", s.client.is_finished());
    for i in 0..5 {
        let payload = format!("after-{i}");
        echo_check(s.lport, payload.as_bytes(), Duration::from_secs(10)).await.unwrap();
        socks5_echo_check(socks_port, payload.as_bytes(), Duration::from_secs(10)).await.unwrap();
    }
    println!("client finished: {}", s.client.is_finished());
    for p in pumps { p.abort(); }
}

/// raw server: answers the upgrade and appends `tail` bytes in the same write, then holds the socket
async fn raw_server(listener: TcpListener, tails: Vec<Vec<u8>>, log: Log, close_after: bool) {
    use tokio_tungstenite::tungstenite::handshake::derive_accept_key;
    let mut held = Vec::new();
    let mut i = 0usize;
    loop {
        let (mut tcp, _) = listener.accept().await.unwrap();
        log.lock().unwrap().push((Instant::now(), B::WsSilent));
        let mut buf = Vec::new();
        let mut tmp = [0u8; 2048];
        loop {
            let n = tcp.read(&mut tmp).await.unwrap();
            if n == 0 { break; }
            buf.extend_from_slice(&tmp[..n]);
            if buf.windows(4).any(|w| w == b"\r\n\r\n") { break; }
        }
        let text = String::from_utf8_lossy(&buf).to_string();
        let key = text
            .lines()
            .find_map(|l| {
                let (k, v) = l.split_once(':')?;
                k.eq_ignore_ascii_case("sec-websocket-key").then(|| v.trim().to_string())
            })
            .unwrap();
        let accept = derive_accept_key(key.as_bytes());
        let mut resp = format!(
            "HTTP/1.1 101 Switching Protocols\r\nConnection: Upgrade\r\nUpgrade: websocket\r\nSec-WebSocket-Accept: {accept}\r\nSec-WebSocket-Protocol: {PROTOCOL_VERSION}\r\n\r\n"
        )
        .into_bytes();
        let tail = tails.get(i).cloned().unwrap_or_else(|| tails.last().cloned().unwrap());
        i += 1;
        resp.extend_from_slice(&tail);
        tcp.write_all(&resp).await.unwrap();
        if close_after {
            drop(tcp);
        } else {
            held.push(tcp);
        }
    }
}

#[tokio::test(flavor = "multi_thread", worker_threads = 4)]
async fn probe_coalesced_close() {
    for close_after in [false, true] {
        for tail in [vec![0x88u8, 0x00], vec![0x88, 0x02, 0x03, 0xe8], vec![], vec![0x82, 0x01]] {
            let listener = TcpListener::bind("127.0.0.1:0").await.unwrap();
            let sport = listener.local_addr().unwrap().port();
            let lport = free_port().await;
            let args = ClientArgs {
                server: ServerUrl::from_str(&format!("ws://127.0.0.1:{sport}/ws")).unwrap(),
                remote: vec![Remote::from_str(&format!("127.0.0.1:{lport}:127.0.0.1:9")).unwrap()],
                keepalive: OptionalDuration::NONE,
                max_retry_count: 0,
                max_retry_interval: 300_000,
                handshake_timeout: OptionalDuration::from_secs(1),
                channel_timeout: OptionalDuration::from_secs(1),
                ..Default::default()
            };
            let args: &'static ClientArgs = Box::leak(Box::new(args));
            let (hr, srx, drx) = HandlerResources::create();
            let hr: &'static HandlerResources = Box::leak(Box::new(hr));
            let log: Log = Arc::new(Mutex::new(Vec::new()));
            let server = tokio::spawn(raw_server(listener, vec![tail.clone()], log.clone(), close_after));
            let client = tokio::spawn(client_main_inner(args, hr, srx, drx));
            tokio::time::sleep(Duration::from_millis(1500)).await;
            let n = log.lock().unwrap().len();
            println!("close_after={close_after} tail={tail:x?}: attempts in 1.5s = {n}, gaps {:?}, client finished {}", gaps(&log), client.is_finished());
            if client.is_finished() {
                println!("   result: {:?}", client.await);
            } else {
                client.abort();
            }
            server.abort();
        }
    }
}


#[tokio::test(flavor = "multi_thread", worker_threads = 4)]
async fn probe_http_udp_across_reconnect() {
    let http_port = free_port().await;
    let udp_port = free_port().await;
    let s = setup(vec![B::Stall, B::WsCloseOrderly(100), B::WsSilent, B::HealthyFor(1500), B::CloseNow, B::Healthy], |a| {
        a.remote.push(Remote::from_str(&format!("127.0.0.1:{http_port}:http")).unwrap());
        a.remote.push(Remote::from_str(&format!("127.0.0.1:{udp_port}:127.0.0.1:9/udp")).unwrap());
    })
    .await;
    tokio::time::sleep(Duration::from_millis(300)).await;
    // HTTP CONNECT while down
    let h = tokio::spawn(async move {
        let mut c = TcpStream::connect(("127.0.0.1", http_port)).await.unwrap();
        c.write_all(b"CONNECT example.test:443 HTTP/1.1\r\nHost: example.test:443\r\n\r\n").await.unwrap();
        let mut buf = vec![0u8; 1024];
        let n = tokio::time::timeout(Duration::from_secs(15), c.read(&mut buf)).await.expect("http timeout").unwrap();
        let head = String::from_utf8_lossy(&buf[..n]).to_string();
        assert!(head.starts_with("HTTP/1.1 200"), "{head}");
        c.write_all(b"ping-http").await.unwrap();
        let mut b = [0u8; 9];
        tokio::time::timeout(Duration::from_secs(5), c.read_exact(&mut b)).await.expect("echo timeout").unwrap();
        assert_eq!(&b, b"ping-http");
    });
    h.await.unwrap();
    // UDP through the healthy connection, then across a reconnect
    let u = tokio::net::UdpSocket::bind("127.0.0.1:0").await.unwrap();
    u.connect(("127.0.0.1", udp_port)).await.unwrap();
    let mut ok_before = false;
    let mut ok_after = false;
    let start = Instant::now();
    let mut buf = [0u8; 64];
    while start.elapsed() < Duration::from_secs(8) {
        u.send(b"dgram").await.unwrap();
        if let Ok(Ok(n)) = tokio::time::timeout(Duration::from_millis(200), u.recv(&mut buf)).await {
            assert_eq!(&buf[..n], b"dgram");
            let nconn = s.log.lock().unwrap().len();
            if nconn <= 4 { ok_before = true; } else if nconn >= 6 { ok_after = true; break; }
        }
    }
    println!("udp ok_before={ok_before} ok_after={ok_after} log {:?}", s.log.lock().unwrap().iter().map(|x| x.1).collect::<Vec<_>>());
    assert!(ok_after);
}
