//! C02 demo 1: one large `write` is put into one WebSocket frame, which the
//! receiving `tungstenite` (default limits, as configured by `penguin`) rejects.
//! The reader then sees a *clean* end-of-stream after a strict prefix of the data,
//! and an unrelated stream on the same connection dies as well.

use penguin_mux::Multiplexor;
use tokio::io::{AsyncReadExt, AsyncWriteExt};
use tokio_tungstenite::{WebSocketStream, tungstenite::protocol::Role};

async fn get_pair() -> (
    WebSocketStream<tokio::io::DuplexStream>,
    WebSocketStream<tokio::io::DuplexStream>,
) {
    let (client, server) = tokio::io::duplex(1 << 16);
    // `None`: the default `WebSocketConfig`, exactly what `penguin` uses on both ends
    // (`client_async` in client/ws_connect.rs, `from_partially_read(.., None)` in server/service.rs)
    let client = WebSocketStream::from_raw_socket(client, Role::Client, None).await;
    let server = WebSocketStream::from_raw_socket(server, Role::Server, None).await;
    (client, server)
}

async fn run(len: usize, vectored: bool) {
    let (client, server) = get_pair().await;
    let client_mux = Multiplexor::new(client);
    let server_mux = Multiplexor::new(server);

    // An unrelated stream that only ever carries five bytes.
    let mut other_c = client_mux.new_stream_channel(&[], 0).await.unwrap();
    let mut other_s = server_mux.accept_stream_channel().await.unwrap();

    let mut writer = client_mux.new_stream_channel(&[], 0).await.unwrap();
    let mut reader = server_mux.accept_stream_channel().await.unwrap();

    let payload: Vec<u8> = (0..len).map(|i| (i % 251) as u8).collect();
    let expected = payload.clone();

    let w = tokio::spawn(async move {
        // Every call below reports success.
        if vectored {
            let (a, b) = payload.split_at(payload.len() / 2);
            let mut bufs = [std::io::IoSlice::new(a), std::io::IoSlice::new(b)];
            let mut bufs = &mut bufs[..];
            while !bufs.is_empty() {
                let n = writer.write_vectored(bufs).await.unwrap();
                assert!(n > 0);
                std::io::IoSlice::advance_slices(&mut bufs, n);
            }
        } else {
            writer.write_all(&payload).await.unwrap();
        }
        writer.flush().await.unwrap();
        writer.shutdown().await.unwrap();
        writer
    });

    let mut got = Vec::new();
    // The reader gets `Ok(_)`, i.e. a clean end-of-stream
    reader.read_to_end(&mut got).await.unwrap();
    let _writer = w.await.unwrap();

    // The unrelated stream must still work
    let other_ok = async {
        other_c.write_all(b"hello").await?;
        let mut b = [0u8; 5];
        other_s.read_exact(&mut b).await?;
        std::io::Result::Ok(b)
    }
    .await;

    let mut violations = Vec::new();
    if got != expected {
        violations.push(format!(
            "writer wrote {} bytes and shut down cleanly, reader reached a clean EOF after {} bytes",
            expected.len(),
            got.len()
        ));
    }
    match other_ok {
        Ok(b) if &b == b"hello" => {}
        r => violations.push(format!("the unrelated stream on the same connection broke: {r:?}")),
    }
    assert!(violations.is_empty(), "{violations:#?}");
}

/// Control: just below the limit everything is fine.
#[tokio::test(flavor = "multi_thread")]
async fn c02_write_just_below_16mib_ok() {
    run((16 << 20) - 5, false).await;
}

#[tokio::test(flavor = "multi_thread")]
async fn c02_single_write_above_16mib() {
    run((16 << 20) - 4, false).await;
}

#[tokio::test(flavor = "multi_thread")]
async fn c02_vectored_write_above_16mib() {
    run((16 << 20) - 4, true).await;
}

/// The same through the library's own bridge: `into_copy_bidirectional_with_buf` puts
/// everything the local side has buffered into one frame.
#[tokio::test(flavor = "multi_thread")]
async fn c02_copy_bidirectional_large_local_buffer() {
    const LEN: usize = 17 << 20;
    let (client, server) = get_pair().await;
    let client_mux = Multiplexor::new(client);
    let server_mux = Multiplexor::new(server);
    let bridged = client_mux.new_stream_channel(&[], 0).await.unwrap();
    let mut reader = server_mux.accept_stream_channel().await.unwrap();

    let payload: Vec<u8> = (0..LEN).map(|i| (i % 251) as u8).collect();
    let (local, mut app) = tokio::io::duplex(LEN);
    app.write_all(&payload).await.unwrap();
    app.shutdown().await.unwrap();
    let local = tokio::io::BufReader::with_capacity(LEN, local);
    let bridge = tokio::spawn(bridged.into_copy_bidirectional_with_buf(local));

    let mut got = Vec::new();
    reader.read_to_end(&mut got).await.unwrap();
    reader.shutdown().await.unwrap();
    let bridge_result = bridge.await.unwrap();
    assert_eq!(
        got.len(),
        LEN,
        "the bridge reported {bridge_result:?}, the reader reached a clean EOF after {} bytes",
        got.len()
    );
    assert!(got == payload, "content differs");
}
