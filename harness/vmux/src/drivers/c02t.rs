//! C02, part T — the DATA PATH over a REAL tungstenite WebSocket.
//! Same statement as `c02.rs` (per stream and direction: bytes read are at every moment a prefix of the bytes accepted
//! by successful writes, equality at clean EOF, no byte of one stream on another), but the two real endpoints talk
//! through real `tokio_tungstenite::WebSocketStream`s (A client role: masked frames; B server role) over the byte pipes
//! of `bytepipe.rs`: the crate's adapter (`ws.rs`), tungstenite's framing (7-bit / 16-bit / 64-bit lengths, masking), its
//! write buffer and its re-assembly of frames that arrive in pieces are inside the explored system. No faults.
//! The wire-monitor oracles of `xfer.rs` need `link.rs` messages and are not used here; the ledger oracle is the same.

use super::c05::push_viol;
use super::common::{Case, Plan, run_cases};
use crate::Args;
use crate::apps::{EndPlan, Ev, Op, SideCfg, Tag, World, op_str, opts};
use crate::bytepipe::{UNBOUNDED_BYTES, scan_frames};
use crate::explore::RunOutput;
use crate::report::Report;
use crate::sim::{Fnv, Step};
use std::collections::BTreeMap;
use std::time::Duration;

const W_CREDIT_ZERO: u64 = 1;
const W_ALL_DONE: u64 = 2;
/// a delivery ended in the middle of a WebSocket frame (the reader's tungstenite got a frame in more than one piece)
const W_FRAME_IN_PIECES: u64 = 4;
/// ... in the middle of a frame HEADER (fewer bytes than header + mask)
const W_HEADER_IN_PIECES: u64 = 8;
const W_PIPE_FULL: u64 = 16;
const W_TWO_STREAMS: u64 = 32;
/// one frame needed more than 100 deliveries
const W_FRAME_OVER_MANY_DELIVERIES: u64 = 64;
/// frames with a 16-bit and with a 64-bit length field were on the wire
const W_LEN16: u64 = 128;
const W_LEN64: u64 = 256;
const W_EOF_EQUAL: u64 = 512;

#[derive(Clone, Debug)]
struct Cfg {
    a: (u32, u32),
    b: (u32, u32),
    /// bytes per direction (0 = unbounded)
    cap: usize,
    /// (tag, opener side, writer script of the opener, writer script of the acceptor); every end is split into a writer
    /// (script + shutdown) and a reader that reads to end-of-stream with buffers of `rd` bytes
    streams: Vec<(Tag, usize, Vec<Op>, Vec<Op>)>,
    rd: [usize; 2],
    horizon: u64,
    /// `max_write_buffer_size` of both WebSockets (0 = tungstenite's default, unlimited). With a limit a message that
    /// does not fit is refused by the transport and the connection ends: then only the safety half of the statement is
    /// judged (what is read is a prefix of what was accepted; no early end-of-stream behind a clean shutdown)
    wlimit: usize,
}

fn describe(c: &Cfg) -> String {
    let ss: Vec<String> = c.streams.iter().map(|(t, o, wo, wa)| format!("s{t}(open by {}): opener w[{}] / acceptor w[{}]", if *o == 0 { "A" } else { "B" }, op_str(wo), op_str(wa))).collect();
    format!("A(rwnd={},thr={}) B(rwnd={},thr={}) pipe={} readers A:{} B:{} bytes | {}", c.a.0, c.a.1, c.b.0, c.b.1, if c.cap == 0 { "inf".to_string() } else { format!("{}B", c.cap) }, c.rd[0], c.rd[1], ss.join("; "))
}

fn build(c: &Cfg) -> World {
    let a = SideCfg { opts: opts(c.a.0, c.a.1).stream_buffer_size(4), rng: vec![] };
    let b = SideCfg { opts: opts(c.b.0, c.b.1).stream_buffer_size(4), rng: vec![] };
    let _limit = crate::apps::WsWriteLimit::set(c.wlimit);
    let mut w = World::two_tungstenite(if c.cap == 0 { UNBOUNDED_BYTES } else { c.cap }, &a, &b);
    let end = |ops: &Vec<Op>, side: usize| {
        let mut wr = ops.clone();
        wr.push(Op::Shutdown);
        EndPlan::Split(wr, vec![Op::ReadToEof(c.rd[side])])
    };
    for side in 0..2 {
        let plans: BTreeMap<Tag, EndPlan> = c.streams.iter().filter(|s| s.1 != side).map(|s| (s.0, end(&s.3, side))).collect();
        if !plans.is_empty() {
            let n = plans.len();
            w.spawn_acceptor(side, n, plans);
        }
    }
    for (tag, opener, wo, _) in &c.streams {
        w.spawn_opener(*opener, *tag, vec![*tag, b'h'], 1000 + u16::from(*tag), end(wo, *opener));
    }
    w
}

/// The ledger oracle of `xfer.rs` (C02), incremental: `written` and `read` only grow, so only the new bytes are compared
/// (a 70 000-byte stream is not compared again after each of some thousand steps).
#[derive(Default)]
struct Ledger {
    verified: BTreeMap<(Tag, u8), usize>,
}

impl Ledger {
    fn check(&mut self, w: &World, viol: &mut Vec<(String, String)>) {
        self.check_with(w, viol, false)
    }
    fn check_with(&mut self, w: &World, viol: &mut Vec<(String, String)>, connection_may_end: bool) {
        let obs = w.obs.borrow();
        for ((tag, dir), d) in &obs.dirs {
            let v = self.verified.entry((*tag, *dir)).or_insert(0);
            let n = d.read.len().min(d.written.len());
            if d.read.len() > d.written.len() || d.read[*v..n] != d.written[*v..n] {
                let k = *v + d.read[*v..n].iter().zip(&d.written[*v..n]).take_while(|(a, b)| a == b).count();
                let foreign = d.read.get(k).map(|b| (b >> 5, (b >> 4) & 1));
                let desc = format!(
                    "stream {tag} dir {dir}: the {} bytes read are not a prefix of the {} bytes accepted by writes: first difference at offset {k}, read {:02x?}.. vs written {:02x?}.. (the byte read there carries the mark of stream/dir {foreign:?})",
                    d.read.len(),
                    d.written.len(),
                    &d.read[k.min(d.read.len())..d.read.len().min(k + 12)],
                    &d.written[k.min(d.written.len())..d.written.len().min(k + 12)]
                );
                let key = if foreign.is_some_and(|(t, dd)| (t, dd) != (*tag & 7, *dir)) { "tung.integrity.crosstalk" } else { "tung.integrity.prefix" };
                push_viol(viol, key, desc);
            } else {
                *v = n;
            }
            if d.eof && d.shutdown && d.read.len() < d.written.len() && !connection_may_end {
                push_viol(viol, "tung.integrity.eof-early", format!("stream {tag} dir {dir}: reader saw end-of-stream after {} bytes but {} were accepted before the clean shutdown", d.read.len(), d.written.len()));
            }
            if let (false, Some(e)) = (connection_may_end, d.read_err.as_ref().or(d.write_err.as_ref())) {
                push_viol(viol, "tung.integrity.io-error", format!("stream {tag} dir {dir}: a read or write failed with {e} although nothing ends the connection"));
            }
        }
    }
}

fn exec(c: &Cfg, render: bool) -> RunOutput {
    let mut w = build(c);
    let pipe = w.pipe.clone().expect("byte pipes");
    let mut viol: Vec<(String, String)> = Vec::new();
    let mut led = Ledger::default();
    let mut fps = Vec::new();
    let mut wit = if c.streams.len() > 1 { W_TWO_STREAMS } else { 0 };
    let mut horizon = false;
    let mut blocked = false;
    // deliveries that ended inside the frame that is in transit on direction d
    let mut pieces = [0u32; 2];
    loop {
        if w.sim.steps >= c.horizon {
            horizon = true;
            break;
        }
        let en = w.sim.enabled();
        if en.is_empty() {
            break;
        }
        let Some(ch) = w.sim.choose_enabled(&en) else {
            blocked = true;
            break;
        };
        let step = en[ch].clone();
        w.sim.apply(&step);
        led.check_with(&w, &mut viol, c.wlimit > 0);
        let mut h = Fnv::default();
        {
            let l = pipe.lock();
            if let Step::Deliver(d) = &step {
                // where in the sender's byte stream does what the reader has got so far end?
                let dir = &l.dirs[*d];
                let got = &dir.wlog[..dir.delivered as usize];
                if scan_frames(got).1 {
                    pieces[*d] = 0;
                } else {
                    pieces[*d] += 1;
                    wit |= W_FRAME_IN_PIECES;
                    if pieces[*d] > 100 {
                        wit |= W_FRAME_OVER_MANY_DELIVERIES;
                    }
                    // the incomplete frame at the end: fewer bytes than its header (+ mask)?
                    let tail = tail_of_incomplete_frame(got);
                    let hl = header_len(&got[got.len() - tail..]);
                    if hl == 0 || tail < hl {
                        wit |= W_HEADER_IN_PIECES;
                    }
                }
            }
            for d in &l.dirs {
                h.u64(d.inflight.len() as u64);
                h.u64(d.unread.len() as u64);
                h.u64(d.written);
                if d.writer_waker.is_some() {
                    wit |= W_PIPE_FULL;
                }
            }
        }
        let obs = w.obs.borrow();
        for ((tag, dir), d) in &obs.dirs {
            h.byte(*tag);
            h.byte(*dir);
            h.u64(d.written.len() as u64);
            h.u64(d.read.len() as u64);
            h.byte(u8::from(d.shutdown) | u8::from(d.eof) << 1 | u8::from(d.writer_done) << 2 | u8::from(d.reader_done) << 3);
        }
        for side in 0..2 {
            if let Some(mux) = w.mux[side].as_ref() {
                for f in mux.verif_flow_digest() {
                    if f.kind == 1 && f.credit == 0 && !f.finish_sent {
                        wit |= W_CREDIT_ZERO;
                    }
                    h.u64(u64::from(f.id));
                    h.byte(f.kind);
                    h.u64(u64::from(f.credit));
                    h.byte(u8::from(f.finish_sent) | u8::from(f.read_open) << 1);
                    h.u64(f.queued as u64);
                }
            }
        }
        // tasks in a canonical order (their indices depend on who happened to be spawned first)
        let mut ts: Vec<(&str, u8)> = w.sim.tasks.iter().enumerate().map(|(i, t)| (t.name.as_str(), u8::from(t.done) | u8::from(w.sim.is_runnable(i)) << 1)).collect();
        ts.sort_unstable();
        for (n, b) in ts {
            h.str(n);
            h.byte(b);
        }
        fps.push(h.0);
    }
    // ------------------------------------------------------------ verdict at quiescence
    let mut oh = Fnv::default();
    if !blocked {
        let obs = w.obs.borrow();
        for ((tag, dir), d) in &obs.dirs {
            // (where the transport may refuse a message the connection ends by an error: end-of-stream is then owed
            // to the reader whatever the writer had queued, and only the prefix relation is judged)
            if d.shutdown && d.eof && c.wlimit == 0 {
                if d.read != d.written {
                    push_viol(&mut viol, "tung.integrity.final-equality", format!("stream {tag} dir {dir}: writer shut down cleanly after {} bytes, reader reached end-of-stream with {} bytes", d.written.len(), d.read.len()));
                } else if !d.written.is_empty() {
                    wit |= W_EOF_EQUAL;
                }
            }
        }
        let pend = obs.pending();
        if horizon {
            push_viol(&mut viol, "tung.livelock", "step horizon reached: the system never became quiescent".into());
        } else if !pend.is_empty() {
            let mut detail = String::new();
            for ((tag, dir), d) in &obs.dirs {
                detail.push_str(&format!(" [s{tag} dir{dir}: written {} read {} shutdown={} eof={}]", d.written.len(), d.read.len(), d.shutdown, d.eof));
            }
            let l = pipe.lock();
            push_viol(&mut viol, "tung.stall", format!("quiescent (nothing left to run or deliver) with unfinished application futures {pend:?};{detail}; pipes: a->b {} in flight / {} unread, b->a {} / {}", l.dirs[0].inflight.len(), l.dirs[0].unread.len(), l.dirs[1].inflight.len(), l.dirs[1].unread.len()));
        } else {
            wit |= W_ALL_DONE;
        }
        for side in 0..2 {
            if w.task_done(side) && c.wlimit == 0 {
                push_viol(&mut viol, "tung.task-ended", format!("the connection task of side {side} ended ({:?}) although nobody closed anything", w.task_result[side].borrow()));
            }
        }
        for t in &w.sim.tasks {
            if let Some(p) = &t.panicked {
                push_viol(&mut viol, "tung.panic", format!("{} panicked: {p}", t.name));
            }
        }
        for (k, d) in &obs.violations {
            viol.push((format!("tung.{k}"), d.clone()));
        }
        {
            // which length encodings were on the wire
            let l = pipe.lock();
            for d in &l.dirs {
                let mut i = 0;
                while i + 2 <= d.wlog.len() {
                    match d.wlog[i + 1] & 0x7f {
                        126 => wit |= W_LEN16,
                        127 => wit |= W_LEN64,
                        _ => {}
                    }
                    let n = frame_len(&d.wlog[i..]);
                    if n == 0 {
                        break;
                    }
                    i += n;
                }
            }
        }
        // outcome: everything the applications observed (without formatting some ten thousand read events)
        for e in &obs.events {
            match e {
                Ev::Read { tag, dir, res } => {
                    oh.byte(1);
                    oh.byte(*tag << 1 | *dir);
                    oh.u64(res.as_ref().map_or(u64::MAX, |n| *n as u64));
                }
                Ev::Wrote { tag, dir, res, .. } => {
                    oh.byte(2);
                    oh.byte(*tag << 1 | *dir);
                    oh.u64(res.as_ref().map_or(u64::MAX, |n| *n as u64));
                }
                other => oh.str(&format!("{other:?}")),
            }
        }
        for (n, d) in &obs.futures {
            oh.str(n);
            oh.byte(u8::from(*d));
        }
    }
    let out = RunOutput { blocked, steps: w.sim.steps, fingerprints: fps, outcome: oh.0, violations: viol, witnesses: wit, horizon, rendering: render.then(|| compress(&w.sim.render_log())) };
    w.sim.teardown();
    out
}

/// Length of the complete frame at the start of `b` (0 = incomplete).
fn frame_len(b: &[u8]) -> usize {
    let h = header_len(b);
    if h == 0 || b.len() < h {
        return 0;
    }
    let len = match b[1] & 0x7f {
        126 => usize::from(u16::from_be_bytes([b[2], b[3]])),
        127 => u64::from_be_bytes(b[2..10].try_into().unwrap()) as usize,
        n => usize::from(n),
    };
    if b.len() < h + len { 0 } else { h + len }
}

/// Length of the header (with extended length and mask) of the frame that starts at `b[0]`; 0 = not even known yet.
fn header_len(b: &[u8]) -> usize {
    if b.len() < 2 {
        return 0;
    }
    2 + match b[1] & 0x7f {
        126 => 2,
        127 => 8,
        _ => 0,
    } + if b[1] & 0x80 != 0 { 4 } else { 0 }
}

/// Number of bytes of `got` that belong to the incomplete frame at its end.
fn tail_of_incomplete_frame(got: &[u8]) -> usize {
    let mut i = 0;
    loop {
        let n = frame_len(&got[i..]);
        if n == 0 {
            return got.len() - i;
        }
        i += n;
    }
}

/// Schedules of the large cases have some ten thousand steps: runs of the same few steps are folded.
fn compress(log: &[String]) -> String {
    let mut out: Vec<String> = Vec::new();
    let mut i = 0;
    while i < log.len() {
        let mut best = (1usize, 1usize);
        for p in 1..=4usize {
            let mut r = 1;
            while i + (r + 1) * p <= log.len() && log[i..i + p] == log[i + r * p..i + (r + 1) * p] {
                r += 1;
            }
            if r >= 4 && r * p > best.0 * best.1 {
                best = (p, r);
            }
        }
        if best.1 > 1 {
            out.push(format!("[{}] x{}", log[i..i + best.0].join(" "), best.1));
            i += best.0 * best.1;
        } else {
            out.push(log[i].clone());
            i += 1;
        }
    }
    out.join(" ")
}

pub fn run(args: &Args) -> Report {
    let mut rep = Report::new("C02", &args.tier, "psim", "model_checking");
    let thorough = args.thorough();
    let mut cases = Vec::new();
    let pairs: [((u32, u32), (u32, u32)); 5] = [((1, 1), (1, 1)), ((2, 1), (2, 1)), ((3, 4), (3, 4)), ((1, 1), (3, 4)), ((3, 4), (2, 1))];
    // small script, per stream and direction: a burst of 1-byte frames longer than the window, a vectored write with an
    // empty slice in the middle, one 300-byte write (16-bit WebSocket length), shutdown
    let small = |win: u32| vec![Op::Burst(win as usize + 2, 1), Op::WV(vec![2, 0, 1]), Op::W(300)];
    let mut n = 0usize;
    for (a, b) in pairs {
        for cap in [0usize, 64, 7] {
            for two in [false, true] {
                // reader buffer sizes {1, 7, 4096}: every (A, B) combination is used, rotating over the cases
                let rds = [1usize, 7, 4096];
                let rd = [rds[n % 3], rds[(n / 3 + n) % 3]];
                n += 1;
                // (the window a writer runs against is the PEER's rwnd)
                let mut streams = vec![(1u8, 0usize, small(b.0), small(a.0))];
                if two {
                    streams.push((2, 1, vec![Op::WV(vec![0, 3, 0, 2]), Op::W(70), Op::Burst(a.0 as usize + 1, 1)], vec![Op::W(126), Op::WV(vec![1, 0, 0, 4])]));
                }
                let cfg = Cfg { a, b, cap, streams, rd, horizon: 20_000, wlimit: 0 };
                let label = format!("{}{} | {}", LABEL_PREFIX, if two { "2 streams (the second opened by B)" } else { "1 stream" }, describe(&cfg));
                // (k <= 1 gives only some hundred schedules per case: most steps have no alternative. The quick tier goes to
                // k <= 2 except over the 7-byte pipe, whose executions are ten times longer)
                cases.push(Case { try_unbounded: false, max_k: if cap == 7 && !thorough { 1 } else { u32::MAX }, label, exec: Box::new(move |r| exec(&cfg, r)) });
            }
        }
    }
    // large script: one write of 70 000 bytes (64-bit WebSocket length; the frame spans many pipe deliveries and many reads
    // of tungstenite's 4 KiB read buffer) behind a 300-byte one, against small writes in the other direction. Over an
    // unbounded pipe k <= 1 like the rest; over the 64-byte and 7-byte pipes (1 100 / 10 000 deliveries for that frame)
    // the canonical schedule in the quick tier
    for (a, b, cap, rd) in [((2u32, 1u32), (2u32, 1u32), 0usize, [4096usize, 7]), ((1, 1), (3, 4), 0, [7, 4096]), ((3, 4), (1, 1), 0, [1, 1]), ((2, 1), (3, 4), 64, [4096, 4096]), ((3, 4), (2, 1), 64, [7, 7]), ((1, 1), (2, 1), 7, [4096, 7])] {
        let streams = vec![(1u8, 0usize, vec![Op::W(300), Op::W(70_000), Op::W(1)], vec![Op::W(2), Op::WV(vec![1, 0, 1])]), (2, 1, vec![Op::W(70_000)], vec![Op::Burst(b.0 as usize + 2, 1)])];
        let streams = if cap == 7 { streams[..1].to_vec() } else { streams };
        let cfg = Cfg { a, b, cap, streams, rd, horizon: 400_000, wlimit: 0 };
        let label = format!("{}70 000-byte writes | {}", LABEL_PREFIX, describe(&cfg));
        cases.push(Case { try_unbounded: false, max_k: if cap == 0 { if thorough { 2 } else { 1 } } else if thorough && cap == 64 { 1 } else { 0 }, label, exec: Box::new(move |r| exec(&cfg, r)) });
    }
    // WebSockets with a bounded write buffer (4096 octets, nothing buffered before it is written out) and one write that
    // does not fit between writes that do: the transport refuses that message; whatever happens to the connection then,
    // the reader never sees the later bytes behind a hole
    for (a, b) in [((2u32, 1u32), (2u32, 1u32)), ((3, 4), (1, 1))] {
        let streams = vec![(1u8, 0usize, vec![Op::W(100), Op::W(8000), Op::W(100), Op::W(3)], vec![Op::W(2), Op::W(5000), Op::W(2)])];
        let cfg = Cfg { a, b, cap: 0, streams, rd: [4096, 7], horizon: 20_000, wlimit: 4096 };
        let label = format!("{}write buffer of the WebSockets limited to 4096 octets, writes of 8000 / 5000 among small ones | {}", LABEL_PREFIX, describe(&cfg));
        cases.push(Case { try_unbounded: false, max_k: 1, label, exec: Box::new(move |r| exec(&cfg, r)) });
    }
    // "writes of any size": ONE write of 17 000 000 bytes (more than the 16 MiB a WebSocket frame may carry under
    // tungstenite's default configuration, which is what the shipped binaries use); canonical schedule only
    {
        let (a, b) = ((2u32, 1u32), (2u32, 1u32));
        let streams = vec![(1u8, 0usize, vec![Op::W(100), Op::W(17_000_000), Op::W(1)], vec![Op::W(2)])];
        let cfg = Cfg { a, b, cap: 0, streams, rd: [65_536, 4096], horizon: 400_000, wlimit: 0 };
        let label = format!("{}one write of 17 000 000 bytes | {}", LABEL_PREFIX, describe(&cfg));
        cases.push(Case { try_unbounded: false, max_k: 0, label, exec: Box::new(move |r| exec(&cfg, r)) });
    }
    let plan = Plan {
        ks: if thorough { vec![0, 1, 2, 3] } else { vec![0, 1, 2] },
        env: 0,
        fault: 0,
        total_wall: Duration::from_secs(if thorough { 900 } else { 40 }),
        max_execs_per_case: 5_000_000,
        required_witnesses: W_CREDIT_ZERO | W_ALL_DONE | W_FRAME_IN_PIECES | W_HEADER_IN_PIECES | W_PIPE_FULL | W_TWO_STREAMS | W_FRAME_OVER_MANY_DELIVERIES | W_LEN16 | W_LEN64 | W_EOF_EQUAL,
        adaptive: thorough,
        witness_names: &[
            ("writer_ran_out_of_credit", W_CREDIT_ZERO),
            ("some_execution_completed_all_futures", W_ALL_DONE),
            ("websocket_frame_delivered_in_more_than_one_piece", W_FRAME_IN_PIECES),
            ("websocket_frame_header_delivered_in_pieces", W_HEADER_IN_PIECES),
            ("sender_blocked_on_full_pipe", W_PIPE_FULL),
            ("two_streams_opened_from_both_sides", W_TWO_STREAMS),
            ("one_frame_spanned_more_than_100_deliveries", W_FRAME_OVER_MANY_DELIVERIES),
            ("frame_with_16_bit_length", W_LEN16),
            ("frame_with_64_bit_length", W_LEN64),
            ("clean_eof_with_equal_byte_sequences", W_EOF_EQUAL),
        ],
    };
    rep.rule = "psim over REAL tungstenite (data path): two real Multiplexor endpoints whose WebSocket is a real tokio_tungstenite::WebSocketStream (A client role with masked frames, B server role, through the crate's adapter in ws.rs) over in-memory byte pipes (bytes in flight, explicit deliver steps that move everything in flight, capacity unbounded / 64 / 7 bytes with partial writes: with 7 bytes every WebSocket frame arrives in pieces, some smaller than its header + mask); 1 and 2 concurrent streams (the second opened by the other side), per stream and direction a writer (burst of 1-byte frames longer than the window, vectored writes with empty slices, writes of 300 and 70 000 bytes, clean shutdown) and a reader with buffers of 1 / 7 / 4096 bytes reading to end-of-stream, 5 (rwnd, threshold) pairs; every schedule with <= k deviations. After EVERY step the bytes read on each stream and direction are a prefix of the bytes accepted by successful writes (payload bytes carry stream, direction and offset marks: a foreign byte is cross-talk), at clean EOF the sequences are equal; no panic, no connection task ends, at quiescence every writer and reader has finished".into();
    rep.assumptions = vec![
        "one poll of a task is one atomic step; one deliver step moves everything in flight on a direction (with a bounded pipe that is at most its capacity)".into(),
        "tungstenite's read buffer is 4 KiB instead of 128 KiB (cost of zero-filling it per read); everything else is its default configuration".into(),
        "byte VALUES on the pipe (random masks of the client role) are not owned; only lengths enter fingerprints".into(),
    ];
    run_cases(args, &mut rep, cases, &plan);
    rep
}

/// every case label of this part starts with it (a replay file is routed to the part that owns the case)
pub const LABEL_PREFIX: &str = "tungstenite: ";
