//! C20 hunt: demonstrations that FAIL on the unmodified tree.
use bytes::{Buf, Bytes};
use cow_bytes::{CowBytes, LongChain};
use std::io::Read;
use std::panic::{AssertUnwindSafe, catch_unwind};

fn both(data: &'static [u8]) -> [CowBytes<'static>; 2] {
    [
        CowBytes::Temporary(data),
        CowBytes::Static(Bytes::from_static(data)),
    ]
}

/// Finding 1: `impl std::io::Read for CowBytes` hands the bytes out but never consumes them.
/// A plain byte sequence (`&[u8]`, `bytes::buf::Reader<Bytes>`) is shortened by every `read`.
#[test]
fn f1_read_consumes_like_a_byte_slice() {
    for mut cow in both(b"abcdef") {
        let mut model: &[u8] = b"abcdef";
        let mut got = [0u8; 4];
        let mut want = [0u8; 4];
        let n = cow.read(&mut got).unwrap();
        let m = model.read(&mut want).unwrap();
        assert_eq!((n, got), (m, want));
        // remaining bytes after the first read: model has "ef"
        assert_eq!(cow.as_ref(), model, "read() did not consume ({cow:?})");
    }
}

/// Finding 1, consequence: reading a 3-byte value "exactly" into 6 bytes succeeds with the
/// data repeated, where a byte slice reports UnexpectedEof.  (`read_to_end` on a non-empty
/// `CowBytes` never returns at all: it grows the vector until memory is exhausted.)
#[test]
fn f1_read_exact_past_the_end_is_an_error() {
    for mut cow in both(b"abc") {
        let mut buf = [0u8; 6];
        let res = cow.read_exact(&mut buf);
        assert!(
            res.is_err(),
            "read_exact(6) on 3 bytes returned Ok with {:?} ({cow:?})",
            core::str::from_utf8(&buf)
        );
    }
}

/// Finding 2: `LongChain::insert` with a segment index one past the end panics (fine) but has
/// already added the segment's length to the cached counter, so the surviving value reports a
/// length that disagrees with its contents.
#[test]
fn f2_out_of_range_insert_leaves_value_unchanged() {
    let mut chain = LongChain::new();
    chain.push(CowBytes::from_static(b"hello"));
    let r = catch_unwind(AssertUnwindSafe(|| {
        chain.insert(2, CowBytes::from_static(b"xyz")); // valid indices: 0, 1
    }));
    assert!(r.is_err(), "out-of-range insert is expected to panic");
    // The value is still there (e.g. behind a non-poisoning mutex, or inspected in a Drop).
    let contents: usize = chain.as_ref().iter().map(CowBytes::len).sum();
    assert_eq!(contents, 5);
    // debug builds: the next line trips `verify_invariants`; release builds: 8 != 5
    let reported = catch_unwind(AssertUnwindSafe(|| (chain.len(), chain.remaining())));
    assert_eq!(
        reported.ok(),
        Some((5, 5)),
        "reported length disagrees with contents after a panicking insert"
    );
    // and the Buf contract: advancing by `remaining()` must be possible
    let n = chain.remaining();
    chain.advance(n);
    assert!(chain.is_empty());
}

/// Finding 3: `CowBytes::truncate` with a length past the end is a no-op for the owned variant
/// (like `Vec::truncate` / `Bytes::truncate`, and like `LongChain::truncate`) but panics for the
/// borrowed variant: the two variants are distinguishable.
#[test]
fn f3_truncate_past_the_end_same_for_both_variants() {
    let outcomes: Vec<Option<Vec<u8>>> = both(b"abc")
        .into_iter()
        .map(|mut cow| {
            catch_unwind(AssertUnwindSafe(|| {
                cow.truncate(4);
                cow.to_vec()
            }))
            .ok()
        })
        .collect();
    assert_eq!(outcomes[0], outcomes[1], "Temporary vs Static");
}
