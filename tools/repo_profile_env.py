#!/usr/bin/env python3
"""The properties that speak of "production builds" (C09, C10, C20) mean the repository's own release profile. The
harness has its own workspace, so cargo does not apply the profile section of <repo>/Cargo.toml to it; this helper
reads the two settings of [profile.release] that change what the code DOES (debug-assertions, overflow-checks) and
hands them to cargo as CARGO_PROFILE_RELEASE_* variables, so that the harness binary is built the way the repository
builds its release binaries.   usage: repo_profile_env.py [<repo dir>]  -> prints `export K=V` lines
                               import repo_profile_env; repo_profile_env.env(<repo dir>) -> dict"""
import os, sys, tomllib


def env(repo="/repo"):
    out = {}
    try:
        with open(os.path.join(repo, "Cargo.toml"), "rb") as f:
            rel = tomllib.load(f).get("profile", {}).get("release", {})
    except Exception:
        return out
    for key, var in (("debug-assertions", "CARGO_PROFILE_RELEASE_DEBUG_ASSERTIONS"), ("overflow-checks", "CARGO_PROFILE_RELEASE_OVERFLOW_CHECKS")):
        if isinstance(rel.get(key), bool):
            out[var] = "true" if rel[key] else "false"
    return out


if __name__ == "__main__":
    for k, v in env(sys.argv[1] if len(sys.argv) > 1 else "/repo").items():
        print(f"export {k}={v}")
