//! C06 — abort is clean: peer is told, other streams untouched, flow ids released.
//! Driver A: two real endpoints, victim + bystander + follow-up stream, close orders x schedules.
//! Driver B: real endpoint + raw peer, open/close cycles with forced re-use of the same flow id.

use super::c05::{Checker, push_viol};
use super::common::{Case, Plan, run_cases};
use crate::Args;
use crate::apps::{EndPlan, Op, SideCfg, World, op_str, opts, payload};
use crate::codec::RFrame;
use crate::explore::{Cost, RunOutput, choose_n};
use crate::link::UNBOUNDED_CAP;
use crate::raw::{RMsg, Raw};
use crate::report::Report;
use crate::sim::Fnv;
use std::collections::BTreeMap;
use std::time::Duration;

const VICT: u8 = 1;
const BYST: u8 = 2;
const NEXT: u8 = 3;

const W_ABORT_SEEN: u64 = 1;
const W_BYST_DONE: u64 = 2;
const W_REUSE_ACKED: u64 = 4;
const W_REUSE_LOCAL: u64 = 8;
const W_TABLES_EMPTY: u64 = 16;
const W_REOPEN_WHILE_HELD: u64 = 32;
const W_LOCAL_REOPEN_WHILE_HELD: u64 = 64;
const W_OLD_STREAM_READ_AFTER_REOPEN: u64 = 128;
const W_BIND_ON_REUSED_ID: u64 = 256;
const W_CANCELLED_OPEN: u64 = 512;

fn victim_histories() -> (Vec<Vec<Op>>, Vec<Vec<Op>>) {
    let a = vec![
        vec![Op::W(2), Op::Drop],
        vec![Op::Drop],
        vec![Op::W(2), Op::Shutdown, Op::Drop],
        vec![Op::W(2), Op::ReadOnce(1), Op::Drop],
        vec![Op::W(2), Op::Shutdown, Op::ReadToEof(2)],
        vec![Op::ReadToEof(2), Op::W(1)],
    ];
    let b = vec![
        vec![Op::ReadToEof(2), Op::W(1), Op::W(1)],
        vec![Op::ReadToEof(2), Op::WV(vec![1, 1]), Op::W(1)],
        vec![Op::W(2), Op::ReadToEof(2), Op::W(1)],
        vec![Op::W(1), Op::Drop],
        vec![Op::Shutdown, Op::ReadToEof(2)],
        vec![Op::ReadOnce(1), Op::Drop],
        vec![Op::W(2), Op::W(2), Op::Shutdown, Op::ReadToEof(1)],
    ];
    (a, b)
}

fn exec_a(a_ops: &[Op], b_ops: &[Op], render: bool) -> RunOutput {
    let a = SideCfg { opts: opts(4, 2), rng: vec![] };
    let b = SideCfg { opts: opts(4, 1), rng: vec![] };
    let mut w = World::two(UNBOUNDED_CAP, &a, &b);
    let mut plans = BTreeMap::new();
    plans.insert(VICT, EndPlan::SeqKeep(b_ops.to_vec()));
    plans.insert(BYST, EndPlan::Split(vec![Op::W(2), Op::W(1), Op::Shutdown], vec![Op::ReadToEof(2)]));
    plans.insert(NEXT, EndPlan::Seq(vec![Op::ReadToEof(4), Op::W(2), Op::Shutdown]));
    w.spawn_acceptor(1, 3, plans);
    w.spawn_opener(0, BYST, vec![BYST], 2, EndPlan::Split(vec![Op::Burst(5, 1), Op::Shutdown], vec![Op::ReadToEof(1)]));
    w.spawn_opener(0, VICT, vec![VICT], 1, EndPlan::SeqKeep(a_ops.to_vec()));
    w.spawn_opener(0, NEXT, vec![NEXT], 3, EndPlan::Seq(vec![Op::W(3), Op::Shutdown, Op::ReadToEof(4)]));
    let mut ck = Checker::new(VICT);
    ck.solo = false;
    let mut horizon = false;
    loop {
        if w.sim.steps >= 4000 {
            horizon = true;
            break;
        }
        let en = w.sim.enabled();
        if en.is_empty() {
            break;
        }
        let c = choose_n(en.len(), Cost::Sched);
        let step = en[c].clone();
        let item = w.sim.apply(&step);
        ck.after_step(&w, &step, item.as_ref());
        // bystander and follow-up streams: prefix relation at every step
        let obs = w.obs.borrow();
        for t in [BYST, NEXT] {
            for dir in 0..2u8 {
                if let Some(d) = obs.dirs.get(&(t, dir)) {
                    if d.read.len() > d.written.len() || d.read[..] != d.written[..d.read.len()] {
                        push_viol(&mut ck.violations, "bystander.corrupted", format!("stream {t} dir {dir}: read {:02x?} not a prefix of written {:02x?}", d.read, d.written));
                    }
                }
            }
        }
    }
    ck.at_end(&w, horizon, false);
    {
        let obs = w.obs.borrow();
        // other streams keep their data and state: both must complete with equality
        for t in [BYST, NEXT] {
            for dir in 0..2u8 {
                let d = obs.dirs.get(&(t, dir)).cloned().unwrap_or_default();
                if !(d.shutdown && d.eof && d.read == d.written && d.write_err.is_none()) {
                    push_viol(
                        &mut ck.violations,
                        if t == BYST { "bystander.incomplete" } else { "followup.incomplete" },
                        format!("stream {t} dir {dir} did not complete intact next to the aborted stream: written {} read {} shutdown={} eof={} write_err={:?}", d.written.len(), d.read.len(), d.shutdown, d.eof, d.write_err),
                    );
                }
            }
        }
        if obs.events.iter().any(|e| matches!(e, crate::apps::Ev::Read { tag: VICT, res: Ok(0), .. })) {
            ck.witnesses |= W_ABORT_SEEN;
        }
        let pend = obs.pending();
        if pend.is_empty() && !horizon {
            ck.witnesses |= W_BYST_DONE;
            // leak clause: nobody holds a stream any more, the link is drained => both tables empty
            let mut empty = true;
            for side in 0..2 {
                if let Some(mux) = w.mux[side].as_ref() {
                    let dig = mux.verif_flow_digest();
                    if !dig.is_empty() {
                        empty = false;
                        push_viol(&mut ck.violations, "leak.flow-table", format!("every application dropped its streams and the link is drained, yet side {side} still holds {dig:?}"));
                    }
                }
            }
            if empty {
                ck.witnesses |= W_TABLES_EMPTY;
            }
        }
    }
    let mut h = Fnv::default();
    for e in &w.obs.borrow().events {
        h.str(&format!("{e:?}"));
    }
    let out = RunOutput { blocked: false,
        steps: w.sim.steps,
        fingerprints: std::mem::take(&mut ck.fps),
        outcome: h.0,
        violations: std::mem::take(&mut ck.violations),
        witnesses: ck.witnesses,
        horizon,
        rendering: render.then(|| w.sim.render_log().join(" ")),
    };
    w.sim.teardown();
    out
}

// ------------------------------------------------------------------ driver B

const F: u32 = 5;
const E_RWND: u32 = 3;

#[derive(Clone, Copy, Debug, PartialEq, Eq, Hash)]
enum Cyc {
    /// peer opens, sends data + Finish; application reads to EOF, finishes, drops
    PeerOpenClean,
    /// peer opens; application drops the stream at once (abort)
    PeerOpenLocalAbort,
    /// peer opens, sends data, then Reset
    PeerOpenPeerReset,
    /// peer opens; application finishes first, peer finishes later
    PeerOpenLocalFinishFirst,
    /// peer opens and overruns the window while nobody reads
    PeerOpenOverrun,
    /// endpoint opens (forced id), clean close both ways
    LocalOpenClean,
    /// endpoint opens (forced id), peer rejects the id once, then accepts
    LocalOpenRejectedOnce,
    /// endpoint opens, writes, aborts
    LocalOpenAbort,
    /// peer opens, sends data, aborts (Reset) and opens the same id again while the local application still HOLDS the
    /// old stream (it has read to EOF but not dropped it); then the application drops the old stream: the new stream
    /// (an "other stream on the connection") must keep its data and state
    PeerResetReopenWhileHeld,
    /// endpoint opens (id 7), the peer resets the stream while the local application still HOLDS it; the application
    /// opens another stream, whose request draws 7 again (free in the table); before the peer answers, the application
    /// drops the old stream: the pending request must not be touched (one Connect, one stream)
    LocalResetReopenWhileHeld,
    /// like PeerResetReopenWhileHeld, but the application reads what is still buffered in the OLD stream only after the
    /// peer has opened the id again: the dead stream must not put frames (acknowledgements) on the wire under an id
    /// that belongs to another stream now
    PeerResetReopenHeldReadsLater,
    /// the same with a BIND REQUEST of the local application as the new user of the id (its generator draws the id the
    /// peer has just reset, the old stream is still held with unread frames): reading the old stream must not put
    /// anything on the wire under that id, and the request resolves with the peer's own answer
    BindOnReusedIdHeldReadsLater,
    /// the same, but the application DROPS the old stream (unread) while the bind request is pending: the request must
    /// not be touched, it resolves with the peer's own answer
    BindOnReusedIdOldDropped,
    /// peer opens with a window of ONE; the application writes twice (the second write waits for the peer's grant and
    /// goes out when it comes), then aborts. The peer opens the id again, again with a window of one: the grant it
    /// sends for the NEW stream must reach the new stream's waiting writer (credit is per incarnation)
    PeerOpenGrantedThenAbortReopen,
    /// endpoint opens (forced id); the application gives the request up (drops the future) while the Connect is
    /// unanswered; the peer's Acknowledge arrives afterwards: nobody will ever own that stream, so the peer is told
    /// (Reset) and the id is free again
    LocalOpenCancelledLateAck,
    /// the same, but the peer answers the abandoned request with a rejection (Reset): nothing is owed, the id is free
    LocalOpenCancelledLateReject,
}

const CYCS: [Cyc; 16] = [
    Cyc::PeerOpenClean,
    Cyc::PeerOpenLocalAbort,
    Cyc::PeerOpenPeerReset,
    Cyc::PeerOpenLocalFinishFirst,
    Cyc::PeerOpenOverrun,
    Cyc::LocalOpenClean,
    Cyc::LocalOpenRejectedOnce,
    Cyc::LocalOpenAbort,
    Cyc::PeerResetReopenWhileHeld,
    Cyc::LocalResetReopenWhileHeld,
    Cyc::PeerResetReopenHeldReadsLater,
    Cyc::BindOnReusedIdHeldReadsLater,
    Cyc::BindOnReusedIdOldDropped,
    Cyc::PeerOpenGrantedThenAbortReopen,
    Cyc::LocalOpenCancelledLateAck,
    Cyc::LocalOpenCancelledLateReject,
];

struct B {
    w: World,
    raw: Raw,
    viol: Vec<(String, String)>,
    fps: Vec<u64>,
    wit: u64,
}

impl B {
    fn settle(&mut self) -> Vec<RMsg> {
        let mut new = Vec::new();
        loop {
            if self.w.sim.steps > 8000 {
                push_viol(&mut self.viol, "livelock", "step horizon reached".into());
                break;
            }
            let en = self.w.sim.enabled();
            if en.is_empty() {
                break;
            }
            let c = choose_n(en.len(), Cost::Sched);
            let s = en[c].clone();
            self.w.sim.apply(&s);
            new.extend(self.raw.pump());
            let mut h = Fnv::default();
            if let Some(m) = self.w.mux[0].as_ref() {
                for f in m.verif_flow_digest() {
                    h.u64(u64::from(f.id));
                    h.u64(u64::from(f.credit));
                    h.byte(f.kind | u8::from(f.finish_sent) << 2 | u8::from(f.read_open) << 3);
                    h.u64(f.queued as u64);
                }
            }
            h.u64(self.raw.got.len() as u64);
            h.u64(self.w.obs.borrow().events.len() as u64);
            self.fps.push(h.0);
        }
        new
    }
    fn digest(&self) -> Vec<penguin_mux::verif_hooks::VerifFlow> {
        self.w.mux[0].as_ref().map(|m| m.verif_flow_digest()).unwrap_or_default()
    }
    fn v(&mut self, key: &str, desc: String) {
        push_viol(&mut self.viol, key, desc);
    }
}

fn exec_b(seq: &[Cyc], render: bool) -> RunOutput {
    // the endpoint's own generator proposes 7 first in EVERY cycle (and 7 again for the next five draws of the cycle,
    // after that fresh ids): re-use is forced, a leaked slot shows as another id. The 7s are handed to the generator at
    // the start of each cycle, so that however many draws an implementation spends per request, the next cycle starts
    // with 7 again
    let rng: Vec<u32> = Vec::new();
    let cfg = SideCfg { opts: opts(E_RWND, 1).max_flow_id_retries(2), rng };
    let w = World::one(UNBOUNDED_CAP, 0, &cfg);
    let raw = Raw::new(1, w.sim.link.clone());
    let mut b = B { w, raw, viol: Vec::new(), fps: Vec::new(), wit: 0 };
    // plans of accepted streams are selected by tag = 0x10 * (position + 1) + variant
    let mut plans = BTreeMap::new();
    for (pos, c) in seq.iter().enumerate() {
        let tag = 0x10 * (pos as u8 + 1) + (*c as u8);
        let plan = match c {
            Cyc::PeerOpenClean => EndPlan::SeqKeep(vec![Op::W(1), Op::ReadToEof(4), Op::Shutdown]),
            Cyc::PeerOpenLocalAbort => EndPlan::SeqKeep(vec![Op::Drop]),
            Cyc::PeerOpenPeerReset => EndPlan::SeqKeep(vec![Op::W(1), Op::ReadToEof(4), Op::W(1)]),
            Cyc::PeerOpenLocalFinishFirst => EndPlan::SeqKeep(vec![Op::W(1), Op::Shutdown, Op::ReadToEof(4)]),
            Cyc::PeerOpenOverrun => EndPlan::SeqKeep(vec![Op::W(1), Op::Park]),
            Cyc::PeerResetReopenHeldReadsLater => {
                plans.insert(tag + 5, EndPlan::SeqKeep(vec![Op::Park]));
                EndPlan::SeqKeep(vec![Op::Gate(pos as u8), Op::ReadToEof(4), Op::Park])
            }
            Cyc::BindOnReusedIdHeldReadsLater => EndPlan::SeqKeep(vec![Op::Gate(pos as u8), Op::ReadToEof(4), Op::Park]),
            Cyc::BindOnReusedIdOldDropped => EndPlan::SeqKeep(vec![Op::Park]),
            Cyc::PeerOpenGrantedThenAbortReopen => {
                // second incarnation (tag + 1 = 0x?e, used by no other variant)
                plans.insert(tag + 1, EndPlan::SeqKeep(vec![Op::W(1), Op::W(1), Op::Shutdown, Op::ReadToEof(4)]));
                EndPlan::SeqKeep(vec![Op::W(1), Op::W(1), Op::Drop])
            }
            Cyc::PeerResetReopenWhileHeld => {
                // second incarnation (tag + 7 = 0x?f, used by no other variant): an ordinary exchange
                plans.insert(tag + 7, EndPlan::SeqKeep(vec![Op::W(1), Op::ReadToEof(4), Op::Shutdown]));
                EndPlan::SeqKeep(vec![Op::ReadToEof(4), Op::Park])
            }
            _ => continue,
        };
        plans.insert(tag, plan);
    }
    b.w.spawn_acceptor(0, usize::MAX, plans);
    b.settle();
    for (pos, c) in seq.iter().enumerate() {
        let tag = 0x10 * (pos as u8 + 1) + (*c as u8);
        {
            let mut q = b.w.rng_inject[0].borrow_mut();
            q.clear();
            q.extend([7u32; 6]);
        }
        let before = b.digest();
        if !before.is_empty() {
            b.v("leak.before-cycle", format!("cycle {pos} ({c:?}) starts at quiescence with a non-empty flow table {before:?}"));
        }
        match c {
            Cyc::PeerResetReopenHeldReadsLater => {
                b.raw.send(&RFrame::Connect { id: F, rwnd: 2, port: 1, host: vec![tag] });
                for i in 0..2u8 {
                    let d = payload(tag, 1, i as usize, 1);
                    b.raw.send(&RFrame::Push { id: F, data: d.clone() });
                    b.w.obs.borrow_mut().dir(tag, 0).written.extend(&d);
                }
                b.raw.send(&RFrame::Reset { id: F });
                b.settle();
                // the peer opens the id again; the local application still holds the old stream, with two unread frames
                let tag2 = tag + 5; // 0x?f for variant 10
                b.raw.send(&RFrame::Connect { id: F, rwnd: 2, port: 1, host: vec![tag2] });
                let got = b.settle();
                let accepted = got.iter().any(|m| matches!(m, RMsg::Frame(RFrame::Acknowledge { id: F, n }) if *n == E_RWND));
                // now the application reads what the OLD stream still has
                b.w.obs.borrow_mut().open_gate(pos as u8);
                let got = b.settle();
                if accepted {
                    b.wit |= W_OLD_STREAM_READ_AFTER_REOPEN;
                    let stale: Vec<&RMsg> = got.iter().filter(|m| matches!(m, RMsg::Frame(f) if f.id() == F)).collect();
                    if !stale.is_empty() {
                        b.v("reuse.old-stream-speaks-on-new-flow", format!("cycle {pos} ({c:?}): reading the OLD stream of flow {F} (reset by the peer, its slot gone) put {stale:?} on the wire although the id belongs to a new stream on which the peer has sent nothing"));
                    }
                    let obs = b.w.obs.borrow();
                    let d = obs.dirs.get(&(tag, 0)).cloned().unwrap_or_default();
                    drop(obs);
                    if d.read != d.written || !d.eof {
                        b.v("abort.delivered-data-lost", format!("cycle {pos} ({c:?}): the old stream must still hand out what was delivered before the Reset: read {:02x?} eof={} written {:02x?}", d.read, d.eof, d.written));
                    }
                }
                // let go of both
                for t in [tag, tag2] {
                    if let Some(i) = b.w.sim.tasks.iter().position(|x| x.name == format!("s{t}.a") && !x.done) {
                        b.w.sim.cancel_task(i);
                        b.w.obs.borrow_mut().end(&format!("s{t}.a"));
                    }
                }
                b.settle();
                b.raw.send(&RFrame::Reset { id: F });
                b.settle();
            }
            Cyc::BindOnReusedIdHeldReadsLater => {
                b.raw.send(&RFrame::Connect { id: F, rwnd: 2, port: 1, host: vec![tag] });
                for i in 0..2u8 {
                    let d = payload(tag, 1, i as usize, 1);
                    b.raw.send(&RFrame::Push { id: F, data: d.clone() });
                    b.w.obs.borrow_mut().dir(tag, 0).written.extend(&d);
                }
                b.raw.send(&RFrame::Reset { id: F });
                b.settle();
                // the application asks the peer to bind; its generator draws the id the peer has just let go of
                {
                    let mut q = b.w.rng_inject[0].borrow_mut();
                    q.clear();
                    q.extend([F; 2]);
                }
                let n = 0x300 + pos as u32;
                b.w.spawn_bind_requester(0, n, 1, vec![tag], 9);
                let got = b.settle();
                let on_f = got.iter().any(|m| matches!(m, RMsg::Frame(RFrame::Bind { id: F, .. })));
                if !on_f {
                    b.v("reuse.local-id-not-free", format!("cycle {pos} ({c:?}): the generator proposes {F}, which the peer has reset and is free; frames seen {got:?}"));
                }
                // now the application reads what the OLD stream still has
                b.w.obs.borrow_mut().open_gate(pos as u8);
                let got = b.settle();
                if on_f {
                    b.wit |= W_BIND_ON_REUSED_ID;
                    let stale: Vec<&RMsg> = got.iter().filter(|m| matches!(m, RMsg::Frame(f) if f.id() == F)).collect();
                    if !stale.is_empty() {
                        b.v("reuse.old-stream-speaks-on-new-flow", format!("cycle {pos} ({c:?}): reading the OLD stream of flow {F} (reset by the peer, its slot gone) put {stale:?} on the wire although the id belongs to a pending bind request now"));
                    }
                    // the peer application accepts: that, and nothing else, is the answer
                    b.raw.send(&RFrame::Finish { id: F });
                    b.settle();
                    let res = b.w.obs.borrow().events.iter().find_map(|e| if let crate::apps::Ev::BindResult { side: 0, n: m, res } = e { (*m == n).then(|| res.clone()) } else { None });
                    if res != Some(Ok(true)) {
                        b.v("bind.false-despite-accept", format!("cycle {pos} ({c:?}): the peer accepted the bind request on flow {F}; request_bind resolved {res:?}"));
                    }
                }
                if let Some(i) = b.w.sim.tasks.iter().position(|x| x.name == format!("s{tag}.a") && !x.done) {
                    b.w.sim.cancel_task(i);
                    b.w.obs.borrow_mut().end(&format!("s{tag}.a"));
                }
                b.settle();
            }
            Cyc::PeerOpenGrantedThenAbortReopen => {
                let pushes_on_f = |got: &[RMsg]| got.iter().filter(|m| matches!(m, RMsg::Frame(RFrame::Push { id: F, .. }))).count();
                b.raw.send(&RFrame::Connect { id: F, rwnd: 1, port: 1, host: vec![tag] });
                let got = b.settle();
                if pushes_on_f(&got) != 1 {
                    b.v("credit.window-of-one", format!("cycle {pos} ({c:?}): with a window of one exactly one of the two writes may be transmitted before the peer grants more; got {got:?}"));
                }
                b.raw.send(&RFrame::Acknowledge { id: F, n: 1 });
                let got = b.settle();
                if pushes_on_f(&got) != 1 || !got.iter().any(|m| matches!(m, RMsg::Frame(RFrame::Reset { id: F }))) {
                    b.v("credit.grant-not-used", format!("cycle {pos} ({c:?}): after Acknowledge(1) the waiting write must go out, and the stream is then aborted (Reset); got {got:?}"));
                }
                // the same id again
                let tag2 = tag + 1;
                b.raw.send(&RFrame::Connect { id: F, rwnd: 1, port: 1, host: vec![tag2] });
                let got = b.settle();
                if !got.iter().any(|m| matches!(m, RMsg::Frame(RFrame::Acknowledge { id: F, n }) if *n == E_RWND)) {
                    b.v("reuse.not-free", format!("cycle {pos} ({c:?}): Connect on flow {F} after the abort must be acknowledged with rwnd {E_RWND}; got {got:?}"));
                }
                if pushes_on_f(&got) != 1 {
                    b.v("reuse.credit-leak", format!("cycle {pos} ({c:?}): the re-opened flow starts with the window of ITS Connect (one): exactly one of the two writes may be transmitted; got {got:?}"));
                }
                b.raw.send(&RFrame::Acknowledge { id: F, n: 1 });
                let got = b.settle();
                if pushes_on_f(&got) != 1 || !got.iter().any(|m| matches!(m, RMsg::Frame(RFrame::Finish { id: F }))) {
                    b.v("reuse.credit-leak", format!("cycle {pos} ({c:?}): the peer's grant for the NEW stream on flow {F} must release its waiting write (then Finish); got {got:?} -- credited to the old incarnation?"));
                } else if pos > 0 {
                    b.wit |= W_REUSE_ACKED;
                }
                b.raw.send(&RFrame::Finish { id: F });
                b.settle();
            }
            Cyc::BindOnReusedIdOldDropped => {
                b.raw.send(&RFrame::Connect { id: F, rwnd: 2, port: 1, host: vec![tag] });
                b.raw.send(&RFrame::Push { id: F, data: payload(tag, 1, 0, 1) });
                b.raw.send(&RFrame::Reset { id: F });
                b.settle();
                {
                    let mut q = b.w.rng_inject[0].borrow_mut();
                    q.clear();
                    q.extend([F; 2]);
                }
                let n = 0x400 + pos as u32;
                b.w.spawn_bind_requester(0, n, 3, vec![tag, 0], 65535);
                let got = b.settle();
                let on_f = got.iter().any(|m| matches!(m, RMsg::Frame(RFrame::Bind { id: F, .. })));
                if !on_f {
                    b.v("reuse.local-id-not-free", format!("cycle {pos} ({c:?}): the generator proposes {F}, which the peer has reset and is free; frames seen {got:?}"));
                }
                // the application drops the OLD stream while the bind request is pending on its id
                if let Some(i) = b.w.sim.tasks.iter().position(|x| x.name == format!("s{tag}.a") && !x.done) {
                    b.w.sim.cancel_task(i);
                    b.w.obs.borrow_mut().end(&format!("s{tag}.a"));
                } else {
                    b.v("harness.holder-missing", format!("cycle {pos}: the task holding the old stream is not there"));
                }
                let got = b.settle();
                if on_f {
                    b.wit |= W_BIND_ON_REUSED_ID;
                    let res = b.w.obs.borrow().events.iter().find_map(|e| if let crate::apps::Ev::BindResult { side: 0, n: m, res } = e { (*m == n).then(|| res.clone()) } else { None });
                    if !got.is_empty() || res.is_some() {
                        b.v("abort.pending-request-disturbed", format!("cycle {pos} ({c:?}): dropping the OLD stream of flow {F} (already reset by the peer) while a bind request is pending on that id must neither put anything on the wire nor settle the request; frames {got:?}, request resolved {res:?}"));
                    }
                    // the peer application accepts: that, and nothing else, is the answer
                    b.raw.send(&RFrame::Finish { id: F });
                    let got = b.settle();
                    let res = b.w.obs.borrow().events.iter().find_map(|e| if let crate::apps::Ev::BindResult { side: 0, n: m, res } = e { (*m == n).then(|| res.clone()) } else { None });
                    if res != Some(Ok(true)) {
                        b.v("bind.false-despite-accept", format!("cycle {pos} ({c:?}): the peer accepted the bind request on flow {F}; request_bind resolved {res:?} (frames after the accept: {got:?})"));
                    }
                }
            }
            Cyc::PeerResetReopenWhileHeld => {
                b.raw.send(&RFrame::Connect { id: F, rwnd: 2, port: 1, host: vec![tag] });
                let d1 = payload(tag, 1, 0, 2);
                b.raw.send(&RFrame::Push { id: F, data: d1.clone() });
                b.w.obs.borrow_mut().dir(tag, 0).written.extend(&d1);
                b.raw.send(&RFrame::Reset { id: F });
                let got = b.settle();
                if !got.iter().any(|m| matches!(m, RMsg::Frame(RFrame::Acknowledge { id: F, n }) if *n == E_RWND)) {
                    b.v("reuse.not-free", format!("cycle {pos} ({c:?}): first Connect on flow {F} not acknowledged; got {got:?}"));
                }
                // the peer has let go of the first incarnation and opens the id again; the local application still holds the old stream
                let tag2 = tag + 7;
                b.raw.send(&RFrame::Connect { id: F, rwnd: 2, port: 1, host: vec![tag2] });
                let got = b.settle();
                let accepted = got.iter().any(|m| matches!(m, RMsg::Frame(RFrame::Acknowledge { id: F, n }) if *n == E_RWND));
                let rejected = got.iter().any(|m| matches!(m, RMsg::Frame(RFrame::Reset { id: F })));
                // now the application drops the old stream
                let idx = b.w.sim.tasks.iter().position(|t| t.name == format!("s{tag}.a") && !t.done);
                if let Some(i) = idx {
                    b.w.sim.cancel_task(i);
                    b.w.obs.borrow_mut().end(&format!("s{tag}.a"));
                } else {
                    b.v("harness.holder-missing", format!("cycle {pos}: the task holding the old stream is not there"));
                }
                let got_after_drop = b.settle();
                if accepted {
                    b.wit |= W_REOPEN_WHILE_HELD;
                    // the new stream is another stream on the connection: dropping the old one must not touch it
                    if got_after_drop.iter().any(|m| matches!(m, RMsg::Frame(RFrame::Reset { id: F }))) {
                        b.v("abort.other-stream-reset", format!("cycle {pos} ({c:?}): the application dropped the OLD stream of flow {F} (already reset by the peer) and the endpoint reset the NEW stream the peer had opened on that id meanwhile; frames after the drop: {got_after_drop:?}"));
                    }
                    let d2 = payload(tag2, 1, 0, 2);
                    b.raw.send(&RFrame::Push { id: F, data: d2.clone() });
                    b.w.obs.borrow_mut().dir(tag2, 0).written.extend(&d2);
                    b.raw.send(&RFrame::Finish { id: F });
                    let got = b.settle();
                    let obs = b.w.obs.borrow();
                    let d = obs.dirs.get(&(tag2, 0)).cloned().unwrap_or_default();
                    drop(obs);
                    if d.read != d.written || !d.eof {
                        b.v("abort.other-stream-disturbed", format!("cycle {pos} ({c:?}): the new stream on flow {F} read {:02x?} (eof={}) but its peer wrote {:02x?} and finished; frames {got:?}", d.read, d.eof, d.written));
                    }
                    if !got.iter().any(|m| matches!(m, RMsg::Frame(RFrame::Finish { id: F }))) {
                        b.v("abort.other-stream-disturbed", format!("cycle {pos} ({c:?}): the new stream's application shut down after EOF but no Finish reached the peer: {got:?}"));
                    }
                } else if rejected {
                    // also fine: the id counts as in use while the application holds the old stream; it must be free after the drop
                    b.raw.send(&RFrame::Connect { id: F, rwnd: 2, port: 1, host: vec![tag2] });
                    let d2 = payload(tag2, 1, 0, 2);
                    b.raw.send(&RFrame::Push { id: F, data: d2.clone() });
                    b.w.obs.borrow_mut().dir(tag2, 0).written.extend(&d2);
                    b.raw.send(&RFrame::Finish { id: F });
                    let got = b.settle();
                    if !got.iter().any(|m| matches!(m, RMsg::Frame(RFrame::Acknowledge { id: F, n }) if *n == E_RWND)) {
                        b.v("reuse.not-free", format!("cycle {pos} ({c:?}): after the old stream was dropped the id must be free; got {got:?}"));
                    }
                } else {
                    b.v("reopen.unanswered", format!("cycle {pos} ({c:?}): the second Connect on flow {F} was neither acknowledged nor reset: {got:?}"));
                }
            }
            Cyc::PeerOpenClean | Cyc::PeerOpenLocalAbort | Cyc::PeerOpenPeerReset | Cyc::PeerOpenLocalFinishFirst | Cyc::PeerOpenOverrun => {
                // ---- the probe: the same id again
                b.raw.send(&RFrame::Connect { id: F, rwnd: 2, port: 1, host: vec![tag] });
                // one Push right behind the Connect: the new stream must see exactly this data
                let data = payload(tag, 1, 0, 2);
                if !matches!(c, Cyc::PeerOpenLocalAbort) {
                    b.raw.send(&RFrame::Push { id: F, data: data.clone() });
                    b.w.obs.borrow_mut().dir(tag, 0).written.extend(&data);
                }
                let got = b.settle();
                let acked = got.iter().filter(|m| matches!(m, RMsg::Frame(RFrame::Acknowledge { id: F, n }) if *n == E_RWND)).count();
                if acked < 1 || got.iter().position(|m| matches!(m, RMsg::Frame(RFrame::Acknowledge { id: F, .. }))) != Some(0) {
                    b.v("reuse.not-free", format!("cycle {pos} ({c:?}): Connect on flow {F} after the previous incarnation was let go by both ends must be acknowledged with rwnd {E_RWND} first; got {got:?}"));
                } else if pos > 0 {
                    b.wit |= W_REUSE_ACKED;
                }
                // nothing of an old incarnation leaks: first write of the new stream succeeds with the fresh window
                if !matches!(c, Cyc::PeerOpenLocalAbort) {
                    let pushes: Vec<&RMsg> = got.iter().filter(|m| matches!(m, RMsg::Frame(RFrame::Push { id: F, .. }))).collect();
                    if pushes.len() != 1 {
                        b.v("reuse.write-failed", format!("cycle {pos} ({c:?}): the first write on the re-opened flow must be transmitted (closed flag or credit inherited?); got {got:?}"));
                    }
                }
                match c {
                    Cyc::PeerOpenClean => {
                        b.raw.send(&RFrame::Finish { id: F });
                        let got = b.settle();
                        if !got.iter().any(|m| matches!(m, RMsg::Frame(RFrame::Finish { id: F }))) {
                            b.v("clean.no-finish", format!("cycle {pos}: application shut down after EOF but no Finish reached the peer: {got:?}"));
                        }
                    }
                    Cyc::PeerOpenLocalAbort => {
                        if !got.iter().any(|m| matches!(m, RMsg::Frame(RFrame::Reset { id: F }))) {
                            b.v("abort.no-reset", format!("cycle {pos}: the application dropped the stream without shutdown but the peer was not told (no Reset): {got:?}"));
                        }
                    }
                    Cyc::PeerOpenPeerReset => {
                        b.raw.send(&RFrame::Reset { id: F });
                        let got = b.settle();
                        if got.iter().any(|m| matches!(m, RMsg::Frame(RFrame::Reset { .. }))) {
                            b.v("reset.answered", format!("cycle {pos}: a Reset was answered with a Reset: {got:?}"));
                        }
                        if got.iter().any(|m| matches!(m, RMsg::Frame(RFrame::Push { id: F, .. }))) {
                            b.v("abort.write-after", format!("cycle {pos}: a write after the processed peer abort was transmitted: {got:?}"));
                        }
                    }
                    Cyc::PeerOpenLocalFinishFirst => {
                        if !got.iter().any(|m| matches!(m, RMsg::Frame(RFrame::Finish { id: F }))) {
                            b.v("clean.no-finish", format!("cycle {pos}: local shutdown did not reach the peer: {got:?}"));
                        }
                        b.raw.send(&RFrame::Finish { id: F });
                        b.settle();
                    }
                    Cyc::PeerOpenOverrun => {
                        for i in 0..E_RWND {
                            b.raw.send(&RFrame::Push { id: F, data: vec![0xee, i as u8] });
                        }
                        let got = b.settle();
                        if !got.iter().any(|m| matches!(m, RMsg::Frame(RFrame::Reset { id: F }))) {
                            b.v("overrun.no-reset", format!("cycle {pos}: window overrun not answered with Reset: {got:?}"));
                        }
                        // the parked holder must let go for the next cycle
                        let idx = b.w.sim.tasks.iter().position(|t| t.name == format!("s{tag}.a") && !t.done);
                        if let Some(i) = idx {
                            b.w.sim.cancel_task(i);
                            b.w.obs.borrow_mut().end(&format!("s{tag}.a"));
                        }
                        b.settle();
                    }
                    _ => unreachable!(),
                }
                // what the application read on this incarnation is exactly what this incarnation's peer wrote
                let obs = b.w.obs.borrow();
                if let Some(d) = obs.dirs.get(&(tag, 0)) {
                    if d.read.len() > d.written.len() || d.read[..] != d.written[..d.read.len()] {
                        let desc = format!("cycle {pos} ({c:?}): the new stream on the re-used id read {:02x?}, its peer wrote {:02x?}", d.read, d.written);
                        drop(obs);
                        b.v("reuse.stale-data", desc);
                    }
                }
            }
            Cyc::LocalResetReopenWhileHeld => {
                // first incarnation on id 7: established, then reset by the peer; the application reads EOF and keeps the stream
                b.w.spawn_opener(0, tag, vec![tag], 9, EndPlan::SeqKeep(vec![Op::ReadToEof(4), Op::Park]));
                let got = b.settle();
                let ids: Vec<u32> = got.iter().filter_map(|m| if let RMsg::Frame(RFrame::Connect { id, .. }) = m { Some(*id) } else { None }).collect();
                if ids != [7] {
                    b.v("reuse.local-id-not-free", format!("cycle {pos} ({c:?}): the generator proposes 7 first and 7 must be free; Connect ids seen {ids:?}"));
                }
                b.raw.send(&RFrame::Acknowledge { id: 7, n: 2 });
                b.raw.send(&RFrame::Reset { id: 7 });
                b.settle();
                // second request: draws 7 again (the table slot is gone), Connect(7) goes out, the peer does not answer yet
                let tag2 = tag + 6; // 0x?e: used by no other variant
                b.w.spawn_opener(0, tag2, vec![tag2], 9, EndPlan::SeqKeep(vec![Op::W(2), Op::Shutdown, Op::ReadToEof(4)]));
                let got = b.settle();
                let ids: Vec<u32> = got.iter().filter_map(|m| if let RMsg::Frame(RFrame::Connect { id, .. }) = m { Some(*id) } else { None }).collect();
                let reused = ids == [7];
                // the application drops the OLD stream while the new request is pending
                let idx = b.w.sim.tasks.iter().position(|t| t.name == format!("s{tag}.a") && !t.done);
                if let Some(i) = idx {
                    b.w.sim.cancel_task(i);
                    b.w.obs.borrow_mut().end(&format!("s{tag}.a"));
                } else {
                    b.v("harness.holder-missing", format!("cycle {pos}: the task holding the old stream is not there"));
                }
                let got_after_drop = b.settle();
                if reused {
                    b.wit |= W_LOCAL_REOPEN_WHILE_HELD;
                    if !got_after_drop.is_empty() {
                        b.v("abort.pending-request-disturbed", format!("cycle {pos} ({c:?}): dropping the OLD stream of flow 7 (already reset by the peer) while a NEW request is pending on that id must not put anything on the wire; got {got_after_drop:?}"));
                    }
                    // now the peer accepts the pending request
                    b.raw.send(&RFrame::Acknowledge { id: 7, n: 2 });
                    let got = b.settle();
                    let pushes = got.iter().filter(|m| matches!(m, RMsg::Frame(RFrame::Push { id: 7, .. }))).count();
                    let resets = got.iter().filter(|m| matches!(m, RMsg::Frame(RFrame::Reset { .. }))).count();
                    let connects = got.iter().filter(|m| matches!(m, RMsg::Frame(RFrame::Connect { .. }))).count();
                    if pushes != 1 || resets != 0 || connects != 0 || !got.iter().any(|m| matches!(m, RMsg::Frame(RFrame::Finish { id: 7 }))) {
                        b.v("abort.pending-request-disturbed", format!("cycle {pos} ({c:?}): the request that was pending on flow 7 when the old stream was dropped must be established by the peer's Acknowledge and carry its write and Finish; got {got:?}"));
                    }
                    let data = payload(tag2, 1, 0, 1);
                    b.raw.send(&RFrame::Push { id: 7, data: data.clone() });
                    b.w.obs.borrow_mut().dir(tag2, 1).written.extend(&data);
                    b.raw.send(&RFrame::Finish { id: 7 });
                    b.settle();
                    let obs = b.w.obs.borrow();
                    let d = obs.dirs.get(&(tag2, 1)).cloned().unwrap_or_default();
                    drop(obs);
                    if d.read != d.written || !d.eof {
                        b.v("abort.pending-request-disturbed", format!("cycle {pos} ({c:?}): the new stream read {:02x?} eof={} but the peer wrote {:02x?} and finished", d.read, d.eof, d.written));
                    }
                } else {
                    // the endpoint kept the id reserved while the old stream was held (also fine): finish the exchange on whatever id it chose
                    let Some(&nid) = ids.first() else {
                        b.v("reopen.unanswered", format!("cycle {pos} ({c:?}): the second request put no Connect on the wire: {got:?}"));
                        continue;
                    };
                    b.raw.send(&RFrame::Acknowledge { id: nid, n: 2 });
                    b.settle();
                    b.raw.send(&RFrame::Finish { id: nid });
                    b.settle();
                }
            }
            Cyc::LocalOpenCancelledLateAck | Cyc::LocalOpenCancelledLateReject => {
                b.w.spawn_opener(0, tag, vec![tag], 9, EndPlan::SeqKeep(vec![Op::Park]));
                let got = b.settle();
                let ids: Vec<u32> = got.iter().filter_map(|m| if let RMsg::Frame(RFrame::Connect { id, .. }) = m { Some(*id) } else { None }).collect();
                if ids != [7] {
                    b.v("reuse.local-id-not-free", format!("cycle {pos} ({c:?}): the generator proposes 7 first and 7 must be free again; Connect ids seen {ids:?} (another id means a slot for 7 is still held)"));
                } else if pos > 0 {
                    b.wit |= W_REUSE_LOCAL;
                }
                let fid = ids.first().copied().unwrap_or(7);
                // the application gives up: the future of new_stream_channel is dropped with its Connect unanswered
                let name = format!("open{tag}.a");
                if let Some(i) = b.w.sim.tasks.iter().position(|t| t.name == name) {
                    b.w.sim.cancel_task(i);
                }
                // (an implementation may tell the peer at once that the request is off -- a Reset for that id -- or say
                // nothing until the peer answers; anything else on the wire has no cause)
                let at_cancel = b.settle();
                if at_cancel.iter().any(|m| !matches!(m, RMsg::Frame(RFrame::Reset { id }) if *id == fid)) {
                    b.v("cancelled-open.frames", format!("cycle {pos} ({c:?}): giving up a pending request caused frames other than a Reset of that request's id: {at_cancel:?}"));
                }
                let told_at_cancel = !at_cancel.is_empty();
                if matches!(c, Cyc::LocalOpenCancelledLateAck) {
                    b.raw.send(&RFrame::Acknowledge { id: fid, n: 2 });
                    let got = b.settle();
                    if !told_at_cancel && !got.iter().any(|m| matches!(m, RMsg::Frame(RFrame::Reset { id }) if *id == fid)) {
                        b.v("abort.no-reset", format!("cycle {pos} ({c:?}): the peer acknowledged a request whose requester had gone; the stream nobody owns must be aborted (Reset) so that the peer does not keep it; got {got:?}"));
                    }
                    b.wit |= W_CANCELLED_OPEN;
                } else {
                    b.raw.send(&RFrame::Reset { id: fid });
                    let got = b.settle();
                    if got.iter().any(|m| matches!(m, RMsg::Frame(RFrame::Reset { .. }))) {
                        b.v("reset.answered-with-reset", format!("cycle {pos} ({c:?}): a Reset is never answered with a Reset; got {got:?}"));
                    }
                }
                // black-box probe right away: the peer may use the id for a stream of its own (quiescent link)
                let left = b.digest();
                if !left.is_empty() {
                    b.v("leak.cancelled-request", format!("cycle {pos} ({c:?}): the abandoned request is settled, nobody holds a stream, yet the flow table holds {left:?}"));
                }
            }
            Cyc::LocalOpenClean | Cyc::LocalOpenRejectedOnce | Cyc::LocalOpenAbort => {
                let plan = match c {
                    Cyc::LocalOpenAbort => EndPlan::SeqKeep(vec![Op::W(2), Op::Drop]),
                    _ => EndPlan::SeqKeep(vec![Op::W(2), Op::Shutdown, Op::ReadToEof(4)]),
                };
                b.w.spawn_opener(0, tag, vec![tag], 9, plan);
                let got = b.settle();
                let ids: Vec<u32> = got.iter().filter_map(|m| if let RMsg::Frame(RFrame::Connect { id, .. }) = m { Some(*id) } else { None }).collect();
                if ids != [7] {
                    b.v("reuse.local-id-not-free", format!("cycle {pos} ({c:?}): the generator proposes 7 first and 7 must be free again; Connect ids seen {ids:?} (another id means a slot for 7 is still held)"));
                } else if pos > 0 {
                    b.wit |= W_REUSE_LOCAL;
                }
                let mut fid = 7u32;
                if matches!(c, Cyc::LocalOpenRejectedOnce) {
                    b.raw.send(&RFrame::Reset { id: 7 });
                    let got = b.settle();
                    let ids: Vec<u32> = got.iter().filter_map(|m| if let RMsg::Frame(RFrame::Connect { id, .. }) = m { Some(*id) } else { None }).collect();
                    // the request goes on with a new proposal: the same id again (it is free) or another one -- which one is
                    // the implementation's business (C07 bounds the number of attempts); the cycle continues on that id
                    match ids[..] {
                        [n] if n != 0 => fid = n,
                        _ => b.v("retry.id", format!("cycle {pos}: after the peer rejected flow 7 the request must go on with exactly one new Connect (non-zero id); Connect ids seen {ids:?}")),
                    }
                }
                b.raw.send(&RFrame::Acknowledge { id: fid, n: 2 });
                let got = b.settle();
                let pushes = got.iter().filter(|m| matches!(m, RMsg::Frame(RFrame::Push { id, .. }) if *id == fid)).count();
                if pushes != 1 {
                    b.v("reuse.write-failed", format!("cycle {pos} ({c:?}): the write on the re-opened local flow must be transmitted once; got {got:?}"));
                }
                match c {
                    Cyc::LocalOpenAbort => {
                        if !got.iter().any(|m| matches!(m, RMsg::Frame(RFrame::Reset { id }) if *id == fid)) {
                            b.v("abort.no-reset", format!("cycle {pos}: stream dropped without shutdown, no Reset reached the peer: {got:?}"));
                        }
                    }
                    _ => {
                        if !got.iter().any(|m| matches!(m, RMsg::Frame(RFrame::Finish { id }) if *id == fid)) {
                            b.v("clean.no-finish", format!("cycle {pos}: no Finish after shutdown: {got:?}"));
                        }
                        let data = payload(tag, 1, 0, 1);
                        b.raw.send(&RFrame::Push { id: fid, data: data.clone() });
                        b.w.obs.borrow_mut().dir(tag, 1).written.extend(&data);
                        b.raw.send(&RFrame::Finish { id: fid });
                        b.settle();
                        let obs = b.w.obs.borrow();
                        let d = obs.dirs.get(&(tag, 1)).cloned().unwrap_or_default();
                        if d.read != d.written || !d.eof {
                            drop(obs);
                            b.v("reuse.stale-data", format!("cycle {pos} ({c:?}): read {:02x?} eof={} but the peer wrote {:02x?} and finished", d.read, d.eof, d.written));
                        }
                    }
                }
            }
        }
    }
    let end = b.digest();
    if !end.is_empty() {
        b.v("leak.flow-table", format!("after {} open/close cycles nobody holds a stream, yet the flow table holds {end:?}", seq.len()));
    } else {
        b.wit |= W_TABLES_EMPTY;
    }
    if b.w.task_done(0) {
        let r = b.w.task_result[0].borrow().clone();
        b.v("task.ended", format!("connection task ended: {r:?}"));
    }
    for t in &b.w.sim.tasks {
        if let Some(p) = &t.panicked {
            let d = format!("{} panicked: {p}", t.name);
            push_viol(&mut b.viol, "panic", d);
        }
    }
    let mut h = Fnv::default();
    for m in &b.raw.got {
        h.str(&format!("{m:?}"));
    }
    let out = RunOutput { blocked: false,
        steps: b.w.sim.steps,
        fingerprints: std::mem::take(&mut b.fps),
        outcome: h.0,
        violations: std::mem::take(&mut b.viol),
        witnesses: b.wit,
        horizon: false,
        rendering: render.then(|| format!("raw peer received: {:?}", b.raw.got)),
    };
    b.w.sim.teardown();
    out
}

/// The id-reuse cycles of driver B on their own, as a part of the checks of C03 ("never acknowledges frames it has not
/// consumed", "never reset for overrunning the window") and C10 ("streams not addressed by the offending frames keep
/// their data and state"): a stream the peer has reset, still held with unread frames, must stay silent on its id once
/// the id has been opened again.
pub fn run_reuse(args: &Args) -> Report {
    let pid = args.id.trim_end_matches('R').to_string();
    let mut rep = Report::new(&pid, &args.tier, "psim", "model_checking");
    let thorough = args.thorough();
    let reuse = [Cyc::PeerResetReopenWhileHeld, Cyc::LocalResetReopenWhileHeld, Cyc::PeerResetReopenHeldReadsLater, Cyc::BindOnReusedIdHeldReadsLater, Cyc::BindOnReusedIdOldDropped, Cyc::PeerOpenGrantedThenAbortReopen];
    let mut seqs: Vec<Vec<Cyc>> = Vec::new();
    for c in reuse {
        seqs.push(vec![c]);
        for a in CYCS {
            seqs.push(vec![a, c]);
            seqs.push(vec![c, a]);
            if thorough {
                for b2 in CYCS {
                    seqs.push(vec![a, c, b2]);
                }
            }
        }
    }
    let mut cases = Vec::new();
    for s in seqs {
        let s2 = s.clone();
        cases.push(Case { try_unbounded: false, max_k: u32::MAX, label: format!("id re-use cycles {s:?}"), exec: Box::new(move |r| exec_b(&s2, r)) });
    }
    let plan = Plan {
        ks: if thorough { vec![0, 1, 2, 3, 4] } else { vec![0, 1, 2, 3] },
        env: 0,
        fault: 0,
        total_wall: Duration::from_secs(if thorough { 600 } else { 60 }),
        max_execs_per_case: 100_000,
        required_witnesses: W_REOPEN_WHILE_HELD | W_LOCAL_REOPEN_WHILE_HELD | W_OLD_STREAM_READ_AFTER_REOPEN | W_BIND_ON_REUSED_ID,
        adaptive: thorough,
        witness_names: &[("peer_reopened_id_while_old_stream_held", W_REOPEN_WHILE_HELD), ("local_reopen_while_old_stream_held", W_LOCAL_REOPEN_WHILE_HELD), ("old_stream_read_after_reopen", W_OLD_STREAM_READ_AFTER_REOPEN), ("bind_request_on_reused_id", W_BIND_ON_REUSED_ID)],
    };
    rep.rule = "psim, real endpoint + raw peer: open/close cycles in which a flow id is opened again (by the peer, or by the local generator) while the application still holds the old stream of that id (reset by the peer, unread frames in it), alone, before and after every other cycle kind; the old stream is then read and dropped: nothing it does may appear on the wire under the re-used id (no Acknowledge of frames the new flow never carried, no Reset of the new flow), and the new flow keeps its data, credit and state".into();
    rep.assumptions = vec!["re-use is probed at link quiescence".into(), "one poll = one atomic step".into()];
    run_cases(args, &mut rep, cases, &plan);
    rep
}

pub fn run(args: &Args) -> Report {
    let mut rep = Report::new("C06", &args.tier, "psim", "model_checking");
    let thorough = args.thorough();
    let mut cases = Vec::new();
    let (ha, hb) = victim_histories();
    for a in &ha {
        for b in &hb {
            let (a2, b2) = (a.clone(), b.clone());
            cases.push(Case { try_unbounded: false, max_k: u32::MAX, label: format!("A: victim A:[{}] B:[{}] + bystander + follow-up", op_str(a), op_str(b)), exec: Box::new(move |r| exec_a(&a2, &b2, r)) });
        }
    }
    let mut seqs: Vec<Vec<Cyc>> = Vec::new();
    for a in CYCS {
        seqs.push(vec![a]);
        for b2 in CYCS {
            seqs.push(vec![a, b2]);
            if thorough {
                for c in CYCS {
                    seqs.push(vec![a, b2, c]);
                }
            }
        }
    }
    // long chains of cycles (each variant in turn), to show nothing accumulates
    let long: Vec<Cyc> = (0..if thorough { 12 } else { 6 }).map(|i| CYCS[(i * 3 + 1) % CYCS.len()]).collect();
    seqs.push(long);
    for s in seqs {
        let s2 = s.clone();
        cases.push(Case { try_unbounded: false, max_k: u32::MAX, label: format!("B: cycles {s:?}"), exec: Box::new(move |r| exec_b(&s2, r)) });
    }
    let plan = Plan {
        ks: if thorough { vec![0, 1, 2, 3, 4, 5] } else { vec![0, 1, 2] },
        env: 0,
        fault: 0,
        total_wall: Duration::from_secs(if thorough { 1500 } else { 100 }),
        max_execs_per_case: 400_000,
        required_witnesses: W_ABORT_SEEN | W_BYST_DONE | W_REUSE_ACKED | W_REUSE_LOCAL | W_TABLES_EMPTY | W_REOPEN_WHILE_HELD | W_LOCAL_REOPEN_WHILE_HELD | W_OLD_STREAM_READ_AFTER_REOPEN | W_CANCELLED_OPEN,
        adaptive: thorough,
        witness_names: &[("abort_observed_as_eof", W_ABORT_SEEN), ("all_futures_completed", W_BYST_DONE), ("peer_reopen_of_same_id_acknowledged", W_REUSE_ACKED), ("local_reopen_drew_same_id", W_REUSE_LOCAL), ("flow_tables_empty_at_end", W_TABLES_EMPTY), ("peer_reopened_id_while_old_stream_still_held", W_REOPEN_WHILE_HELD), ("local_request_pending_on_the_id_when_the_old_stream_is_dropped", W_LOCAL_REOPEN_WHILE_HELD), ("old_stream_read_after_the_id_was_reopened", W_OLD_STREAM_READ_AFTER_REOPEN), ("pending_request_given_up_then_acknowledged_by_the_peer", W_CANCELLED_OPEN)],
    };
    rep.rule = "driver A: two real endpoints, a victim stream under every pair of close histories (shutdown?/drop/read orders with data in flight), a bystander stream with traffic both ways and a follow-up stream, all schedules <= k deviations: C05's reference model on the victim, bystander/follow-up must complete with equality, flow tables (hook) empty once nobody holds a stream. driver B: real endpoint + raw peer, every sequence of <= L open/close cycles over 11 variants (clean, local abort, peer reset, finish-first, overrun, locally opened clean/rejected/aborted, peer reset + re-open of the id while the local application still holds the old stream, which it then drops: the new stream must not be touched; the same with a NEW LOCAL REQUEST pending on the id when the old stream is dropped; and the old stream's buffered data read only after the id was re-opened: the dead stream must not speak on the new flow) re-using the SAME flow id at link quiescence: the re-opened id must be acknowledged (slot free, black box), start with fresh credit, empty buffer and no closed flag; the endpoint's scripted generator must draw the same id again".into();
    rep.assumptions = vec![
        "re-use is probed at link quiescence; a Reset/Push of the old incarnation still in flight when the id is re-used is outside the statement (no incarnation numbers in the protocol)".into(),
        "one poll = one atomic step".into(),
    ];
    run_cases(args, &mut rep, cases, &plan);
    rep
}
