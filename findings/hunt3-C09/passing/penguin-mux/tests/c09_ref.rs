//! Independent reference codec written from PROTOCOL.md, compared against penguin_mux::frame.
//! Run in release (debug builds deliberately `debug_assert!` on short frames).
use bytes::Bytes;
use cow_bytes::CowBytes;
use penguin_mux::frame::{BindType, Error, Frame, OpCode, append_push_data};

#[derive(Clone, Debug, PartialEq, Eq)]
enum Ref {
    Connect { id: u32, rwnd: u32, port: u16, host: Vec<u8> },
    Ack { id: u32, n: u32 },
    Reset { id: u32 },
    Finish { id: u32 },
    Push { id: u32, data: Vec<u8> },
    Bind { id: u32, ty: u8, port: u16, host: Vec<u8> },
    Dgram { id: u32, port: u16, host: Vec<u8>, data: Vec<u8> },
}

impl Ref {
    fn encode(&self) -> Vec<u8> {
        let mut v = Vec::new();
        match self {
            Ref::Connect { id, rwnd, port, host } => {
                v.push(0x70);
                v.extend(id.to_be_bytes());
                v.extend(rwnd.to_be_bytes());
                v.extend(port.to_be_bytes());
                v.extend(host);
            }
            Ref::Ack { id, n } => {
                v.push(0x71);
                v.extend(id.to_be_bytes());
                v.extend(n.to_be_bytes());
            }
            Ref::Reset { id } => {
                v.push(0x72);
                v.extend(id.to_be_bytes());
            }
            Ref::Finish { id } => {
                v.push(0x73);
                v.extend(id.to_be_bytes());
            }
            Ref::Push { id, data } => {
                v.push(0x74);
                v.extend(id.to_be_bytes());
                v.extend(data);
            }
            Ref::Bind { id, ty, port, host } => {
                v.push(0x75);
                v.extend(id.to_be_bytes());
                v.push(*ty);
                v.extend(port.to_be_bytes());
                v.extend(host);
            }
            Ref::Dgram { id, port, host, data } => {
                v.push(0x76);
                v.extend(id.to_be_bytes());
                v.push(host.len() as u8);
                v.extend(port.to_be_bytes());
                v.extend(host);
                v.extend(data);
            }
        }
        v
    }

    fn decode(b: &[u8]) -> Result<Ref, ()> {
        if b.len() < 5 {
            return Err(());
        }
        let ver = b[0] >> 4;
        if ver != 7 && ver != 0 {
            return Err(());
        }
        let op = b[0] & 0xf;
        let id = u32::from_be_bytes([b[1], b[2], b[3], b[4]]);
        let p = &b[5..];
        match op {
            0 => {
                if p.len() < 6 {
                    return Err(());
                }
                Ok(Ref::Connect {
                    id,
                    rwnd: u32::from_be_bytes([p[0], p[1], p[2], p[3]]),
                    port: u16::from_be_bytes([p[4], p[5]]),
                    host: p[6..].to_vec(),
                })
            }
            1 => {
                if p.len() < 4 {
                    return Err(());
                }
                Ok(Ref::Ack { id, n: u32::from_be_bytes([p[0], p[1], p[2], p[3]]) })
            }
            2 => Ok(Ref::Reset { id }),
            3 => Ok(Ref::Finish { id }),
            4 => Ok(Ref::Push { id, data: p.to_vec() }),
            5 => {
                if p.len() < 3 {
                    return Err(());
                }
                if p[0] != 1 && p[0] != 3 {
                    return Err(());
                }
                Ok(Ref::Bind {
                    id,
                    ty: p[0],
                    port: u16::from_be_bytes([p[1], p[2]]),
                    host: p[3..].to_vec(),
                })
            }
            6 => {
                if p.len() < 3 {
                    return Err(());
                }
                let hl = p[0] as usize;
                if p.len() < 3 + hl {
                    return Err(());
                }
                Ok(Ref::Dgram {
                    id,
                    port: u16::from_be_bytes([p[1], p[2]]),
                    host: p[3..3 + hl].to_vec(),
                    data: p[3 + hl..].to_vec(),
                })
            }
            _ => Err(()),
        }
    }

    /// Build with the public constructors; `variant` selects among equivalent ones.
    fn build(&self, variant: u32) -> Frame<'_> {
        match self {
            Ref::Connect { id, rwnd, port, host } => Frame::new_connect(host, *port, *id, *rwnd),
            Ref::Ack { id, n } => Frame::new_acknowledge(*id, *n),
            Ref::Reset { id } => Frame::new_reset(*id),
            Ref::Finish { id } => Frame::new_finish(*id),
            Ref::Push { id, data } => match variant % 4 {
                0 => Frame::new_push(*id, data),
                1 => Frame::new_push_owned(*id, Bytes::copy_from_slice(data)),
                2 => {
                    // split in up to 3 pieces, mixed variants, with empty pieces
                    let a = (variant as usize / 4) % (data.len() + 1);
                    let b = a + (variant as usize / 64) % (data.len() - a + 1);
                    Frame::new_push_vectored(
                        *id,
                        vec![
                            CowBytes::Temporary(&data[..a]),
                            CowBytes::Temporary(&[]),
                            CowBytes::Static(Bytes::copy_from_slice(&data[a..b])),
                            CowBytes::Temporary(&data[b..]),
                        ],
                    )
                }
                _ => {
                    if data.is_empty() {
                        Frame::new_push_vectored(*id, vec![])
                    } else {
                        Frame::new_push_vectored(
                            *id,
                            data.iter().map(|b| CowBytes::Temporary(core::slice::from_ref(b))).collect(),
                        )
                    }
                }
            },
            Ref::Bind { id, ty, port, host } => Frame::new_bind(
                *id,
                if *ty == 1 { BindType::Stream } else { BindType::Datagram },
                host,
                *port,
            ),
            Ref::Dgram { id, port, host, data } => {
                if variant % 2 == 0 {
                    Frame::new_datagram(*id, host, *port, data)
                } else {
                    Frame::new_datagram_owned(
                        *id,
                        Bytes::copy_from_slice(host),
                        *port,
                        Bytes::copy_from_slice(data),
                    )
                }
            }
        }
    }
}

struct Rng(u64);
impl Rng {
    fn next(&mut self) -> u64 {
        self.0 ^= self.0 << 13;
        self.0 ^= self.0 >> 7;
        self.0 ^= self.0 << 17;
        self.0
    }
    fn pick<T: Copy>(&mut self, xs: &[T]) -> T {
        xs[(self.next() % xs.len() as u64) as usize]
    }
    fn bytes(&mut self, n: usize) -> Vec<u8> {
        (0..n).map(|_| self.next() as u8).collect()
    }
}

fn check_roundtrip(r: &Ref, variant: u32) {
    let f = r.build(variant);
    let want = r.encode();
    let got_vec = Vec::from(&f);
    assert_eq!(got_vec, want, "encode Vec {r:?}");
    let got_bytes = Bytes::from(&f);
    assert_eq!(&got_bytes[..], &want[..], "encode Bytes {r:?}");
    let msg: penguin_mux::ws::Message = f.clone().into();
    assert_eq!(msg, penguin_mux::ws::Message::Binary(Bytes::from(want.clone())));
    // borrowed
    let d1 = Frame::try_from(&want[..]).unwrap_or_else(|e| panic!("decode borrowed {r:?}: {e}"));
    assert_eq!(d1, f, "borrowed {r:?}");
    assert_eq!(f, d1);
    // owned
    let d2 = Frame::try_from(Bytes::from(want.clone())).unwrap();
    assert_eq!(d2, f, "owned {r:?}");
    let d3 = Frame::try_from(want.clone()).unwrap();
    assert_eq!(d3, f);
    let d4 = Frame::try_from(CowBytes::Static(Bytes::from(want.clone()))).unwrap();
    assert_eq!(d4, f);
    assert_eq!(d1.id, f.id);
    assert_eq!(d1.opcode(), f.opcode());
    assert_eq!(Vec::from(&d1), want);
    assert_eq!(Vec::from(&d2), want);
    assert_eq!(Vec::from(d2.clone()), want);
    assert_eq!(&Bytes::from(d2)[..], &want[..]);
}

const U32S: &[u32] = &[0, 1, 2, 0x7f, 0x80, 0xff, 0x100, 0xffff, 0x1_0000, 0x7fff_ffff, 0x8000_0000, 0xffff_fffe, 0xffff_ffff, 0x0102_0304, 0x7071_7273];
const U16S: &[u16] = &[0, 1, 0xff, 0x100, 0x7fff, 0x8000, 0xfffe, 0xffff, 0x0102, 0x7675];

#[test]
fn constructors_roundtrip_boundaries() {
    if std::env::var_os("C09_TRACE").is_some() {
        let _ = tracing_subscriber::fmt().with_max_level(tracing::Level::TRACE).with_writer(std::io::sink).try_init();
    }
    let mut rng = Rng(0x9e37_79b9_7f4a_7c15);
    let lens: Vec<usize> = (0..=20).chain([127, 128, 254, 255]).collect();
    let dlens: Vec<usize> = (0..=20).chain([255, 256, 257, 65535, 65536, 70000]).collect();
    for &id in U32S {
        for &w in U32S {
            check_roundtrip(&Ref::Ack { id, n: w }, 0);
            for &port in &[0u16, 0xffff, 0x0102] {
                for &hl in &[0usize, 1, 255, 256, 1000] {
                    check_roundtrip(&Ref::Connect { id, rwnd: w, port, host: rng.bytes(hl) }, 0);
                }
            }
        }
        check_roundtrip(&Ref::Reset { id }, 0);
        check_roundtrip(&Ref::Finish { id }, 0);
        for &port in U16S {
            for &hl in &lens {
                for ty in [1u8, 3] {
                    check_roundtrip(&Ref::Bind { id, ty, port, host: rng.bytes(hl) }, 0);
                }
            }
        }
    }
    for &hl in &(0..=255).collect::<Vec<usize>>() {
        for &dl in &dlens {
            for v in 0..2 {
                let id = rng.pick(U32S);
                let port = rng.pick(U16S);
                check_roundtrip(&Ref::Dgram { id, port, host: rng.bytes(hl), data: rng.bytes(dl) }, v);
            }
        }
    }
    for &dl in &dlens {
        for v in 0..512 {
            let id = rng.pick(U32S);
            check_roundtrip(&Ref::Push { id, data: rng.bytes(dl) }, v);
        }
    }
    // host bytes that look like headers
    for host in [&[0x76u8, 0, 0, 0, 0, 0][..], &[0xff; 255][..], &[0; 255][..]] {
        check_roundtrip(&Ref::Dgram { id: 0x7676_7676, port: 0x7676, host: host.to_vec(), data: host.to_vec() }, 0);
        check_roundtrip(&Ref::Connect { id: 0, rwnd: 0, port: 0, host: host.to_vec() }, 0);
    }
}

#[test]
fn constructors_roundtrip_random() {
    let mut rng = Rng(0xdead_beef_1234_5678);
    for _ in 0..300_000 {
        let id = if rng.next() % 2 == 0 { rng.pick(U32S) } else { rng.next() as u32 };
        let port = if rng.next() % 2 == 0 { rng.pick(U16S) } else { rng.next() as u16 };
        let w = if rng.next() % 2 == 0 { rng.pick(U32S) } else { rng.next() as u32 };
        let hl = (rng.next() % 256) as usize;
        let dl = match rng.next() % 4 {
            0 => (rng.next() % 5) as usize,
            1 => (rng.next() % 300) as usize,
            _ => (rng.next() % 40) as usize,
        };
        let r = match rng.next() % 7 {
            0 => Ref::Connect { id, rwnd: w, port, host: rng.bytes(hl) },
            1 => Ref::Ack { id, n: w },
            2 => Ref::Reset { id },
            3 => Ref::Finish { id },
            4 => Ref::Push { id, data: rng.bytes(dl) },
            5 => Ref::Bind { id, ty: if rng.next() % 2 == 0 { 1 } else { 3 }, port, host: rng.bytes(hl) },
            _ => Ref::Dgram { id, port, host: rng.bytes(hl), data: rng.bytes(dl) },
        };
        check_roundtrip(&r, rng.next() as u32);
    }
}

fn check_decode(b: &[u8]) {
    let want = Ref::decode(b);
    let got_b = Frame::try_from(b);
    let got_o = Frame::try_from(Bytes::copy_from_slice(b));
    let got_v = Frame::try_from(b.to_vec());
    match (&want, &got_b, &got_o, &got_v) {
        (Ok(r), Ok(fb), Ok(fo), Ok(fv)) => {
            let f = r.build(0);
            assert_eq!(*fb, f, "{b:02x?}");
            assert_eq!(*fo, f, "{b:02x?}");
            assert_eq!(*fv, f, "{b:02x?}");
            assert_eq!(fb.id, f.id);
            assert_eq!(fb.opcode(), f.opcode());
            let canon = r.encode();
            assert_eq!(Vec::from(fb), canon, "{b:02x?}");
            assert_eq!(Vec::from(fo), canon, "{b:02x?}");
        }
        (Err(()), Err(eb), Err(eo), Err(ev)) => {
            assert_eq!(eb, eo);
            assert_eq!(eb, ev);
            // plausibility of the kind
            match eb {
                Error::FrameVersion(v) => {
                    assert!(b.len() >= 5 && *v == b[0] >> 4 && *v != 0 && *v != 7, "{b:02x?}")
                }
                Error::InvalidOpCode(o) => assert!(b.len() >= 5 && *o == b[0] & 0xf && *o > 6, "{b:02x?}"),
                Error::InvalidBindType(t) => {
                    assert!(b.len() >= 8 && b[0] & 0xf == 5 && *t == b[5] && *t != 1 && *t != 3, "{b:02x?}")
                }
                Error::FrameTooShort => {}
            }
        }
        _ => panic!("disagreement on {b:02x?}: ref {want:?} impl {got_b:?} / {got_o:?} / {got_v:?}"),
    }
}

#[test]
fn decode_exhaustive_small() {
    // every first byte, every byte at offset 5 (bind type / host_len / rwnd msb), lengths 0..=12 and around host_len
    let mut rng = Rng(42);
    for b0 in 0..=255u8 {
        for b5 in 0..=255u8 {
            let mut lens: Vec<usize> = (0..=14).collect();
            let hl = b5 as usize;
            for d in 0..=4 {
                lens.push(5 + 3 + hl + d);
                lens.push((5 + 3 + hl).saturating_sub(d));
            }
            for len in lens {
                let mut b = rng.bytes(len);
                if len > 0 {
                    b[0] = b0;
                }
                if len > 5 {
                    b[5] = b5;
                }
                check_decode(&b);
            }
        }
    }
}

#[test]
fn decode_exhaustive_alphabet() {
    // all strings of length <= 8 over a boundary alphabet with the first byte from its own alphabet
    let first: Vec<u8> = (0x00..=0x0f).chain(0x70..=0x7f).chain([0x10, 0x60, 0x80, 0xf0, 0xff, 0x86, 0x16]).collect();
    let alpha = [0u8, 1, 2, 3, 4, 0xff];
    for len in 0..=9usize {
        if len == 0 {
            check_decode(&[]);
            continue;
        }
        let n = alpha.len().pow((len - 1) as u32);
        for &b0 in &first {
            for mut k in 0..n {
                let mut b = vec![b0];
                for _ in 1..len {
                    b.push(alpha[k % alpha.len()]);
                    k /= alpha.len();
                }
                check_decode(&b);
            }
        }
    }
}

#[test]
fn decode_random_and_mutations() {
    let mut rng = Rng(0x1357_9bdf_2468_ace0);
    for _ in 0..400_000 {
        let len = (rng.next() % 300) as usize;
        let mut b = rng.bytes(len);
        if len > 0 && rng.next() % 4 != 0 {
            b[0] = (if rng.next() % 4 == 0 { 0 } else { 0x70 }) | (rng.next() % 8) as u8;
        }
        if len > 5 && rng.next() % 2 == 0 {
            b[5] = rng.pick(&[0u8, 1, 2, 3, 4, 254, 255, (len.saturating_sub(8)) as u8, (len.saturating_sub(7)) as u8, (len.saturating_sub(9)) as u8]);
        }
        check_decode(&b);
        // truncations
        if rng.next() % 8 == 0 {
            for l in 0..b.len().min(20) {
                check_decode(&b[..l]);
            }
        }
    }
}

#[test]
fn append_push() {
    let mut rng = Rng(7);
    for _ in 0..20_000 {
        let id = rng.next() as u32;
        let n = (rng.next() % 20) as usize;
        let a = rng.bytes(n);
        let mut v = Vec::from(Frame::new_push(id, &a));
        let mut all = a.clone();
        for _ in 0..(rng.next() % 4) {
            let n = (rng.next() % 20) as usize;
            let c = rng.bytes(n);
            append_push_data(&mut v, &c);
            all.extend(&c);
        }
        assert_eq!(v, Ref::Push { id, data: all.clone() }.encode());
        assert_eq!(Frame::try_from(&v[..]).unwrap(), Frame::new_push(id, &all));
        // lenient version nibble
        v[0] = 0x04;
        append_push_data(&mut v, &[9]);
        all.push(9);
        assert_eq!(Frame::try_from(&v[..]).unwrap(), Frame::new_push(id, &all));
    }
}

#[test]
fn opcode_try_from_total() {
    for v in 0..=255u8 {
        let r = OpCode::try_from(v);
        let ver = v >> 4;
        let op = v & 0xf;
        if ver != 0 && ver != 7 {
            assert_eq!(r, Err(Error::FrameVersion(ver)));
        } else if op > 6 {
            assert_eq!(r, Err(Error::InvalidOpCode(op)));
        } else {
            assert_eq!(r.unwrap() as u8, 0x70 | op);
        }
        let b = BindType::try_from(v);
        match v {
            1 => assert_eq!(b, Ok(BindType::Stream)),
            3 => assert_eq!(b, Ok(BindType::Datagram)),
            _ => assert_eq!(b, Err(Error::InvalidBindType(v))),
        }
    }
}
